"""Engine E4 support: exhaustive enumeration of weak orderings (ordered set
partitions) of a set of symbols under ordering constraints, and strictly
monotone embeddings of an ordering into the rationals (several per ordering, so
that any code that does more than compare the symbols is detected: its branch
would then not be constant on the cell and the interpreter forks on witnessed
samples)."""
from __future__ import annotations

from fractions import Fraction
from typing import Dict, Iterator, List, Sequence, Tuple

Constraint = Tuple[str, str, str]   # (a, op, b)  op in <,<=,==,!=


def _ok(rank: Dict[str, int], cons: Sequence[Constraint]) -> bool:
    for a, op, b in cons:
        if a in rank and b in rank:
            ra, rb = rank[a], rank[b]
            if op == "<" and not ra < rb:
                return False
            if op == "<=" and not ra <= rb:
                return False
            if op == "==" and not ra == rb:
                return False
            if op == "!=" and not ra != rb:
                return False
    return True


def weak_orderings(symbols: Sequence[str], cons: Sequence[Constraint] = ()) -> Iterator[Dict[str, int]]:
    """Yield rank maps symbol -> block index (0..k-1), every weak ordering exactly once."""
    symbols = list(symbols)

    def rec(i: int, blocks: List[List[str]]):
        if i == len(symbols):
            yield {s: bi for bi, b in enumerate(blocks) for s in b}
            return
        s = symbols[i]
        # put into an existing block
        for bi in range(len(blocks)):
            blocks[bi].append(s)
            rank = {x: j for j, b in enumerate(blocks) for x in b}
            if _ok(rank, cons):
                yield from rec(i + 1, blocks)
            blocks[bi].pop()
        # or as a new block at any position
        for pos in range(len(blocks) + 1):
            blocks.insert(pos, [s])
            rank = {x: j for j, b in enumerate(blocks) for x in b}
            if _ok(rank, cons):
                yield from rec(i + 1, blocks)
            blocks.pop(pos)
    yield from rec(0, [])


def embeddings(rank: Dict[str, int], n: int = 2) -> List[Dict[str, Fraction]]:
    """n strictly increasing embeddings rank -> positive rational with different spacing."""
    outs = []
    fns = [
        lambda r: Fraction(r + 1),
        lambda r: Fraction(7, 3) * (2 ** r),
        lambda r: Fraction(100) + Fraction(r * r + r, 7),
    ]
    for f in fns[:n]:
        outs.append({s: f(r) for s, r in rank.items()})
    return outs


def describe(rank: Dict[str, int]) -> str:
    blocks: Dict[int, List[str]] = {}
    for s, r in rank.items():
        blocks.setdefault(r, []).append(s)
    return " < ".join("=".join(sorted(blocks[r])) for r in sorted(blocks))
