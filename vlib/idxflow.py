"""Engine E8: interprocedural index-bound / provenance flow over the simulators' input candles.

A small abstract interpretation of the statements of a function (and, through resolved module-local callees, of the
functions it calls) over this domain:

    Poly            an integer that is an affine expression of the analysis' atoms (loop variables, parameters, opaque scalars)
    DICT            the simulators' input: {key: {'exchange', 'symbol', 'candles'}}
    ENTRY           one value of that dict
    ARRAY           an input 1m array (entry['candles']): the only way to future candles
    DATA            something read from an input array (rows, slices, anything computed from them)
    Tup(items)      a tuple / list display (for unpacking)
    None            anything else

Facts are polynomials known to be >= 0 (loop ranges, guards, strides, table values); obligations are discharged by
Fourier-Motzkin elimination over the rationals with the integer strengthening p >= 0 <=> not (p <= -1).  The engine only
*collects*: every read of an ARRAY (site, [lo, hi), facts, bound of the enclosing time-loop step), every escape of the whole
input, every write to the candle store with the kind of what is written, and every call of a function of interest with its
argument values.  The properties' rules decide on the collected records.  Nothing is keyed on variable or helper names:
the time loop is the range loop that uses the input, variables are followed through assignments, aliases and calls.
"""
from __future__ import annotations

import ast
import itertools
from fractions import Fraction
from typing import Dict, List, Optional, Tuple

from .loader import Repo, AnalysisError, norm
from .poly import Poly

DICT, ENTRY, ARRAY, DATA, STORED = "DICT", "ENTRY", "ARRAY", "DATA", "STORED"
WHOLE = (DICT, ENTRY, ARRAY)
MAX_DEPTH = 5
STORE_WRITERS = ("add_candle", "add_multiple_1m_candles", "batch_add_candle")


class Tup:
    def __init__(self, items):
        self.items = list(items)


class Iter:
    """an iterable whose elements have the value `elem` (facts come with the loop)"""
    def __init__(self, elem, facts=()):
        self.elem, self.facts = elem, list(facts)


# ---------------------------------------------------------------------------------------------------- prover
def _lin(p: Poly) -> Dict[object, Fraction]:
    """polynomial as a linear form over its monomials (the empty monomial is the constant)"""
    return dict(p.t)


def infeasible(cons: List[Poly], cap: int = 4000) -> bool:
    """True if the system {c >= 0 for c in cons} has no rational solution (monomials are treated as free variables)."""
    rows = [_lin(c) for c in cons]
    while True:
        # contradiction among constant rows?
        keep = []
        for r in rows:
            nz = {m: c for m, c in r.items() if c != 0}
            if all(m == () for m in nz):
                if nz.get((), 0) < 0:
                    return True
                continue
            keep.append(nz)
        rows = keep
        if not rows:
            return False
        var = next(m for r in rows for m in r if m != ())
        pos = [r for r in rows if r.get(var, 0) > 0]
        neg = [r for r in rows if r.get(var, 0) < 0]
        rest = [r for r in rows if r.get(var, 0) == 0]
        new = []
        for a, b in itertools.product(pos, neg):
            ca, cb = a[var], -b[var]
            comb = {}
            for m in set(a) | set(b):
                v = a.get(m, 0) * cb + b.get(m, 0) * ca
                if v != 0 and m != var:
                    comb[m] = v
            new.append(comb)
        rows = rest + new
        if len(rows) > cap:
            return False         # give up: not proven


def implied(p: Poly, facts: List[Poly]) -> bool:
    """facts |= p >= 0 (for integer-valued p)"""
    return infeasible(list(facts) + [Poly.const(-1) - p])


# ---------------------------------------------------------------------------------------------------- records
class Read:
    def __init__(self, node, fn, chain, lo, hi, facts, bound, opaque):
        self.node, self.fn, self.chain, self.lo, self.hi, self.facts, self.bound, self.opaque = node, fn, chain, lo, hi, facts, bound, opaque

    @property
    def site(self):
        return f"{self.fn}|{norm(self.node)}"


class Call:
    def __init__(self, node, fn, chain, name, args, facts, mods, in_loop, bound):
        self.node, self.fn, self.chain, self.name, self.args, self.facts, self.mods, self.in_loop, self.bound = node, fn, chain, name, args, facts, mods, in_loop, bound


class Slice:
    """value of ARRAY[lo:hi] / DATA kept with its bounds (for window rules)"""
    kind = DATA

    def __init__(self, lo, hi, base):
        self.lo, self.hi, self.base = lo, hi, base


def is_data(v) -> bool:
    return v == DATA or v == STORED or isinstance(v, Slice) or (isinstance(v, Tup) and any(is_data(x) for x in v.items))


def is_whole(v) -> bool:
    return v in WHOLE or (isinstance(v, Tup) and any(is_whole(x) for x in v.items)) or (isinstance(v, Iter) and is_whole(v.elem))


class State:
    def __init__(self, env, facts, mods, in_loop, bound, depth, chain, act):
        self.env, self.facts, self.mods, self.in_loop, self.bound, self.depth, self.chain, self.act = env, facts, mods, in_loop, bound, depth, chain, act
        self.returns = []
        self.dead = False

    def fork(self):
        s = State(dict(self.env), list(self.facts), list(self.mods), self.in_loop, self.bound, self.depth, self.chain, self.act)
        s.returns = self.returns
        return s


class Flow:
    def __init__(self, repo: Repo, rel: str, interest=()):
        self.repo, self.rel, self.mod = repo, rel, repo.module(rel)
        self.interest = set(interest)
        self.reads: List[Read] = []
        self.escapes: List[Tuple] = []        # (fn, node, what, callee)
        self.stores: List[Tuple] = []         # (fn, node, value, in_loop)
        self.calls: List[Call] = []
        self.opaque_atoms = set()
        self._n = itertools.count(1)
        self._acts = itertools.count(1)
        self.functions = set()
        self.time_loops = {}

    # ------------------------------------------------------------ helpers
    def fresh(self, hint: str, opaque=True) -> Poly:
        a = f"{hint}#{next(self._n)}"
        if opaque:
            self.opaque_atoms.add(a)
        return Poly.atom(a)

    def local_func(self, name: str):
        try:
            return self.repo.func(self.rel, name)
        except Exception:
            return None

    def table_positive(self, name: str) -> Optional[bool]:
        """module-level dict literal whose values are all positive integer constants"""
        for st in self.mod.tree.body:
            if isinstance(st, ast.Assign) and len(st.targets) == 1 and isinstance(st.targets[0], ast.Name) and st.targets[0].id == name and isinstance(st.value, ast.Dict):
                vals = [self.const_int(v) for v in st.value.values]
                return all(v is not None and v >= 1 for v in vals) and len(vals) > 0
        return None

    @staticmethod
    def const_int(node) -> Optional[int]:
        try:
            v = eval(compile(ast.Expression(node), "<const>", "eval"), {"__builtins__": {}}, {})
        except Exception:
            return None
        return v if isinstance(v, int) and not isinstance(v, bool) else None

    # ------------------------------------------------------------ entry
    def run_simulator(self, fname: str, dict_param: int = 0):
        """analyse simulator `fname`: statements before / after the time loop only build the environment; reads, escapes and
        store writes are recorded inside the time loop = the top-level range loop that uses the input"""
        fn = self.repo.func(self.rel, fname)
        params = [a.arg for a in fn.args.args]
        env = {p: self.fresh(p, opaque=False) for p in params}
        env[params[dict_param]] = DICT
        st = State(env, [], [], False, None, 0, (fname,), 0)
        self.functions.add(fname)
        self._sim = fname
        self.block(fn.body, st, fname, toplevel=True)
        if fname not in self.time_loops:
            raise AnalysisError(f"{self.rel}:{fname}: time loop (a top-level range loop that uses the input candles) not found")

    def run_function(self, fname: str, kinds: Dict[str, object], in_loop=True, bound=None, facts=()):
        fn = self.repo.func(self.rel, fname)
        env = {a.arg: kinds.get(a.arg, self.fresh(a.arg, opaque=False)) for a in fn.args.args}
        st = State(env, list(facts), [], in_loop, bound, 0, (fname,), 0)
        self.functions.add(fname)
        self.block(fn.body, st, fname)
        return st

    # ------------------------------------------------------------ statements
    def uses_input(self, node, st: State) -> bool:
        for n in ast.walk(node):
            if isinstance(n, ast.Name) and is_whole(st.env.get(n.id)):
                return True
        return False

    def block(self, stmts, st: State, fn: str, toplevel=False):
        for i, s in enumerate(stmts):
            if st.dead:
                return
            self.stmt(s, st, fn, toplevel)

    def assign(self, target, value, st: State, fn: str):
        if isinstance(target, ast.Name):
            if value is None:
                value = self.fresh(target.id)
            st.env[target.id] = value
        elif isinstance(target, (ast.Tuple, ast.List)):
            items = value.items if isinstance(value, Tup) and len(value.items) == len(target.elts) else None
            for k, t in enumerate(target.elts):
                v = items[k] if items is not None else (DATA if is_data(value) else None)
                self.assign(t, v, st, fn)
        elif isinstance(target, (ast.Attribute, ast.Subscript)):
            base = target
            while isinstance(base, (ast.Attribute, ast.Subscript)):
                base = base.value
            basev = self.ev(base, st, fn) if isinstance(base, ast.Name) else None
            if isinstance(target, ast.Subscript):
                self.ev(target.slice, st, fn) if not isinstance(target.slice, ast.Slice) else None
            if is_whole(value) and st.in_loop:
                self.escapes.append((fn, target, "stored into " + norm(target), None))
            # writing into rows taken from the input keeps them DATA; nothing to record

    def stmt(self, s, st: State, fn: str, toplevel=False):
        if isinstance(s, ast.Assign):
            v = self.ev(s.value, st, fn)
            for t in s.targets:
                self.assign(t, v, st, fn)
        elif isinstance(s, ast.AnnAssign):
            if s.value is not None:
                self.assign(s.target, self.ev(s.value, st, fn), st, fn)
        elif isinstance(s, ast.AugAssign):
            v = self.ev(s.value, st, fn)
            if isinstance(s.target, ast.Name):
                old = st.env.get(s.target.id)
                if isinstance(old, Poly) and isinstance(v, Poly) and isinstance(s.op, (ast.Add, ast.Sub)) and not getattr(st, "in_inner_loop", 0):
                    st.env[s.target.id] = old + v if isinstance(s.op, ast.Add) else old - v
                elif is_data(old) or is_data(v):
                    st.env[s.target.id] = DATA
                else:
                    st.env[s.target.id] = self.fresh(s.target.id)
        elif isinstance(s, ast.Expr):
            self.ev(s.value, st, fn)
        elif isinstance(s, ast.Return):
            st.returns.append(self.ev(s.value, st, fn) if s.value is not None else None)
            st.dead = True
        elif isinstance(s, (ast.Break, ast.Continue, ast.Raise)):
            if isinstance(s, ast.Raise) and s.exc is not None:
                self.ev(s.exc, st, fn)
            st.dead = True
        elif isinstance(s, ast.If):
            self.if_(s, st, fn)
        elif isinstance(s, ast.For):
            self.for_(s, st, fn, toplevel)
        elif isinstance(s, ast.While):
            self.while_(s, st, fn)
        elif isinstance(s, ast.With):
            for it in s.items:
                self.ev(it.context_expr, st, fn)
            self.block(s.body, st, fn)
        elif isinstance(s, ast.Try):
            self.block(s.body, st, fn)
            dead = st.dead
            for h in s.handlers:
                st.dead = False
                self.block(h.body, st, fn)
            st.dead = False
            self.block(s.orelse, st, fn)
            st.dead = False
            self.block(s.finalbody, st, fn)
            st.dead = dead and False
        elif isinstance(s, (ast.FunctionDef, ast.ClassDef, ast.Import, ast.ImportFrom, ast.Pass, ast.Global, ast.Nonlocal, ast.Assert, ast.Delete)):
            if isinstance(s, ast.Assert):
                self.ev(s.test, st, fn)
        else:
            raise AnalysisError(f"{self.rel}:{fn}: statement kind {type(s).__name__} is outside the analysed fragment (line {s.lineno})")

    # guards ---------------------------------------------------------
    def guard_facts(self, test, st: State, fn: str, truth: bool):
        """(facts, mods) implied by `test` being `truth`; unknown parts contribute nothing"""
        facts, mods = [], []
        if isinstance(test, ast.UnaryOp) and isinstance(test.op, ast.Not):
            return self.guard_facts(test.operand, st, fn, not truth)
        if isinstance(test, ast.BoolOp):
            conj = (isinstance(test.op, ast.And) and truth) or (isinstance(test.op, ast.Or) and not truth)
            if conj:
                for v in test.values:
                    f, m = self.guard_facts(v, st, fn, truth)
                    facts += f
                    mods += m
            return facts, mods
        if isinstance(test, ast.Name):
            v = st.env.get(test.id)
            if isinstance(v, Poly):
                return self.cmp_facts(v, ast.NotEq() if truth else ast.Eq(), Poly(), st), []
            return [], []
        if isinstance(test, ast.Compare) and len(test.ops) == 1:
            left, right, op = test.left, test.comparators[0], test.ops[0]
            if not truth:
                neg = {ast.Lt: ast.GtE, ast.LtE: ast.Gt, ast.Gt: ast.LtE, ast.GtE: ast.Lt, ast.Eq: ast.NotEq, ast.NotEq: ast.Eq}.get(type(op))
                if neg is None:
                    return [], []
                op = neg()
            # E % c == 0
            if isinstance(left, ast.BinOp) and isinstance(left.op, ast.Mod) and isinstance(op, ast.Eq) and isinstance(right, ast.Constant) and right.value == 0:
                E, c = self.ev(left.left, st, fn), self.ev(left.right, st, fn)
                if isinstance(E, Poly) and isinstance(c, Poly):
                    mods.append((E, c))
                    # E is a positive multiple of c >= 1  =>  E >= c
                    if implied(E - Poly.const(1), st.facts) and implied(c - Poly.const(1), st.facts):
                        facts.append(E - c)
                return facts, mods
            a, b = self.ev(left, st, fn), self.ev(right, st, fn)
            if isinstance(a, Poly) and isinstance(b, Poly):
                return self.cmp_facts(a, op, b, st), []
        return [], []

    def cmp_facts(self, a: Poly, op, b: Poly, st: State) -> List[Poly]:
        one = Poly.const(1)
        if isinstance(op, ast.Lt):
            return [b - a - one]
        if isinstance(op, ast.LtE):
            return [b - a]
        if isinstance(op, ast.Gt):
            return [a - b - one]
        if isinstance(op, ast.GtE):
            return [a - b]
        if isinstance(op, ast.Eq):
            return [a - b, b - a]
        if isinstance(op, ast.NotEq):
            d = a - b
            if implied(d, st.facts):
                return [d - one]
            if implied(-d, st.facts):
                return [-d - one]
        return []

    def if_(self, s: ast.If, st: State, fn: str):
        if isinstance(s.test, ast.Constant):
            self.block(s.body if s.test.value else s.orelse, st, fn)               # the other branch is dead code
            return
        self.ev(s.test, st, fn)
        outs = []
        for body, truth in ((s.body, True), (s.orelse, False)):
            b = st.fork()
            f, m = self.guard_facts(s.test, st, fn, truth)
            b.facts += f
            b.mods += m
            if f and infeasible(b.facts):
                continue                       # this branch cannot be taken in this context
            self.block(body, b, fn)
            outs.append(b)
        live = [b for b in outs if not b.dead]
        if not live:
            st.dead = True
            return
        self.merge(st, live)

    def merge(self, st: State, branches: List[State]):
        if len(branches) == 1:
            b = branches[0]
            st.env, st.facts, st.mods = b.env, b.facts, b.mods       # the other branch left: its guard's negation stays known
            return
        keys = set().union(*[set(b.env) for b in branches])
        env = {}
        extra = []
        for k in keys:
            vals = [b.env.get(k) for b in branches]
            first = vals[0]
            if all(self.same(first, v) for v in vals[1:]):
                env[k] = first
            elif any(is_whole(v) for v in vals):
                env[k] = next(v for v in vals if is_whole(v))
            elif any(is_data(v) for v in vals):
                env[k] = DATA
            elif all(isinstance(v, Poly) for v in vals):
                # an integer with a different affine value per branch: a new atom, bounded by every branch value that bounds
                # it in all branches (x = a; if a > b: x = b   gives   x <= a, x <= b)
                v = self.fresh(k, opaque=False)
                env[k] = v
                for X in vals + [Poly.const(1), Poly.const(0)]:
                    if all(implied(X - val, b.facts) for val, b in zip(vals, branches)):
                        extra.append(X - v)
                    if all(implied(val - X, b.facts) for val, b in zip(vals, branches)):
                        extra.append(v - X)
            else:
                env[k] = self.fresh(k)
        st.env = env
        # facts common to all branches (syntactically)
        st.facts = [f for f in branches[0].facts if all(any(f == g for g in b.facts) for b in branches[1:])] + extra
        st.mods = [m for m in branches[0].mods if all(any(m[0] == g[0] and m[1] == g[1] for g in b.mods) for b in branches[1:])]

    @staticmethod
    def same(a, b) -> bool:
        if isinstance(a, Poly) and isinstance(b, Poly):
            return a == b
        if isinstance(a, Poly) or isinstance(b, Poly):
            return False
        return a is b or (isinstance(a, str) and a == b)

    # loops ----------------------------------------------------------
    def assigned_names(self, stmts) -> set:
        out = set()
        for s in stmts:
            for n in ast.walk(s):
                if isinstance(n, (ast.Assign, ast.AugAssign, ast.AnnAssign)):
                    for t in (n.targets if isinstance(n, ast.Assign) else [n.target]):
                        for x in ast.walk(t):
                            if isinstance(x, ast.Name) and isinstance(x.ctx, ast.Store):
                                out.add(x.id)
        return out

    def havoc_loop_carried(self, body, st: State):
        """variables updated in terms of themselves inside a loop body lose their value (x += 1, x = x + 1)"""
        for s in body:
            for n in ast.walk(s):
                if isinstance(n, ast.AugAssign) and isinstance(n.target, ast.Name):
                    old = st.env.get(n.target.id)
                    st.env[n.target.id] = DATA if is_data(old) else self.fresh(n.target.id)
                if isinstance(n, ast.Assign) and len(n.targets) == 1 and isinstance(n.targets[0], ast.Name):
                    nm = n.targets[0].id
                    if any(isinstance(x, ast.Name) and x.id == nm for x in ast.walk(n.value)) and nm in st.env:
                        old = st.env.get(nm)
                        st.env[nm] = old if (is_data(old) or is_whole(old)) else self.fresh(nm)

    def range_facts(self, call: ast.Call, var: Poly, st: State, fn: str):
        """facts about `var` inside `for var in range(...)`, and the stride"""
        args = [self.ev(a, st, fn) for a in call.args]
        if any(not isinstance(a, Poly) for a in args) or not 1 <= len(args) <= 3:
            return [], None
        one = Poly.const(1)
        if len(args) == 1:
            return [var, args[0] - var - one], one
        if len(args) == 2:
            return [var - args[0], args[1] - var - one], one
        a, b, s = args
        facts = []
        if s.is_const() and s.const_value() < 0:
            return [a - var, var - b - one], s
        # an upward loop over a non-empty range: the body only runs if start < stop, which needs a positive stride when the start
        # is not beyond the stop; strides that are not provably positive get the fact from the loop's own execution (range()
        # with a non-positive stride and start <= stop is empty)
        facts = [var - a, b - var - one, s - one]
        return facts, s

    def for_(self, s: ast.For, st: State, fn: str, toplevel=False):
        it = s.iter
        is_range = isinstance(it, ast.Call) and isinstance(it.func, ast.Name) and it.func.id == "range"
        body_st = st.fork()
        self.havoc_loop_carried(s.body, body_st)
        entering_time_loop = False
        if is_range:
            var = self.fresh(s.target.id if isinstance(s.target, ast.Name) else "it", opaque=False)
            facts, stride = self.range_facts(it, var, st, fn)
            if not facts:
                self.opaque_atoms.update(var.atoms())
            if toplevel and not st.in_loop and self.uses_input(s, st) and fn == self._sim_name():
                if fn in self.time_loops:
                    raise AnalysisError(f"{self.rel}:{fn}: two top-level range loops use the input candles")
                if stride is None:
                    raise AnalysisError(f"{self.rel}:{fn}: the time loop's range is not affine: {norm(it)}")
                self.time_loops[fn] = s
                entering_time_loop = True
                body_st.in_loop = True
                body_st.bound = var + stride
            body_st.facts += facts
            self.assign(s.target, var, body_st, fn)
        else:
            v = self.ev(it, st, fn)
            elem = None
            if v == DICT:
                elem = None                # keys
            elif isinstance(v, Iter):
                elem = v.elem
                body_st.facts += v.facts
            elif is_data(v):
                elem = DATA
            elif isinstance(v, Tup):
                # a display: analyse the body for every element
                for item in v.items:
                    b = body_st.fork()
                    self.assign(s.target, item, b, fn)
                    self.block(s.body, b, fn)
                self.block(s.orelse, st, fn)
                return
            self.assign(s.target, elem, body_st, fn)
        self.block(s.body, body_st, fn)
        # after the loop: variables assigned in the body are unknown (zero or more iterations)
        for nm in self.assigned_names(s.body) | ({s.target.id} if isinstance(s.target, ast.Name) else set()):
            inner = body_st.env.get(nm)
            outer = st.env.get(nm)
            if nm in st.env and self.same(inner, outer):
                continue
            if is_whole(inner) or is_whole(outer):
                st.env[nm] = inner if is_whole(inner) else outer
            elif is_data(inner) or is_data(outer):
                st.env[nm] = DATA
            else:
                st.env[nm] = self.fresh(nm)
        self.block(s.orelse, st, fn)

    def _sim_name(self):
        return getattr(self, "_sim", None)

    def while_(self, s: ast.While, st: State, fn: str):
        body_st = st.fork()
        self.havoc_loop_carried(s.body, body_st)
        for nm in self.assigned_names(s.body):
            old = body_st.env.get(nm)
            if isinstance(old, Poly):
                body_st.env[nm] = self.fresh(nm)
        self.ev(s.test, body_st, fn)
        f, m = self.guard_facts(s.test, body_st, fn, True)
        body_st.facts += f
        self.block(s.body, body_st, fn)
        for nm in self.assigned_names(s.body):
            inner, outer = body_st.env.get(nm), st.env.get(nm)
            if nm in st.env and self.same(inner, outer):
                continue
            if is_whole(inner) or is_whole(outer):
                st.env[nm] = inner if is_whole(inner) else outer
            elif is_data(inner) or is_data(outer):
                st.env[nm] = DATA
            else:
                st.env[nm] = self.fresh(nm)
        self.block(s.orelse, st, fn)

    # ------------------------------------------------------------ expressions
    def ev(self, e, st: State, fn: str):
        if e is None:
            return None
        if isinstance(e, ast.Constant):
            if isinstance(e.value, int) and not isinstance(e.value, bool):
                return Poly.const(e.value)
            return None
        if isinstance(e, ast.Name):
            return st.env.get(e.id)
        if isinstance(e, ast.UnaryOp):
            v = self.ev(e.operand, st, fn)
            if isinstance(e.op, ast.USub) and isinstance(v, Poly):
                return -v
            return DATA if is_data(v) else None
        if isinstance(e, ast.BinOp):
            a, b = self.ev(e.left, st, fn), self.ev(e.right, st, fn)
            if isinstance(a, Poly) and isinstance(b, Poly):
                if isinstance(e.op, ast.Add):
                    return a + b
                if isinstance(e.op, ast.Sub):
                    return a - b
                if isinstance(e.op, ast.Mult) and (a.is_const() or b.is_const()):
                    return a * b
                return None
            return DATA if (is_data(a) or is_data(b)) else None
        if isinstance(e, ast.BoolOp):
            vals = [self.ev(v, st, fn) for v in e.values]
            return DATA if any(is_data(v) for v in vals) else None
        if isinstance(e, ast.Compare):
            vals = [self.ev(e.left, st, fn)] + [self.ev(c, st, fn) for c in e.comparators]
            return None
        if isinstance(e, ast.IfExp):
            if isinstance(e.test, ast.Constant):
                return self.ev(e.body if e.test.value else e.orelse, st, fn)      # the other arm is dead code
            self.ev(e.test, st, fn)
            a, b = self.ev(e.body, st, fn), self.ev(e.orelse, st, fn)
            if self.same(a, b):
                return a
            if is_whole(a) or is_whole(b):
                return a if is_whole(a) else b
            return DATA if (is_data(a) or is_data(b)) else None
        if isinstance(e, (ast.Tuple, ast.List)):
            return Tup([self.ev(x, st, fn) for x in e.elts])
        if isinstance(e, ast.Starred):
            return self.ev(e.value, st, fn)
        if isinstance(e, ast.Dict):
            vals = [self.ev(v, st, fn) for v in e.values]
            for v in vals:
                if is_whole(v) and st.in_loop:
                    self.escapes.append((fn, e, "put into a dict display", None))
            return DATA if any(is_data(v) for v in vals) else None
        if isinstance(e, ast.JoinedStr):
            for v in e.values:
                if isinstance(v, ast.FormattedValue):
                    self.ev(v.value, st, fn)
            return None
        if isinstance(e, ast.Attribute):
            v = self.ev(e.value, st, fn)
            return DATA if is_data(v) else None
        if isinstance(e, ast.Subscript):
            return self.subscript(e, st, fn)
        if isinstance(e, ast.Call):
            return self.call(e, st, fn)
        if isinstance(e, (ast.ListComp, ast.GeneratorExp, ast.SetComp)):
            return self.comprehension(e, st, fn)
        if isinstance(e, ast.Lambda):
            return None
        if isinstance(e, ast.Slice):
            for x in (e.lower, e.upper, e.step):
                self.ev(x, st, fn)
            return None
        if isinstance(e, ast.DictComp):
            return None
        return None

    def comprehension(self, e, st: State, fn: str):
        b = st.fork()
        for g in e.generators:
            it = g.iter
            if isinstance(it, ast.Call) and isinstance(it.func, ast.Name) and it.func.id == "range":
                var = self.fresh(g.target.id if isinstance(g.target, ast.Name) else "it", opaque=False)
                facts, _ = self.range_facts(it, var, b, fn)
                b.facts += facts
                self.assign(g.target, var, b, fn)
            else:
                v = self.ev(it, b, fn)
                elem = v.elem if isinstance(v, Iter) else (DATA if is_data(v) else None)
                if isinstance(v, Iter):
                    b.facts += v.facts
                self.assign(g.target, elem, b, fn)
            for c in g.ifs:
                self.ev(c, b, fn)
                f, _ = self.guard_facts(c, b, fn, True)
                b.facts += f
        elem = self.ev(e.elt, b, fn)
        new_facts = b.facts[len(st.facts):]
        return Iter(elem, new_facts)

    def subscript(self, e: ast.Subscript, st: State, fn: str):
        base = self.ev(e.value, st, fn)
        sl = e.slice
        if base == DICT:
            self.ev(sl, st, fn)
            return ENTRY
        if base == ENTRY:
            if isinstance(sl, ast.Constant) and sl.value == "candles":
                return ARRAY
            return None
        if base == ARRAY:
            return self.read(e, st, fn)
        if isinstance(base, Iter):
            # an element (or a sub-sequence) of a sequence whose elements all have one abstract value
            self.ev(sl, st, fn) if not isinstance(sl, (ast.Slice, ast.Tuple)) else None
            return base if isinstance(sl, ast.Slice) else base.elem
        if isinstance(base, Tup):
            if isinstance(sl, ast.Constant) and isinstance(sl.value, int) and -len(base.items) <= sl.value < len(base.items):
                return base.items[sl.value]
            whole = [x for x in base.items if is_whole(x)]
            if whole:
                return whole[0]
            return DATA if is_data(base) else None
        if is_data(base):
            self.ev(sl, st, fn) if not isinstance(sl, (ast.Slice, ast.Tuple)) else None
            return DATA
        # positive table lookup
        if isinstance(e.value, ast.Name) and e.value.id not in st.env and self.table_positive(e.value.id):
            self.ev(sl, st, fn)
            v = self.fresh(e.value.id, opaque=False)
            st.facts.append(v - Poly.const(1))
            return v
        self.ev(sl, st, fn) if not isinstance(sl, (ast.Slice, ast.Tuple)) else None
        return None

    def read(self, e: ast.Subscript, st: State, fn: str):
        sl = e.slice
        if isinstance(sl, ast.Tuple):
            sl0 = sl.elts[0]
        else:
            sl0 = sl
        if isinstance(sl0, ast.Slice):
            lo = self.ev(sl0.lower, st, fn) if sl0.lower is not None else Poly()
            hi = self.ev(sl0.upper, st, fn) if sl0.upper is not None else None
            stepv = self.ev(sl0.step, st, fn) if sl0.step is not None else None
            if sl0.step is not None and not (isinstance(stepv, Poly) and stepv.is_const() and stepv.const_value() > 0):
                lo = hi = None
        else:
            lo = self.ev(sl0, st, fn)
            hi = lo + Poly.const(1) if isinstance(lo, Poly) else None
        lo = lo if isinstance(lo, Poly) else None
        hi = hi if isinstance(hi, Poly) else None
        if st.in_loop:
            # atoms of the index about which nothing is known: not in the step bound, not in any fact
            known = set(st.bound.atoms()) if st.bound is not None else set()
            for f_ in st.facts:
                known |= set(f_.atoms())
            opq = set()
            for p in (lo, hi):
                if p is not None:
                    opq |= {a for a in p.atoms() if a in self.opaque_atoms and a not in known}
            self.reads.append(Read(e, fn, st.chain, lo, hi, list(st.facts), st.bound, opq))
        if isinstance(sl0, ast.Slice) and lo is not None and hi is not None:
            return Slice(lo, hi, e)
        return DATA

    def call(self, e: ast.Call, st: State, fn: str):
        f = e.func
        recv = None
        if isinstance(f, ast.Attribute):
            recv = self.ev(f.value, st, fn)
            name = f.attr
        elif isinstance(f, ast.Name):
            name = f.id
        else:
            self.ev(f, st, fn)
            name = ""
        args = [self.ev(a, st, fn) for a in e.args]
        kws = {k.arg: self.ev(k.value, st, fn) for k in e.keywords}
        allv = args + list(kws.values())
        # dict views
        if recv == DICT and name in ("items", "values", "keys"):
            return Iter(Tup([None, ENTRY]) if name == "items" else (ENTRY if name == "values" else None))
        if recv == ENTRY and name == "get" and e.args and isinstance(e.args[0], ast.Constant):
            return ARRAY if e.args[0].value == "candles" else None
        if recv == DICT and name == "get":
            return ENTRY
        if recv in (DICT, ENTRY) and name == "copy":
            return recv
        if name in self.interest:
            self.calls.append(Call(e, fn, st.chain, name, args, list(st.facts), list(st.mods), st.in_loop, st.bound))
        if name in STORE_WRITERS and isinstance(f, ast.Attribute):
            self.stores.append((fn, e, args[0] if args else None, st.in_loop))
        if isinstance(f, ast.Name):
            if name == "_calculate_minimum_candle_step" and not args and not kws:
                # the chunk length: a function of the routes alone (C07-R8 / C12-R3 decide that it is the gcd of the route
                # timeframes and of a day) - one symbol for every call, known to be >= 1 and NOT known to be 1
                if getattr(self, "_chunk_atom", None) is None:
                    self._chunk_atom = self.fresh("chunk_step", opaque=False)
                if not any(f_ is not None and f_ == self._chunk_atom - Poly.const(1) for f_ in st.facts):
                    st.facts.append(self._chunk_atom - Poly.const(1))
                return self._chunk_atom
            if name == "len":
                return self.fresh("len", opaque=False) if False else None
            if name == "int" and len(args) == 1:
                return args[0]
            if name in ("min", "max") and len(args) >= 2 and all(isinstance(a, Poly) for a in args) and not kws:
                v = self.fresh(name, opaque=False)
                one = Poly.const(1)
                if name == "min":
                    st.facts += [a - v for a in args]
                    for c in (1, 0):
                        if all(implied(a - Poly.const(c), st.facts) for a in args):
                            st.facts.append(v - Poly.const(c))
                            break
                else:
                    st.facts += [v - a for a in args]
                return v
            if name in ("enumerate",) and args:
                a0 = args[0]
                elem = a0.elem if isinstance(a0, Iter) else (DATA if is_data(a0) else (None if a0 != DICT else None))
                return Iter(Tup([None, elem]))
            if name in ("list", "tuple", "sorted", "reversed", "iter") and len(args) == 1:
                return args[0]
            callee = self.local_func(name) if name not in st.env else None
            if callee is not None:
                return self.descend(callee, name, e, args, kws, st, fn)
        # a call that is not followed: the whole input must not be handed to it
        if st.in_loop:
            for a, node in zip(allv, list(e.args) + [k.value for k in e.keywords]):
                if is_whole(a) and not (isinstance(f, ast.Name) and name == "len"):
                    self.escapes.append((fn, e, f"passed to {norm(f)}()", name))
            if is_whole(recv) and name not in ("items", "values", "keys", "get", "copy"):
                pass
        if isinstance(f, ast.Attribute) and norm(f.value) == "store.candles":
            return STORED            # what the candle store hands back was stored earlier
        if is_data(recv) or any(is_data(a) for a in allv):
            return DATA
        return None

    def descend(self, callee, name, e, args, kws, st: State, fn: str):
        relevant = any(is_whole(a) or is_data(a) for a in args + list(kws.values()))
        if st.depth >= MAX_DEPTH or st.chain.count(name) >= 3:
            if any(is_whole(a) for a in args + list(kws.values())):
                raise AnalysisError(f"{self.rel}:{fn}: call chain {' > '.join(st.chain + (name,))} with the input candles is deeper than the analysed bound")
            return DATA if relevant else None
        params = [a.arg for a in callee.args.args]
        act = next(self._acts)
        env = {}
        defaults = callee.args.defaults
        for k, p in enumerate(params):
            if k < len(args):
                env[p] = args[k]
            elif p in kws:
                env[p] = kws[p]
            else:
                d = None
                di = k - (len(params) - len(defaults))
                if 0 <= di < len(defaults) and isinstance(defaults[di], ast.Constant) and isinstance(defaults[di].value, int) and not isinstance(defaults[di].value, bool):
                    d = Poly.const(defaults[di].value)
                env[p] = d
            if env[p] is None:
                env[p] = self.fresh(p)
        sub = State(env, list(st.facts), list(st.mods), st.in_loop, st.bound, st.depth + 1, st.chain + (name,), act)
        self.functions.add(name)
        self.block(callee.body, sub, name)
        rets = sub.returns
        if any(is_whole(r) for r in rets):
            return next(r for r in rets if is_whole(r))
        if any(is_data(r) for r in rets):
            return DATA
        if rets and all(isinstance(r, Poly) for r in rets) and all(r == rets[0] for r in rets[1:]):
            return rets[0]
        return DATA if relevant and any(r is not None for r in rets) and False else None
