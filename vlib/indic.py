"""Engine E7: dependence interpreter for indicator code (numpy / numba kernels).

Interprets /repo's indicator functions from the AST on an abstract candle array
of concrete length n: candle values are abstract (D: dependence mask +
structural hash), everything that does not depend on candle values (periods,
weights, loop counters, NaN fills, timestamps) is concrete, so indexing - also
negative / wrap-around indexing - is exact.  A branch on an abstract condition
executes both sides and joins the states (implicit flows taint what either side
assigns).  Nothing is imported from /repo and nothing is executed by CPython.
"""
from __future__ import annotations

import ast
import math
from typing import Any, Dict, List, Optional, Tuple

from .loader import Repo, Module, AnalysisError, import_bindings, norm
from .indic_vals import (D, NA, NAN, Undecided, binop, unop, phi, mk, hid, broadcast, map1, fold, is_abs,
                         Builtin, BoundMethod, NTClass, NT, PyRaise)
from . import indic_np as NP

FALL, RET, BRK, CONT = 0, 1, 2, 3


class Fn:
    def __init__(self, node, mod: Module, closure=None):
        self.node, self.mod, self.closure = node, mod, closure

    @property
    def name(self):
        return getattr(self.node, "name", "<lambda>")


class Mod:
    def __init__(self, mod: Module):
        self.mod = mod


class Ext:
    def __init__(self, dotted: str):
        self.dotted = dotted

    def __repr__(self):
        return f"Ext({self.dotted})"





class Frame:
    __slots__ = ("mod", "locals", "imports", "closure")

    def __init__(self, mod, locals_, closure=None):
        self.mod, self.locals, self.imports, self.closure = mod, locals_, {}, closure


class _Ret(Exception):
    def __init__(self, v):
        self.v = v



BINOPS = {ast.Add: "add", ast.Sub: "sub", ast.Mult: "mul", ast.Div: "div", ast.FloorDiv: "floordiv", ast.Mod: "mod", ast.Pow: "pow",
          ast.BitAnd: "bitand", ast.BitOr: "bitor", ast.BitXor: "bitxor", ast.MatMult: "matmul"}
CMPOPS = {ast.Lt: "lt", ast.LtE: "le", ast.Gt: "gt", ast.GtE: "ge", ast.Eq: "eq", ast.NotEq: "ne"}


class Indic:
    def __init__(self, repo: Repo, warmup: int = 240, max_steps: int = 4_000_000):
        self.repo = repo
        self.warmup = warmup
        self.steps = 0
        self.max_steps = max_steps
        self.depth = 0
        self._gcache: Dict[Tuple[str, str], Any] = {}
        self.notes: List[str] = []
        self.loop_pending: List[list] = []
        self.fn_pending: List[list] = []

    # ------------------------------------------------------------------ names
    def lookup(self, fr: Frame, name: str):
        if name in fr.locals:
            return fr.locals[name]
        if fr.closure is not None and name in fr.closure:
            return fr.closure[name]
        if name in fr.imports:
            return self.resolve(*fr.imports[name])
        key = (fr.mod.rel, name)
        if key in self._gcache:
            return self._gcache[key]
        r = self.repo.lookup(fr.mod, name)
        if r is None:
            if name in fr.mod.imports:
                d, a = fr.mod.imports[name]
                v = Ext(d if a is None else f"{d}.{a}")
            elif name in NP.BUILTINS:
                v = NP.BUILTINS[name]
            else:
                raise Undecided(f"unknown name {name}")
        else:
            v = self.wrap(r)
        self._gcache[key] = v
        return v

    def resolve(self, dotted, attr):
        if attr is None:
            m = self.repo.resolve_module(dotted)
            return Mod(m) if m else Ext(dotted)
        t = self.repo.resolve_module(dotted)
        if t is not None:
            if attr in t.defs:
                return self.wrap(("def", t, t.defs[attr], attr))
            r = self.repo.resolve_import(t, attr)
            if r is not None:
                return self.wrap(r)
            sub = self.repo.resolve_module(f"{dotted}.{attr}")
            if sub is not None:
                return Mod(sub)
        return Ext(f"{dotted}.{attr}")

    def wrap(self, r):
        if r[0] == "module":
            return Mod(r[1])
        _, mod, node, name = r
        if isinstance(node, ast.FunctionDef):
            return Fn(node, mod)
        if isinstance(node, ast.ClassDef):
            return Ext(f"class:{name}")
        return self.eval(node, Frame(mod, {}))

    # ------------------------------------------------------------------ calls
    def call(self, f, args, kwargs, node=None):
        if isinstance(f, Fn):
            special = NP.REPO_STUBS.get(f"{f.mod.rel}:{f.name}")
            if special is not None:
                return special(self, args, kwargs)
            return self.call_fn(f, args, kwargs)
        if isinstance(f, Builtin):
            return f.fn(self, args, kwargs)
        if isinstance(f, Ext):
            fn = NP.EXT.get(f.dotted)
            if fn is None:
                raise Undecided(f"unmodelled call {f.dotted}")
            return fn(self, args, kwargs)
        if isinstance(f, NTClass):
            vals = list(args) + [kwargs[k] for k in f.fields[len(args):]]
            return NT(f, vals)
        if isinstance(f, BoundMethod):
            return f.fn(self, args, kwargs)
        raise Undecided(f"call of {type(f).__name__}" + (f" at {norm(node)[:50]}" if node is not None else ""))

    def call_fn(self, f: Fn, args, kwargs):
        if self.depth > 30:
            raise Undecided("call depth")
        node = f.node
        a = node.args
        params = [p.arg for p in a.posonlyargs + a.args]
        locs: Dict[str, Any] = {}
        if len(args) > len(params) and not a.vararg:
            raise Undecided(f"too many arguments for {f.name}")
        for p, v in zip(params, args):
            locs[p] = v
        if a.vararg:
            locs[a.vararg.arg] = tuple(args[len(params):])
        dstart = len(params) - len(a.defaults)
        for i, p in enumerate(params):
            if p in locs:
                continue
            if p in kwargs:
                locs[p] = kwargs[p]
            elif i >= dstart:
                locs[p] = self.eval(a.defaults[i - dstart], Frame(f.mod, {}))
            else:
                raise Undecided(f"missing argument {p} for {f.name}")
        for p, d in zip(a.kwonlyargs, a.kw_defaults):
            if p.arg in kwargs:
                locs[p.arg] = kwargs[p.arg]
            elif d is not None:
                locs[p.arg] = self.eval(d, Frame(f.mod, {}))
        extra = {k: v for k, v in kwargs.items() if k not in locs}
        if a.kwarg:
            locs[a.kwarg.arg] = extra
        elif extra:
            raise Undecided(f"unexpected keyword {list(extra)} for {f.name}")
        fr = Frame(f.mod, locs, f.closure)
        self.depth += 1
        try:
            if isinstance(node, ast.Lambda):
                return self.eval(node.body, fr)
            self.fn_pending.append([])
            saved_loops = self.loop_pending
            self.loop_pending = []
            try:
                try:
                    ex = self.block(node.body, fr, ())
                except PyRaise as e_:
                    if not hasattr(e_, "where"):
                        # the innermost function the exception leaves: inside a numba kernel an out-of-bounds index is not
                        # checked at all in the compiled code (undefined behaviour), in plain Python it raises
                        e_.where = getattr(f, "name", "?")
                        e_.jit = any("jit" in ast.dump(d) for d in getattr(node, "decorator_list", []))
                    raise
                result = ex[1] if ex[0] == RET else None
                for cond, val, flip in reversed(self.fn_pending[-1]):
                    result = self.join_val(cond, val, result) if not flip else self.join_val(cond, result, val)
                return result
            finally:
                self.fn_pending.pop()
                self.loop_pending = saved_loops
        finally:
            self.depth -= 1

    # ------------------------------------------------------------------ statements
    # block() returns (kind, value): FALL = completed normally; CONT / BRK / RET = control left the block.
    # `cont` is the flat list of statements that follow this block up to the end of the enclosing loop body
    # (or function body).  When a branch on an abstract condition leaves the block on one side only, the other
    # side is run to that boundary too (rest + cont), so both sides can be joined at the boundary.
    def block(self, stmts, fr, cont=()):
        for idx, s in enumerate(stmts):
            rest = stmts[idx + 1:]
            if isinstance(s, ast.If):
                t = self.eval(s.test, fr)
                if isinstance(t, NA):
                    raise Undecided("truth value of an array")
                if isinstance(t, D):
                    ex = self.abstract_if(t, s, list(rest), list(cont), fr)
                    if ex[0] == FALL:
                        continue
                    return ex
                ex = self.block(s.body if self.truth(t) else s.orelse, fr, list(rest) + list(cont))
            else:
                ex = self.stmt(s, fr, list(rest) + list(cont))
            if ex[0] != FALL:
                return ex
        return (FALL, None)

    def abstract_if(self, cond: D, s: ast.If, rest, cont, fr):
        """Both sides of a branch on an abstract condition are executed on the same heap objects and the
        states are joined element-wise (phi on the condition), so implicit flows are tracked."""
        snap = self.snapshot(fr)
        after = rest + cont
        exA = self.block(s.body, fr, after)
        stA = self.snapshot(fr)
        self.restore(fr, snap)
        exB = self.block(s.orelse, fr, after)
        if exA[0] == FALL and exB[0] == FALL:
            self.join(fr, cond, stA)
            return (FALL, None)
        # at least one side left the block: run the falling side to the boundary as well
        if exB[0] == FALL:
            exB = self.block(after, fr, ())
            if exB[0] == FALL:
                exB = (CONT, None)
        if exA[0] == FALL:
            stB = self.snapshot(fr)
            self.restore(fr, stA)
            exA = self.block(after, fr, ())
            if exA[0] == FALL:
                exA = (CONT, None)
            stA = self.snapshot(fr)
            self.restore(fr, stB)
        # frame holds side B (cond false); stA is side A (cond true)
        kA, kB = exA[0], exB[0]
        if kA == kB:
            self.join(fr, cond, stA)
            if kA == RET:
                return (RET, self.join_val(cond, exA[1], exB[1]))
            return (kA, None)
        # different exits: defer the early exit (break / return) and continue on the other side
        if kA == RET or kB == RET:
            if not self.fn_pending:
                raise Undecided("data-dependent return outside a function")
            if kA == RET:
                self.fn_pending[-1].append((cond, exA[1], False))
                return exB                       # frame already holds B
            self.fn_pending[-1].append((cond, exB[1], True))
            self.restore(fr, stA)
            return exA
        if kA == BRK or kB == BRK:
            if not self.loop_pending:
                raise Undecided("data-dependent break outside a loop")
            if kA == BRK:
                self.loop_pending[-1].append((cond, stA, False))
                return exB
            stB = self.snapshot(fr)
            self.loop_pending[-1].append((cond, stB, True))
            self.restore(fr, stA)
            return exA
        raise Undecided("unsupported combination of data-dependent exits")

    def snapshot(self, fr: Frame):
        out = {}
        for k, v in fr.locals.items():
            if isinstance(v, NA):
                out[k] = (v, v.data if v.ndim == 1 else None, [list(r) for r in v.data] if v.ndim == 2 else list(v.data))
            elif isinstance(v, list):
                out[k] = (v, None, list(v))
            else:
                out[k] = (v, None, None)
        return out

    def restore(self, fr: Frame, snap):
        fr.locals.clear()
        for k, (v, _, data) in snap.items():
            if isinstance(v, NA):
                v.data = [list(r) for r in data] if v.ndim == 2 else list(data)
            elif isinstance(v, list):
                v[:] = data
            fr.locals[k] = v

    def join(self, fr: Frame, cond: D, stA, flip=False):
        """current frame state = state B; stA = snapshot of state A (taken when cond was true unless flip)."""
        cur = fr.locals
        names = set(cur) | set(stA)
        for k in names:
            b = cur.get(k, _MISSING)
            if k in stA:
                objA, _, dataA = stA[k]
            else:
                objA, dataA = _MISSING, None
            if b is _MISSING:
                # defined only on side A
                cur[k] = self.taint(cond, self._materialise(objA, dataA))
                continue
            if objA is _MISSING:
                cur[k] = self.taint(cond, b)
                continue
            if isinstance(b, NA) and isinstance(objA, NA):
                da = dataA
                if objA is b:
                    db = b.data
                    if b.ndim == 1:
                        if len(da) != len(db):
                            raise Undecided("array resized in a data-dependent branch")
                        b.data = [self._phi(cond, x, y, flip) for x, y in zip(da, db)]
                    else:
                        b.data = [[self._phi(cond, x, y, flip) for x, y in zip(ra, rb)] for ra, rb in zip(da, db)]
                else:
                    a_arr = NA(da, objA.ndim)
                    if a_arr.shape != b.shape:
                        raise Undecided("arrays of different shape joined")
                    cur[k] = broadcast(lambda x, y: self._phi(cond, x, y, flip), a_arr, b)
            elif isinstance(b, list) and isinstance(objA, list):
                if len(dataA) != len(b):
                    raise Undecided("list length differs across a data-dependent branch")
                b[:] = [self.join_val(cond, x, y) if not flip else self.join_val(cond, y, x) for x, y in zip(dataA, b)]
            else:
                cur[k] = self.join_val(cond, objA, b) if not flip else self.join_val(cond, b, objA)

    def _materialise(self, obj, data):
        if isinstance(obj, NA):
            return NA(data, obj.ndim)
        return obj

    def _phi(self, cond, a, b, flip):
        return phi(cond, b, a) if flip else phi(cond, a, b)

    def taint(self, cond, v):
        if isinstance(v, NA):
            return map1(lambda x: phi(cond, x, NAN) if not isinstance(x, D) else mk("phi", cond, x), v)
        if isinstance(v, (int, float, bool)) or isinstance(v, D):
            return mk("phi1", cond, v)
        return v

    def join_val(self, cond, a, b):
        if a is b:
            return a
        if isinstance(a, NA) and isinstance(b, NA):
            if a.shape != b.shape:
                raise Undecided("arrays of different shape joined")
            return broadcast(lambda x, y: phi(cond, x, y), a, b)
        if isinstance(a, (NT,)) and isinstance(b, NT) and len(a.vals) == len(b.vals):
            return NT(a.cls, [self.join_val(cond, x, y) for x, y in zip(a.vals, b.vals)])
        if isinstance(a, tuple) and isinstance(b, tuple) and len(a) == len(b):
            return tuple(self.join_val(cond, x, y) for x, y in zip(a, b))
        if isinstance(a, (int, float, bool, D)) and isinstance(b, (int, float, bool, D)):
            return phi(cond, a, b)
        if a is None and b is None:
            return None
        if (a is None) != (b is None):
            other = a if b is None else b
            if isinstance(other, (int, float, bool, D)):
                return mk("phi_none", cond, other)
        if isinstance(a, str) and a == b:
            return a
        raise Undecided(f"join of {type(a).__name__} and {type(b).__name__}")

    def truth(self, v) -> bool:
        if isinstance(v, D):
            raise Undecided("abstract truth value in a context that cannot fork")
        if isinstance(v, NA):
            if len(v.flat()) == 1:
                return self.truth(v.flat()[0])
            raise Undecided("truth value of an array")
        if isinstance(v, float) and v != v:
            return True
        return bool(v)

    def stmt(self, s, fr, cont=()):
        self.steps += 1
        if self.steps > self.max_steps:
            raise Undecided("step budget exceeded")
        t = type(s)
        if t is ast.Assign:
            v = self.eval(s.value, fr)
            for tg in s.targets:
                self.assign(tg, v, fr)
            return (FALL, None)
        if t is ast.AugAssign:
            cur = self.eval(_load(s.target), fr)
            v = self.binary(BINOPS[type(s.op)], cur, self.eval(s.value, fr))
            self.assign(s.target, v, fr)
            return (FALL, None)
        if t is ast.AnnAssign:
            if s.value is not None:
                self.assign(s.target, self.eval(s.value, fr), fr)
            return (FALL, None)
        if t is ast.Expr:
            if not isinstance(s.value, ast.Constant):
                self.eval(s.value, fr)
            return (FALL, None)
        if t is ast.Return:
            return (RET, self.eval(s.value, fr) if s.value is not None else None)
        if t is ast.For:
            return self.for_(s, fr)
        if t is ast.While:
            return self.while_(s, fr)
        if t is ast.If:
            return self.block([s], fr, cont)
        if t is ast.Pass or t is ast.Global or t is ast.Nonlocal:
            return (FALL, None)
        if t is ast.Break:
            return (BRK, None)
        if t is ast.Continue:
            return (CONT, None)
        if t is ast.Raise:
            raise PyRaise(norm(s.exc)[:60] if s.exc is not None else "raise")
        if t is ast.Import or t is ast.ImportFrom:
            fr.imports.update(import_bindings(s, fr.mod.name, fr.mod.is_pkg))
            return (FALL, None)
        if t is ast.FunctionDef:
            fr.locals[s.name] = Fn(s, fr.mod, fr.locals)
            return (FALL, None)
        if t is ast.With:
            for it in s.items:
                try:
                    self.eval(it.context_expr, fr)
                except Undecided:
                    pass
            return self.block(s.body, fr, cont)
        if t is ast.Assert:
            return (FALL, None)
        if t is ast.Try:
            try:
                return self.block(s.body, fr, cont)
            except PyRaise:
                for h in s.handlers:
                    return self.block(h.body, fr, cont)
                raise
        if t is ast.Delete:
            return (FALL, None)
        raise Undecided(f"statement {t.__name__}")

    def _finish_loop(self, fr):
        pend = self.loop_pending.pop()
        for cond, st, flip in reversed(pend):
            self.join(fr, cond, st, flip=flip)

    def for_(self, s, fr):
        it = self.eval(s.iter, fr)
        items = self.iterate(it)
        self.loop_pending.append([])
        ok = False
        try:
            for x in items:
                self.assign(s.target, x, fr)
                ex = self.block(s.body, fr, ())
                if ex[0] == BRK:
                    break
                if ex[0] == RET:
                    if self.loop_pending[-1]:
                        raise Undecided("return after a data-dependent break")
                    ok = True
                    return ex
            ok = True
        finally:
            if ok:
                self._finish_loop(fr)
            else:
                self.loop_pending.pop()
        if s.orelse:
            return self.block(s.orelse, fr, ())
        return (FALL, None)

    def while_(self, s, fr):
        n = 0
        self.loop_pending.append([])
        ok = False
        try:
            while True:
                c = self.eval(s.test, fr)
                if isinstance(c, D):
                    raise Undecided("data-dependent while condition")
                if not self.truth(c):
                    break
                n += 1
                if n > 100000:
                    raise Undecided("while loop too long")
                ex = self.block(s.body, fr, ())
                if ex[0] == BRK:
                    break
                if ex[0] == RET:
                    if self.loop_pending[-1]:
                        raise Undecided("return after a data-dependent break")
                    ok = True
                    return ex
            ok = True
        finally:
            if ok:
                self._finish_loop(fr)
            else:
                self.loop_pending.pop()
        return (FALL, None)

    def iterate(self, it):
        if isinstance(it, (list, tuple)):
            return list(it)
        if isinstance(it, range):
            return it
        if isinstance(it, NA):
            if it.ndim == 1:
                return list(it.data)
            return [NA(list(r), 1) for r in it.data]
        if isinstance(it, dict):
            return list(it.keys())
        if isinstance(it, NT):
            return list(it.vals)
        if isinstance(it, str):
            return list(it)
        raise Undecided(f"iteration over {type(it).__name__}")

    def assign(self, t, v, fr):
        if isinstance(t, ast.Name):
            fr.locals[t.id] = v
        elif isinstance(t, (ast.Tuple, ast.List)):
            vals = self.iterate(v)
            if len(vals) != len(t.elts):
                raise Undecided("unpack length mismatch")
            for e, x in zip(t.elts, vals):
                self.assign(e, x, fr)
        elif isinstance(t, ast.Subscript):
            base = self.eval(t.value, fr)
            key = self.index_key(t.slice, fr)
            NP.setitem(self, base, key, v)
        elif isinstance(t, ast.Attribute):
            raise Undecided("attribute store")
        else:
            raise Undecided("assignment target")

    # ------------------------------------------------------------------ expressions
    def eval(self, e, fr):
        self.steps += 1
        t = type(e)
        if t is ast.Constant:
            return e.value
        if t is ast.Name:
            return self.lookup(fr, e.id)
        if t is ast.BinOp:
            return self.binary(BINOPS[type(e.op)], self.eval(e.left, fr), self.eval(e.right, fr))
        if t is ast.Subscript:
            base = self.eval(e.value, fr)
            return NP.getitem(self, base, self.index_key(e.slice, fr))
        if t is ast.Call:
            return self.e_call(e, fr)
        if t is ast.Attribute:
            return self.getattr(self.eval(e.value, fr), e.attr)
        if t is ast.UnaryOp:
            v = self.eval(e.operand, fr)
            op = {ast.USub: "neg", ast.Not: "not", ast.UAdd: "pos", ast.Invert: "invert"}[type(e.op)]
            if op == "not" and not isinstance(v, (D, NA)):
                return not self.truth(v)
            return self.unary(op, v)
        if t is ast.Compare:
            left = self.eval(e.left, fr)
            res = None
            for op, c in zip(e.ops, e.comparators):
                right = self.eval(c, fr)
                r = self.compare(op, left, right)
                res = r if res is None else self.binary("and", res, r)
                if res is False:
                    return False
                left = right
            return res
        if t is ast.BoolOp:
            isand = isinstance(e.op, ast.And)
            acc = None
            for x in e.values:
                v = self.eval(x, fr)
                if isinstance(v, (D, NA)):
                    acc = v if acc is None else self.binary("and" if isand else "or", acc, v)
                    continue
                tv = self.truth(v)
                if isand and not tv:
                    return v if acc is None else False
                if not isand and tv:
                    return v if acc is None else True
                if acc is None:
                    last = v
            return acc if acc is not None else v
        if t is ast.IfExp:
            c = self.eval(e.test, fr)
            if isinstance(c, D):
                return self.join_val(c, self.eval(e.body, fr), self.eval(e.orelse, fr))
            return self.eval(e.body, fr) if self.truth(c) else self.eval(e.orelse, fr)
        if t is ast.Tuple:
            return tuple(self.eval(x, fr) for x in e.elts)
        if t is ast.List:
            return [self.eval(x, fr) for x in e.elts]
        if t is ast.Dict:
            return {self.eval(k, fr): self.eval(v, fr) for k, v in zip(e.keys, e.values)}
        if t is ast.ListComp or t is ast.GeneratorExp:
            return self.comp(e, fr)
        if t is ast.Lambda:
            return Fn(e, fr.mod, fr.locals)
        if t is ast.JoinedStr:
            return "<fstring>"
        if t is ast.Slice:
            return self.index_key(e, fr)
        if t is ast.Starred:
            raise Undecided("starred expression")
        raise Undecided(f"expression {t.__name__}")

    def comp(self, e, fr):
        out = []
        sub = Frame(fr.mod, dict(fr.locals), fr.closure)
        sub.imports = fr.imports

        def rec(gi):
            if gi == len(e.generators):
                out.append(self.eval(e.elt, sub))
                return
            g = e.generators[gi]
            for x in self.iterate(self.eval(g.iter, sub)):
                self.assign(g.target, x, sub)
                ok = True
                for c in g.ifs:
                    cv = self.eval(c, sub)
                    if isinstance(cv, D):
                        raise Undecided("data-dependent comprehension filter")
                    if not self.truth(cv):
                        ok = False
                        break
                if ok:
                    rec(gi + 1)
        rec(0)
        return out

    def e_call(self, e, fr):
        f = self.eval(e.func, fr)
        args = []
        for a in e.args:
            if isinstance(a, ast.Starred):
                args.extend(self.iterate(self.eval(a.value, fr)))
            else:
                args.append(self.eval(a, fr))
        kwargs = {}
        for k in e.keywords:
            if k.arg is None:
                kwargs.update(self.eval(k.value, fr))
            else:
                kwargs[k.arg] = self.eval(k.value, fr)
        return self.call(f, args, kwargs, e)

    def index_key(self, sl, fr):
        if isinstance(sl, ast.Slice):
            return slice(self._idx(sl.lower, fr), self._idx(sl.upper, fr), self._idx(sl.step, fr))
        if isinstance(sl, ast.Tuple):
            return tuple(self.index_key(x, fr) for x in sl.elts)
        return self.eval(sl, fr)

    def _idx(self, e, fr):
        if e is None:
            return None
        v = self.eval(e, fr)
        if isinstance(v, D):
            raise Undecided("data-dependent index")
        if isinstance(v, float):
            if v != v:
                raise Undecided("NaN index")
            return int(v)
        return v

    def binary(self, op, a, b):
        if op == "matmul":
            return NP.np_matmul(self, [a, b], {})
        if isinstance(a, NA) or isinstance(b, NA):
            if isinstance(a, (list, tuple)):
                a = NP.to_na(a)
            if isinstance(b, (list, tuple)):
                b = NP.to_na(b)
            return broadcast(op, a, b)
        if isinstance(a, (list, tuple)) or isinstance(b, (list, tuple)):
            if op == "add" and type(a) is type(b):
                return a + b
            if op == "mul" and isinstance(b, int):
                return a * b
            if op == "mul" and isinstance(a, int):
                return b * a
            # list <op> numpy-scalar broadcasts like an array
            if isinstance(a, (list, tuple)) and isinstance(b, (int, float, D)):
                return broadcast(op, NP.to_na(a), b)
            if isinstance(b, (list, tuple)) and isinstance(a, (int, float, D)):
                return broadcast(op, a, NP.to_na(b))
            raise Undecided("list arithmetic")
        if isinstance(a, str) or isinstance(b, str):
            if op == "add" and isinstance(a, str) and isinstance(b, str):
                return a + b
            if op == "mod":
                return "<str>"
            raise Undecided("string arithmetic")
        return binop(op, a, b)

    def unary(self, op, v):
        if isinstance(v, NA):
            return map1(lambda x: unop(op, x), v)
        return unop(op, v)

    def compare(self, op, a, b):
        if isinstance(op, (ast.Is, ast.IsNot)):
            r = (a is b) or (a is None and b is None)
            if isinstance(a, (bool,)) and isinstance(b, bool):
                r = a == b
            if isinstance(a, Builtin) and isinstance(b, Builtin):
                r = a is b
            return r if isinstance(op, ast.Is) else not r
        if isinstance(op, (ast.In, ast.NotIn)):
            if isinstance(a, D):
                raise Undecided("membership test on abstract value")
            if isinstance(b, (list, tuple, dict, str, set, range)):
                r = a in b
            elif isinstance(b, NA):
                raise Undecided("membership in array")
            else:
                raise Undecided("membership test")
            return r if isinstance(op, ast.In) else not r
        name = CMPOPS[type(op)]
        if a is None or b is None or isinstance(a, str) or isinstance(b, str):
            if name == "eq":
                return a == b
            if name == "ne":
                return a != b
            raise Undecided("ordering comparison with None/str")
        return self.binary(name, a, b)

    def getattr(self, v, attr):
        if isinstance(v, NA):
            return NP.na_attr(self, v, attr)
        if isinstance(v, Mod):
            m = v.mod
            if attr in m.defs:
                return self.wrap(("def", m, m.defs[attr], attr))
            r = self.repo.resolve_import(m, attr)
            if r is not None:
                return self.wrap(r)
            sub = self.repo.resolve_module(f"{m.name}.{attr}")
            if sub is not None:
                return Mod(sub)
            if attr in m.imports:
                d, a = m.imports[attr]
                return Ext(d if a is None else f"{d}.{a}")
            raise Undecided(f"unknown attribute {m.rel}:{attr}")
        if isinstance(v, Ext):
            d = f"{v.dotted}.{attr}"
            if d in NP.EXT_CONST:
                return NP.EXT_CONST[d]
            return Ext(d)
        if isinstance(v, NT):
            if attr in v.cls.fields:
                return v.vals[v.cls.fields.index(attr)]
            raise Undecided(f"namedtuple attribute {attr}")
        if isinstance(v, (int, float)) or isinstance(v, D):
            return NP.scalar_attr(self, v, attr)
        if isinstance(v, list):
            return NP.list_attr(self, v, attr)
        if isinstance(v, str):
            return NP.str_attr(self, v, attr)
        if isinstance(v, dict):
            return NP.dict_attr(self, v, attr)
        raise Undecided(f"attribute {attr} of {type(v).__name__}")



_MISSING = object()


def _load(t):
    import copy
    t2 = copy.copy(t)
    t2.ctx = ast.Load()
    return t2
