"""Exact rational-function arithmetic over symbolic atoms (engine E6 core).

R  = quotient of two multivariate polynomials with Fraction coefficients.
Atoms are hashable: plain strings ("qty") or Op(name, args) for opaque
operators (abs, floor, sqrt, min, max ...).  Equality of two R values is decided
by cross-multiplication of normal forms, so comparison is modulo
commutativity / associativity / distribution / renaming of temporaries.
No solver is involved: everything is normal-form rewriting.
"""
from __future__ import annotations

from fractions import Fraction
from decimal import Decimal
from typing import Dict, Tuple, Iterable, Optional


class Op:
    """Opaque operator application used as an atom."""
    __slots__ = ("name", "args", "_h", "_r")

    def __init__(self, name: str, args: tuple):
        self.name = name
        self.args = tuple(args)
        self._h = hash((name, self.args))
        self._r = None

    def __hash__(self):
        return self._h

    def __eq__(self, other):
        return isinstance(other, Op) and self.name == other.name and self.args == other.args

    def __repr__(self):
        # (the text is the canonical sort key of the atom: computed once - nested atoms made it exponential)
        if self._r is None:
            self._r = f"{self.name}({', '.join(map(repr, self.args))})"
        return self._r

    def __lt__(self, other):
        return repr(self) < repr(other)


def _atom_key(a):
    return (0, a) if isinstance(a, str) else (1, repr(a))


Mono = Tuple[Tuple[object, int], ...]  # sorted ((atom, exp), ...)


def _mono_mul(a: Mono, b: Mono) -> Mono:
    d: Dict[object, int] = {}
    for at, e in a:
        d[at] = d.get(at, 0) + e
    for at, e in b:
        d[at] = d.get(at, 0) + e
    return tuple(sorted(((at, e) for at, e in d.items() if e), key=lambda p: _atom_key(p[0])))


class Poly:
    __slots__ = ("t", "_h")

    def __init__(self, terms: Optional[Dict[Mono, Fraction]] = None):
        self.t = {m: c for m, c in (terms or {}).items() if c != 0}
        self._h = None

    @staticmethod
    def const(c) -> "Poly":
        c = to_fraction(c)
        return Poly({(): c}) if c != 0 else Poly()

    @staticmethod
    def atom(a) -> "Poly":
        return Poly({((a, 1),): Fraction(1)})

    def is_const(self) -> bool:
        return all(m == () for m in self.t)

    def const_value(self) -> Fraction:
        return self.t.get((), Fraction(0))

    def is_zero(self) -> bool:
        return not self.t

    def __add__(self, o: "Poly") -> "Poly":
        d = dict(self.t)
        for m, c in o.t.items():
            d[m] = d.get(m, 0) + c
        return Poly(d)

    def __neg__(self) -> "Poly":
        return Poly({m: -c for m, c in self.t.items()})

    def __sub__(self, o: "Poly") -> "Poly":
        return self + (-o)

    def __mul__(self, o: "Poly") -> "Poly":
        d: Dict[Mono, Fraction] = {}
        for m1, c1 in self.t.items():
            for m2, c2 in o.t.items():
                m = _mono_mul(m1, m2)
                d[m] = d.get(m, 0) + c1 * c2
        return Poly(d)

    def scale(self, c: Fraction) -> "Poly":
        return Poly({m: k * c for m, k in self.t.items()})

    def __eq__(self, o):
        return isinstance(o, Poly) and self.t == o.t

    def __hash__(self):
        if self._h is None:
            self._h = hash(frozenset(self.t.items()))
        return self._h

    def atoms(self) -> set:
        s = set()
        for m in self.t:
            for a, _ in m:
                s.add(a)
        return s

    def degree_in(self, atom) -> int:
        d = 0
        for m in self.t:
            for a, e in m:
                if a == atom:
                    d = max(d, e)
        return d

    def single_monomial(self) -> Optional[Tuple[Mono, Fraction]]:
        if len(self.t) == 1:
            (m, c), = self.t.items()
            return m, c
        return None

    def content_sign_fix(self) -> Tuple["Poly", Fraction]:
        """Return (primitive-ish poly, leading coeff) so that leading coeff is 1."""
        if not self.t:
            return self, Fraction(1)
        lead = self.t[sorted(self.t, key=_mono_sort_key)[-1]]
        return self.scale(1 / lead), lead

    def evaluate(self, env) -> Fraction:
        """env: callable atom -> Fraction (may raise KeyError)."""
        tot = Fraction(0)
        for m, c in self.t.items():
            v = c
            for a, e in m:
                v *= env(a) ** e
            tot += v
        return tot

    def __repr__(self):
        if not self.t:
            return "0"
        parts = []
        for m in sorted(self.t, key=_mono_sort_key):
            c = self.t[m]
            ms = "*".join((repr(a) if not isinstance(a, str) else a) + (f"^{e}" if e != 1 else "") for a, e in m)
            if not ms:
                parts.append(str(c))
            elif c == 1:
                parts.append(ms)
            elif c == -1:
                parts.append("-" + ms)
            else:
                parts.append(f"{c}*{ms}")
        return " + ".join(parts).replace("+ -", "- ")


def _mono_sort_key(m: Mono):
    return (sum(e for _, e in m), tuple((_atom_key(a), e) for a, e in m))


def to_fraction(c) -> Fraction:
    if isinstance(c, Fraction):
        return c
    if isinstance(c, bool):
        return Fraction(int(c))
    if isinstance(c, int):
        return Fraction(c)
    if isinstance(c, float):
        # float literals are read as the exact decimal the source spells
        return Fraction(Decimal(repr(c)))
    if isinstance(c, str):
        return Fraction(Decimal(c))
    raise TypeError(f"cannot convert {c!r}")


class R:
    """Rational function num/den."""
    __slots__ = ("n", "d")

    def __init__(self, n: Poly, d: Optional[Poly] = None):
        if d is None:
            d = Poly.const(1)
        if d.is_zero():
            raise ZeroDivisionError("symbolic division by zero")
        # normalise: constant denominator folded into numerator; common single-monomial factors cancelled
        if d.is_const():
            n = n.scale(1 / d.const_value())
            d = Poly.const(1)
        else:
            n, d = _cancel(n, d)
        self.n, self.d = n, d

    @staticmethod
    def const(c) -> "R":
        return R(Poly.const(c))

    @staticmethod
    def atom(a) -> "R":
        return R(Poly.atom(a))

    def is_const(self) -> bool:
        return self.n.is_const() and self.d.is_const()

    def const_value(self) -> Fraction:
        return self.n.const_value() / self.d.const_value()

    def __add__(self, o: "R") -> "R":
        if self.d == o.d:
            return R(self.n + o.n, self.d)
        return R(self.n * o.d + o.n * self.d, self.d * o.d)

    def __neg__(self):
        return R(-self.n, self.d)

    def __sub__(self, o):
        return self + (-o)

    def __mul__(self, o):
        return R(self.n * o.n, self.d * o.d)

    def __truediv__(self, o):
        if o.n.is_zero():
            raise ZeroDivisionError("symbolic division by zero")
        return R(self.n * o.d, self.d * o.n)

    def __pow__(self, k: int):
        if k < 0:
            return R.const(1) / (self ** (-k))
        r = R.const(1)
        for _ in range(k):
            r = r * self
        return r

    def same(self, o: "R") -> bool:
        return (self.n * o.d) == (o.n * self.d)

    def approx_same(self, o: "R", tol: float = 1e-9) -> bool:
        """equality up to relative tolerance of the coefficients (float-derived constants)"""
        a, b = self.n * o.d, o.n * self.d
        if a == b:
            return True
        keys = set(a.t) | set(b.t)
        scale = max([abs(float(c)) for c in list(a.t.values()) + list(b.t.values())] + [1e-300])
        for k in keys:
            if abs(float(a.t.get(k, 0)) - float(b.t.get(k, 0))) > tol * scale:
                return False
        return True

    def __eq__(self, o):
        return isinstance(o, R) and self.same(o)

    def __hash__(self):
        # canonical enough for dict keys in practice: normalise leading coeff of den
        d, lead = self.d.content_sign_fix()
        n = self.n.scale(1 / lead)
        return hash((n, d))

    def atoms(self):
        return self.n.atoms() | self.d.atoms()

    def evaluate(self, env) -> Fraction:
        dv = self.d.evaluate(env)
        if dv == 0:
            raise ZeroDivisionError
        return self.n.evaluate(env) / dv

    def __repr__(self):
        if self.d.is_const() and self.d.const_value() == 1:
            return repr(self.n)
        return f"({self.n!r}) / ({self.d!r})"


def _cancel(n: Poly, d: Poly) -> Tuple[Poly, Poly]:
    """Cancel the monomial gcd and try exact polynomial division in both directions."""
    if n.is_zero():
        return n, Poly.const(1)
    # monomial gcd
    def mono_gcd(p: Poly) -> Dict[object, int]:
        g = None
        for m in p.t:
            dm = dict(m)
            if g is None:
                g = dm
            else:
                g = {a: min(e, dm.get(a, 0)) for a, e in g.items() if a in dm}
        return g or {}
    gn, gd = mono_gcd(n), mono_gcd(d)
    g = {a: min(e, gd[a]) for a, e in gn.items() if a in gd and min(e, gd[a]) > 0}
    if g:
        inv = tuple(sorted(((a, -e) for a, e in g.items()), key=lambda p: _atom_key(p[0])))
        n = Poly({_mono_mul(m, inv): c for m, c in n.t.items()})
        d = Poly({_mono_mul(m, inv): c for m, c in d.t.items()})
    # exact division d | n
    q = _exact_div(n, d)
    if q is not None:
        return q, Poly.const(1)
    q = _exact_div(d, n)
    if q is not None and not q.is_zero():
        if q.is_const():
            return Poly.const(1 / q.const_value()), Poly.const(1)
        return Poly.const(1), q
    # normalise sign/scale of denominator
    d2, lead = d.content_sign_fix()
    return n.scale(1 / lead), d2


def _exact_div(a: Poly, b: Poly) -> Optional[Poly]:
    """Multivariate exact division (returns None if remainder)."""
    if b.is_zero():
        return None
    if b.is_const():
        return a.scale(1 / b.const_value())
    rem = a
    quo = Poly()
    lb = sorted(b.t, key=_mono_sort_key)[-1]
    cb = b.t[lb]
    steps = 0
    while not rem.is_zero():
        steps += 1
        if steps > 200:
            return None
        lr = sorted(rem.t, key=_mono_sort_key)[-1]
        dl = dict(lr)
        ok = True
        for at, e in lb:
            if dl.get(at, 0) < e:
                ok = False
                break
            dl[at] -= e
        if not ok:
            return None
        m = tuple(sorted(((at, e) for at, e in dl.items() if e), key=lambda p: _atom_key(p[0])))
        t = Poly({m: rem.t[lr] / cb})
        quo = quo + t
        rem = rem - t * b
    return quo


# ---- helpers for sign reasoning -------------------------------------------------

def abs_of(r: R, nonneg: Iterable = ()) -> R:
    """|r| with monomial splitting: |c*a*b| = |c|*|a|*|b|; atoms in `nonneg` drop the bars."""
    nonneg = set(nonneg)
    if r.is_const():
        return R.const(abs(r.const_value()))

    def abs_poly(p: Poly) -> Optional[Poly]:
        sm = p.single_monomial()
        if sm is None:
            return None
        m, c = sm
        out = Poly.const(abs(c))
        for a, e in m:
            if a in nonneg or (isinstance(a, Op) and a.name in ("abs", "sqrt")) or e % 2 == 0:
                base = Poly.atom(a)
            else:
                base = Poly.atom(Op("abs", (R.atom(a),)))
            for _ in range(e):
                out = out * base
        return out
    n = abs_poly(r.n)
    d = abs_poly(r.d)
    if n is not None and d is not None:
        return R(n, d)
    if d is not None and n is None:
        return R(Poly.atom(Op("abs", (R(r.n),))), d)
    return R.atom(Op("abs", (r,)))
