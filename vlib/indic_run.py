"""Driver for the indicator dependence interpreter: enumerate public indicators, build abstract candles,
run them in sequential / non-sequential mode and summarise outputs."""
from __future__ import annotations

import ast
from typing import Any, Dict, List, Optional, Tuple

from .loader import Repo, AnalysisError
from .indic import Indic, Fn, NT, PyRaise, Frame
from .indic_vals import D, NA, NAN, Undecided, RAW

INIT = "jesse/indicators/__init__.py"
T0 = 1_600_000_000_000 // 86_400_000 * 86_400_000
COLS = ("ts", "open", "close", "high", "low", "volume")


def public_indicators(repo: Repo) -> List[Tuple[str, str, ast.FunctionDef]]:
    """(public name, module rel, FunctionDef) for every `from .x import y` of the package init."""
    m = repo.module(INIT)
    out = []
    for node in m.tree.body:
        if isinstance(node, ast.ImportFrom) and node.level == 1 and node.module:
            rel = f"jesse/indicators/{node.module}.py"
            for a in node.names:
                try:
                    fn = repo.func(rel, a.name)
                except AnalysisError:
                    continue
                out.append((a.asname or a.name, rel, fn))
    if len(out) < 100:
        raise AnalysisError(f"only {len(out)} public indicators found in {INIT}")
    return out


def candles(n: int, tag: str = "c", offset: int = 0) -> NA:
    """abstract candle matrix: row i depends on candle (offset+i); timestamps are concrete"""
    rows = []
    for i in range(n):
        k = offset + i
        row = [float(T0 + k * 60000)]
        for c in range(1, 6):
            h = hash(("in", tag, k, c))
            RAW.add(h)
            row.append(D(1 << k, h, "in", (tag, k, c)))
        rows.append(row)
    return NA(rows, 2)


def default_args(fn: ast.FunctionDef) -> Dict[str, Any]:
    return {}


def run_indicator(repo: Repo, rel: str, fn: ast.FunctionDef, n: int, sequential: bool, warmup: int = 240, offset: int = 0,
                  overrides: Dict[str, Any] = None, max_steps: int = 6_000_000, one_d: bool = False):
    """Returns ('ok', value) | ('undecided', reason) | ('raises', what)."""
    it = Indic(repo, warmup=warmup, max_steps=max_steps)
    mod = repo.module(rel)
    params = [a.arg for a in fn.args.args]
    kwargs: Dict[str, Any] = {}
    args = []
    if not params:
        return ("undecided", "no parameters")
    cd = candles(n, "c", offset)
    # one_d: a plain 1-D series (the close column) instead of candles - several averages accept both
    args.append(NA([row[2] for row in cd.data], 1) if one_d else cd)
    # second candle-like inputs (benchmark candles etc.)
    for p in params[1:]:
        if "candles" in p:
            kwargs[p] = candles(n, "b", offset)
    if "sequential" in params:
        kwargs["sequential"] = sequential
    if overrides:
        kwargs.update({k: v for k, v in overrides.items() if k in params})
    try:
        v = it.call_fn(Fn(fn, mod), args, kwargs)
        return ("ok", v, it)
    except Undecided as e:
        return ("undecided", str(e), it)
    except PyRaise as e:
        where = getattr(e, "where", None)
        return ("raises", e.name + ((" in numba kernel " if getattr(e, "jit", False) else " in ") + where if where else ""), it)
    except RecursionError:
        return ("undecided", "recursion limit", it)
    except (ZeroDivisionError, OverflowError, ValueError, TypeError, IndexError, KeyError, AttributeError) as e:
        return ("undecided", f"interpreter: {type(e).__name__}: {e}", it)


def fields_of(v) -> List[Tuple[str, Any]]:
    if isinstance(v, NT):
        return list(zip(v.cls.fields, v.vals))
    if isinstance(v, tuple):
        return [(f"#{i}", x) for i, x in enumerate(v)]
    return [("value", v)]


def future_lead(arr: NA, offset: int = 0) -> Tuple[int, int]:
    """(max lead, index where it occurs): lead = (largest candle index element i depends on) - i"""
    best, at = -10**9, -1
    for i, x in enumerate(arr.data):
        if isinstance(x, D) and x.m:
            lead = (x.m.bit_length() - 1) - (offset + i)
            if lead > best:
                best, at = lead, i
    return best, at


def valuations(n: int):
    """adversarial candle valuations for witness evaluation: (name, f(tag, k, col) -> float)"""
    import random
    out = []

    def make(name, closes, jitter):
        rows = {}
        for tag in ("c", "b"):
            rnd = random.Random(hash((name, tag)) & 0xffff)
            prev = closes[0]
            for k in range(n):
                c = closes[k] + (3.0 if tag == "b" else 0.0)
                o = prev
                h = max(o, c) + jitter(rnd)
                l = min(o, c) - jitter(rnd)
                v = float(rnd.randint(1, 9))
                rows[(tag, k)] = (0.0, o, c, h, l, v)
                prev = c
        out.append((name, lambda tag, k, col, rows=rows: rows[(tag, k)][col]))
    rnd = random.Random(11)
    walk = [100.0]
    for _ in range(n - 1):
        walk.append(walk[-1] + rnd.choice([-1.0, 0.0, 0.0, 1.0]))
    make("integer grid with ties", walk, lambda r: float(r.choice([0, 1, 1, 2])))
    make("strictly rising", [100.0 + 0.5 * k for k in range(n)], lambda r: 0.25)
    make("strictly falling", [200.0 - 0.5 * k for k in range(n)], lambda r: 0.25)
    make("alternating", [100.0 + (1.0 if k % 2 else -1.0) for k in range(n)], lambda r: 0.5)
    fl = [100.0]
    for _ in range(n - 1):
        fl.append(fl[-1] * (1 + rnd.uniform(-0.01, 0.01)))
    make("random floats", fl, lambda r: r.uniform(0.01, 0.3))
    make("double top", [100.0 + min(k % 7, 7 - k % 7) for k in range(n)], lambda r: 0.0)
    # a market that goes quiet: the last third of the candles is flat (open = high = low = close) without a single trade - legal
    # candles on which 0/0 and x/0 guards are what decides a value
    quiet = {}
    for tag in ("c", "b"):
        for k in range(n):
            if k < n - max(n // 3, 1):
                c = 100.0 + (k * 7 % 5) - (k * 3 % 4) + (3.0 if tag == "b" else 0.0)
                quiet[(tag, k)] = (0.0, c - 0.5, c, c + 1.0, c - 1.5, float(1 + k % 4))
            else:
                quiet[(tag, k)] = (0.0, 101.0, 101.0, 101.0, 101.0, 0.0)
    out.append(("quiet tail (flat candles, no trades)", lambda tag, k, col, rows=quiet: rows[(tag, k)][col]))
    return out
