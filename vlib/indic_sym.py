"""Symbolic normal forms of indicator expression DAGs (engine E6 applied to E7's output).

An abstract value produced by the dependence interpreter carries its expression
DAG.  dag_to_R converts it to an exact rational function over the candle inputs;
non-polynomial operators (comparisons, where/phi, max/min, abs, sqrt, ...) become
canonicalised opaque atoms.  Two DAGs with the same normal form are equal for
every real valuation of the inputs (for the fixed input length and parameters).
"""
from __future__ import annotations

from fractions import Fraction
from typing import Dict

from .poly import R, Poly, Op, abs_of
from .indic_vals import D, Undecided

COLS = {1: "o", 2: "c", 3: "h", 4: "l", 5: "v"}


def atom_name(tag, k, c):
    return f"{'' if tag == 'c' else tag + '_'}{COLS.get(c, 'x' + str(c))}{k}"


def const(x) -> R:
    if isinstance(x, bool):
        return R.const(int(x))
    if isinstance(x, int):
        return R.const(x)
    if isinstance(x, float):
        if x != x:
            return R.atom("NaN")
        if x in (float("inf"), float("-inf")):
            return R.atom("+inf" if x > 0 else "-inf")
        return R.const(Fraction(x).limit_denominator(10**12) if abs(x) < 1e15 else Fraction(x))
    raise Undecided(f"constant {x!r} in symbolic conversion")


def _cmp(kind: str, a: R, b: R) -> R:
    """canonical comparison atoms: a > b == pos(a-b); a >= b == nonneg(a-b); == -> zero(+-(a-b))"""
    d0 = a - b
    if d0.is_const():
        v = d0.const_value()
        t = {"gt": v > 0, "lt": v < 0, "ge": v >= 0, "le": v <= 0, "eq": v == 0, "ne": v != 0}.get(kind)
        if t is not None:
            return R.const(1 if t else 0)
    if kind == "gt":
        return R.atom(Op("pos", (a - b,)))
    if kind == "lt":
        return R.atom(Op("pos", (b - a,)))
    if kind == "ge":
        return R.atom(Op("nonneg", (a - b,)))
    if kind == "le":
        return R.atom(Op("nonneg", (b - a,)))
    d = a - b
    nd = -d
    key = d if repr(d) <= repr(nd) else nd
    z = R.atom(Op("zero", (key,)))
    return z if kind == "eq" else R.const(1) - z


def _canon_sign(x: R):
    """(y, sign) with x = sign*y and y in canonical orientation"""
    nx = -x
    if repr(x) <= repr(nx):
        return x, 1
    return nx, -1


def relu(x: R) -> R:
    """max(x, 0) in canonical orientation: relu(-y) = relu(y) - y"""
    if x.is_const():
        return R.const(max(x.const_value(), 0))
    y, sg = _canon_sign(x)
    a = R.atom(Op("relu", (y,)))
    return a if sg == 1 else a - y


def sym_abs(x: R) -> R:
    return relu(x) * R.const(2) - x


def max2(a: R, b: R) -> R:
    return b + relu(a - b)


def min2(a: R, b: R) -> R:
    return a - relu(a - b)


def sym_max(xs) -> R:
    xs = _dedupe(xs)
    acc = xs[0]
    for x in xs[1:]:
        acc = max2(acc, x)
    return acc


def sym_min(xs) -> R:
    xs = _dedupe(xs)
    acc = xs[0]
    for x in xs[1:]:
        acc = min2(acc, x)
    return acc


def _dedupe(xs):
    out = []
    for a in xs:
        if not any(a.same(u) for u in out):
            out.append(a)
    return sorted(out, key=repr)


def gate(x: R, y: R) -> R:
    """y if x > 0 else 0"""
    if y.n.is_zero():
        return R.const(0)
    # gate(x, k*x) = k*relu(x)
    try:
        q = y / x
        if q.is_const():
            return relu(x) * q
    except ZeroDivisionError:
        pass
    return R.atom(Op("gate", (x, y)))


def sym_where_pos(x: R, a: R, b: R) -> R:
    """a if x > 0 else b"""
    return b + gate(x, a - b)


def _flat(name, args):
    out = []
    for a in args:
        if a.n.single_monomial() and a.d.is_const():
            m, c = a.n.single_monomial()
            if len(m) == 1 and m[0][1] == 1 and isinstance(m[0][0], Op) and m[0][0].name == name and c == a.d.const_value():
                out.extend(m[0][0].args)
                continue
        out.append(a)
    uniq = []
    for a in out:
        if not any(a.same(u) for u in uniq):
            uniq.append(a)
    if len(uniq) == 1:
        return uniq[0]
    return R.atom(Op(name, tuple(sorted(uniq, key=repr))))


def _collect(d, op, memo):
    """leaves of a nested max(max(..), ..) (or min) subtree, converted"""
    out, stack = [], list(d.args)
    while stack:
        x = stack.pop()
        if isinstance(x, D) and x.op == op:
            stack.extend(x.args)
        else:
            out.append(memo[id(x)] if isinstance(x, D) else const(x))
    return out


def _where(c: R, a: R, b: R) -> R:
    if a.same(b):
        return a
    if c.is_const():
        return a if c.const_value() != 0 else b
    sm = c.n.single_monomial()
    if sm and c.d.is_const() and len(sm[0]) == 1 and sm[0][0][1] == 1 and isinstance(sm[0][0][0], Op) and sm[1] == c.d.const_value():
        o = sm[0][0][0]
        if o.name == "pos":
            return sym_where_pos(o.args[0], a, b)
        if o.name == "nonneg":          # x >= 0  ==  not (-x > 0)
            return sym_where_pos(-o.args[0], b, a)
    return R.atom(Op("where", (c, a, b)))


def _moment(op, v):
    xs = [x for x in v if isinstance(x, R)]
    ddof = 0
    for x in v:
        if isinstance(x, tuple) and len(x) == 2 and x[0] == "ddof":
            ddof = int(float(x[1]))
    n = len(xs)
    mean = sum(xs, R.const(0)) / R.const(n)
    var = sum(((x - mean) * (x - mean) for x in xs), R.const(0)) / R.const(n - ddof)
    return var if op == "var" else R.atom(Op("sqrt", (var,)))


def generic(r: R) -> R:
    """the generic branch of division-by-zero guards: where(zero(x), const, expr) -> expr, applied recursively"""
    def f(atom):
        if isinstance(atom, Op):
            args = tuple(generic(a) if isinstance(a, R) else a for a in atom.args)
            if atom.name == "where" and isinstance(args[0], R):
                sm = args[0].n.single_monomial()
                if sm and len(sm[0]) == 1 and isinstance(sm[0][0][0], Op) and sm[0][0][0].name == "zero":
                    # condition `x == 0` (coefficient +1) or `x != 0` (1 - zero)
                    return args[2]
                if (R.const(1) - args[0]).n.single_monomial():
                    sm2 = (R.const(1) - args[0]).n.single_monomial()
                    if len(sm2[0]) == 1 and isinstance(sm2[0][0][0], Op) and sm2[0][0][0].name == "zero":
                        return args[1]
            return R.atom(Op(atom.name, args))
        return R.atom(atom)
    return subst(r, f)


def subst(r: R, f) -> R:
    def poly(p):
        out = R.const(0)
        for m, c in p.t.items():
            term = R.const(c)
            for at, e in m:
                term = term * (f(at) ** e)
            out = out + term
        return out
    return poly(r.n) / poly(r.d)


def dag_to_R(root, memo: Dict[int, R] = None, budget: int = 400000) -> R:
    if not isinstance(root, D):
        return const(root)
    memo = memo if memo is not None else {}
    stack = [root]
    steps = 0
    while stack:
        steps += 1
        if steps > budget:
            raise Undecided("symbolic conversion budget exceeded")
        d = stack[-1]
        if id(d) in memo:
            stack.pop()
            continue
        if d.op == "in":
            memo[id(d)] = R.atom(atom_name(*d.args))
            stack.pop()
            continue
        pend = [a for a in d.args if isinstance(a, D) and id(a) not in memo]
        if pend:
            stack.extend(pend)
            continue
        v = [memo[id(a)] if isinstance(a, D) else (const(a) if isinstance(a, (int, float, bool)) else a) for a in d.args]
        op = d.op
        try:
            if op == "add":
                r = v[0] + v[1]
            elif op == "sub":
                r = v[0] - v[1]
            elif op == "mul":
                r = v[0] * v[1]
            elif op == "div":
                r = v[0] / v[1]
            elif op == "neg":
                r = -v[0]
            elif op == "pow" and v[1].is_const() and v[1].const_value().denominator == 1 and abs(v[1].const_value()) <= 6:
                r = v[0] ** int(v[1].const_value())
            elif op == "pow" and v[1].is_const() and v[1].const_value() == Fraction(1, 2):
                r = R.atom(Op("sqrt", (v[0],)))
            elif op == "square":
                r = v[0] * v[0]
            elif op in ("gt", "lt", "ge", "le", "eq", "ne"):
                r = _cmp(op, v[0], v[1])
            elif op in ("max", "min"):
                leaves = _collect(d, op, memo)
                r = sym_max(leaves) if op == "max" else sym_min(leaves)
            elif op == "abs":
                r = sym_abs(v[0])
            elif op == "phi":
                r = _where(v[0], v[1], v[2])
            elif op in ("std", "nanstd", "var") and v:
                r = _moment(op, v)
            elif op in ("float", "pos"):
                r = v[0]
            elif op in ("and", "or"):
                r = R.atom(Op(op, tuple(sorted(v, key=repr))))
            else:
                r = R.atom(Op(op, tuple(v)))
        except ZeroDivisionError:
            r = R.atom(Op("div0", tuple(v)))
        memo[id(d)] = r
        stack.pop()
    return memo[id(root)]
