"""Trace views of the two backtest simulators (`_step_simulator`, `_skip_simulator`):
prologue / one time-loop iteration / epilogue, projected on the events a rule asks for.
Module-local helpers (`_simulate_new_candles`, `_execute_routes`, `_execute_market_orders`, ...)
are inlined, so extracting or merging helpers does not change the view."""
from __future__ import annotations

import ast
from typing import Callable, Dict, List, Optional, Set, Tuple

from .loader import Repo, AnalysisError, norm
from .traces import Tracer, Cfg, make_inliner, dotted, FALL, RET, RAISE

BT = "jesse/modes/backtest_mode.py"

# calls that are observed as events (by last path component) and therefore never inlined
LEAVES = {
    "_simulate_price_change_effect", "_simulate_price_change_effect_multiple_candles", "_get_fixed_jumped_candle",
    "_check_for_liquidations", "_update_all_routes_a_partial_candle", "_generate_outputs", "_prepare_routes",
    "_prepare_times_before_simulation", "_simulation_minutes_length", "_calculate_minimum_candle_step",
    "_get_executing_orders", "_sort_execution_orders",
}


def last(label: str) -> str:
    return label.rstrip("()").split(".")[-1]


def loop_id(node) -> Optional[str]:
    if isinstance(node, ast.While):
        return "while"
    it = norm(node.iter)
    if it.startswith("range("):
        # the simulators' time loop: the range loop that feeds candles to the matcher (other range loops - e.g. over the candles
        # of a chunk - are ordinary inner loops)
        for n in ast.walk(node):
            if n is not node and isinstance(n, ast.For) and norm(n.iter) == "candles":
                return "time"
            if isinstance(n, ast.Call) and last(dotted(n.func) or "") in ("_simulate_new_candles", "_simulate_price_change_effect"):
                return "time"
        return "loop:" + it[:30]
    if it == "candles":
        return "sym"
    if "router.routes" in it:
        return "routes"
    if "considering_timeframes" in it:
        return "tf"
    if "all_formatted_routes" in it:
        return "allroutes"
    return "loop:" + it[:30]


def recursion_wrappers(mod):
    """prune function for the tracer: an `if` inside function f whose body calls f again and ends in `return`, with no
    else branch, is a recursion wrapper (f re-entered piecewise - e.g. a chunk replayed minute by minute); the traces of
    f are those of the base case, so only the fall-through is walked.  What the pieces are is decided by the rules
    that interpret the function (C02-R7), not by the trace rules."""
    wrappers = set()
    for fn in ast.walk(mod.tree):
        if not isinstance(fn, (ast.FunctionDef, ast.AsyncFunctionDef)):
            continue
        for n in ast.walk(fn):
            if isinstance(n, ast.If) and not n.orelse and n.body and isinstance(n.body[-1], ast.Return) \
                    and any(isinstance(c, ast.Call) and dotted(c.func) == fn.name for b in n.body for c in ast.walk(b)):
                wrappers.add(id(n))
    return lambda node: False if id(node) in wrappers else None


def sim_view(repo: Repo, sim: str, want: Set[str], guards: Callable[[ast.AST], Optional[str]] = None,
             stores: Callable[[str], Optional[str]] = None, unroll: int = 1):
    """Return dict(pre=[...], iters=[...], post=[...]) of event tuples.
    want: set of callee last-names to observe.  Events are ('call', lastname, call_node)."""
    mod = repo.module(BT)
    fn = repo.func(BT, sim)

    def call(label, node):
        ln = last(label)
        if ln in want:
            return ("call", ln, CallRef(node))
        return None

    def store(label, node):
        if stores:
            r = stores(label)
            if r:
                return ("store", r)
        return None

    inl = make_inliner(repo, lambda label: "." not in label.rstrip("()") and last(label) not in LEAVES and last(label) not in want)
    cfg = Cfg(call=call, store=store, guard=guards or (lambda t: None), inline=inl, loop=loop_id, max_depth=4,
              loop_unroll=unroll, prune=recursion_wrappers(mod))
    tr = Tracer(repo, cfg)
    paths = tr.block(fn.body, (mod, None), 0)
    pre: Set[Tuple] = set()
    iters: Set[Tuple] = set()
    post: Set[Tuple] = set()
    seen_loop = False
    for evs, ex in paths:
        if ex == RAISE:
            continue
        # split on the time loop marks
        idx = [i for i, e in enumerate(evs) if e in (("loop", "time"), ("endloop", "time"))]
        if len(idx) < 2:
            continue
        seen_loop = True
        a, b = idx[0], idx[-1]
        pre.add(evs[:a])
        post.add(evs[b + 1:])
        inner = evs[a + 1:b]
        cur: List = []
        started = False
        for e in inner:
            if e == ("iter", "time"):
                if started:
                    iters.add(tuple(cur))
                cur = []
                started = True
            elif started:
                cur.append(e)
        if started:
            iters.add(tuple(cur))
    if not seen_loop:
        raise AnalysisError(f"{BT}:{sim}: time loop (for ... in range(...)) not found")
    return {"pre": sorted(pre, key=repr), "iters": sorted(iters, key=repr), "post": sorted(post, key=repr)}


class CallRef:
    """Wrapper so that call nodes compare by callee+argument text (stable across runs)."""

    def __init__(self, node):
        self.node = node
        self.text = norm(node)

    def __eq__(self, o):
        return isinstance(o, CallRef) and self.text == o.text

    def __hash__(self):
        return hash(self.text)

    def __repr__(self):
        return self.text


def names(evs) -> List[str]:
    out = []
    for e in evs:
        if e[0] == "call":
            out.append(e[1])
        elif e[0] == "guard":
            out.append(f"[{e[1]}={e[2]}]")
        elif e[0] in ("iter", "loop", "endloop"):
            out.append(f"<{e[0]}:{e[1]}>")
        elif e[0] == "store":
            out.append(f"store:{e[1]}")
    return out


def segments(evs, lid: str) -> List[Tuple]:
    """Split an event tuple into the iterations of nested loop `lid`."""
    out = []
    cur = None
    for e in evs:
        if e == ("iter", lid):
            if cur is not None:
                out.append(tuple(cur))
            cur = []
        elif e == ("endloop", lid):
            if cur is not None:
                out.append(tuple(cur))
            cur = None
        elif cur is not None:
            cur.append(e)
    if cur is not None:
        out.append(tuple(cur))
    return out
