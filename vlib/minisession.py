"""Engine E9: a whole simulator function interpreted abstractly on a tiny session, with its effects recorded.

`run(repo, sim, symbols, minutes, timeframe, step=None)` calls `_step_simulator` / `_skip_simulator` itself (not a loop found by
name, not a hand-made frame) in the abstract interpreter with

  * the input: a candles dict for `symbols`, `minutes` rows each, every cell a distinct atom (timestamps are concrete);
  * the matcher (`_simulate_price_change_effect*`) replaced by a recorder;
  * the order store, the routes' strategies, the daily-balance sampler and the gap normalisation replaced by recorders;
  * session bookkeeping (progress bar, route preparation, report generation, wall clock) replaced by no-ops.

Everything else - the time loop, the per-symbol loop, helper functions, the chunk arithmetic, the multi-symbol replay - is the
repository's code, interpreted statement by statement.  The result is the event list

    ('match', symbol, first minute, number of minutes, rows)   rows = the candle(s) handed to the matcher
    ('fix', symbol, prev row, cur row)                         a gap normalisation (its result is a tagged row)
    ('add', symbol, timeframe, row)                            store.candles.add_candle
    ('gen', symbol, timeframe, first minute, n)                generate_candle_from_one_minutes on a slice of the input
    ('exec', symbol) / ('terminate', symbol)                   strategy execution
    ('prune', symbol)                                          store.orders.update_active_orders
    ('flush',)                                                 store.orders.execute_pending_market_orders
    ('sample', initial?)                                       save_daily_portfolio_balance
    ('time', value)                                            store.app.time assignment

Rules over these events do not depend on how the simulator is cut into helpers or how its variables are called.
"""
from __future__ import annotations

from fractions import Fraction
from typing import Dict, List, Tuple

from .loader import Repo, AnalysisError
from .absint import Interp, Obj, Arr, Arr2, FuncV, NotInFragment, Unknown, BoundBuiltin, _Raise, NeedDecision
from .poly import R
from . import world as W

BT = "jesse/modes/backtest_mode.py"
MINUTE = 60_000
T0 = 1_600_000_020_000 // (1440 * MINUTE) * (1440 * MINUTE)


def num(x) -> R:
    return R.const(Fraction(x))


def make_candles(symbols, n, light=False):
    out = {}
    for s in symbols:
        tag = s.split("-")[0].lower()
        if light:
            cells = [R.atom(f"{tag}.{x}") for x in "ochlv"]
            rows = Arr2([Arr([num(T0 + k * MINUTE)] + cells) for k in range(n)])
        else:
            rows = Arr2([Arr([num(T0 + k * MINUTE)] + [R.atom(f"{tag}.{x}{k}") for x in "ochlv"]) for k in range(n)])
        out[f"Sandbox-{s}"] = {"exchange": "Sandbox", "symbol": s, "candles": rows}
    return out


def minute_of(row) -> int:
    t = row.items[0]
    if isinstance(t, R) and t.is_const():
        return int((t.const_value() - T0) // MINUTE)
    raise AnalysisError(f"candle row without a concrete timestamp: {row!r}")


def origin(row):
    """(symbol tag, minute, 'raw' | 'fixed', (previous tag, previous minute) | None) of a candle row built by make_candles / the
    gap-normalisation recorder; None for anything else"""
    import re
    if not isinstance(row, Arr) or len(row.items) < 6:
        return None
    names = []
    for x in row.items[1:6]:
        at = sorted(map(str, x.atoms())) if isinstance(x, R) else []
        names.append(at[0] if len(at) == 1 and x.same(R.atom(at[0])) else None)
    if any(n is None for n in names):
        return None
    m = [re.fullmatch(r"([a-z]+)\.([ochlv])(\d+)", n) for n in names]
    if all(m) and len({(x.group(1), x.group(3)) for x in m}) == 1 and "".join(x.group(2) for x in m) == "ochlv":
        return (m[0].group(1), int(m[0].group(3)), "raw", None)
    f = [re.fullmatch(r"fix<([a-z]+)\.(\d+)\|([a-z]+)\.(\d+)>\.([ochlv])", n) for n in names]
    if all(f) and len({x.groups()[:4] for x in f}) == 1 and "".join(x.group(5) for x in f) == "ochlv":
        g = f[0]
        return (g.group(1), int(g.group(2)), "fixed", (g.group(3), int(g.group(4))))
    return None


class Session:
    def __init__(self, events, candles):
        self.events, self.candles = events, candles


def run(repo: Repo, sim: str, symbols=("AAA-USDT", "BBB-USDT"), minutes=6, timeframe="3m", step=None, data_symbols=(), light=False) -> Session:
    """light=True: long sessions for rules about WHEN things happen (sampling): the candle cells are not distinguished and the gap
    normalisation is the identity"""
    # the functions that are replaced by recorders are the anchors of this engine: if one of them is gone (renamed, merged into its
    # caller) the session cannot be observed - an analysis error, never a verdict
    for anchor in (sim, "_simulate_price_change_effect" if sim == "_step_simulator" else "_simulate_price_change_effect_multiple_candles", "_get_fixed_jumped_candle"):
        if not repo.has_func(BT, anchor):
            raise AnalysisError(f"{BT}: anchor function {anchor} not found")
    if not repo.has_func("jesse/services/candle.py", "generate_candle_from_one_minutes") or not repo.has_func("jesse/modes/utils.py", "save_daily_portfolio_balance"):
        raise AnalysisError("anchor function generate_candle_from_one_minutes / save_daily_portfolio_balance not found")
    events: List[Tuple] = []
    app_box: List = []
    candles = make_candles(tuple(symbols) + tuple(data_symbols), minutes, light)
    stubs = W.base_stubs()
    fast = sim == "_skip_simulator"

    def clock():
        """the simulated clock (store.app.time) in minutes after the session start, if it is a concrete number"""
        t = app_box[0].attrs.get("time") if app_box else None
        if isinstance(t, R) and t.is_const():
            return (t.const_value() - T0) / MINUTE
        return None

    def rec_match(it, a, k):
        c, sym = a[0], a[2]
        if isinstance(c, Arr2):
            rows = list(c.rows)
        elif isinstance(c, Arr):
            rows = [c]
        else:
            raise AnalysisError(f"{sim}: the matcher is called with {c!r}")
        events.append(("match", sym, minute_of(rows[0]), len(rows), None if light else rows, clock()))
        for r in rows:                   # the real matcher stores the 1m candles it was given
            put(sym, "1m", r)
    for nm in ("_simulate_price_change_effect", "_simulate_price_change_effect_multiple_candles"):
        stubs[f"{BT}:{nm}"] = rec_match

    def rec_fix(it, a, k):
        prev, cur = a[0], a[1]
        if light:
            return cur
        po, co = origin(prev), origin(cur)
        events.append(("fix", po, co))
        # the normalised candle keeps the timestamp (so later events can be attributed to a minute); its cells are fresh atoms
        # whose names carry where it comes from
        # like the real function the recorder edits the candle it was given IN PLACE and returns it: whoever holds a view of
        # that row (the input array, a slice of it) sees the normalised candle
        cur.items[1:6] = [R.atom(f"fix<{co[0]}.{co[1]}|{po[0]}.{po[1]}>.{x}") for x in "ochlv"]
        return cur
    stubs[f"{BT}:_get_fixed_jumped_candle"] = rec_fix
    stubs[f"{BT}:_prepare_times_before_simulation"] = lambda it, a, k: events.append(("prepare", "times"))
    stubs[f"{BT}:_prepare_routes"] = lambda it, a, k: events.append(("prepare", "routes"))
    stubs[f"{BT}:_update_progress_bar"] = lambda it, a, k: None
    stubs[f"{BT}:_finish_progress_bar"] = lambda it, a, k: None
    stubs[f"{BT}:_generate_outputs"] = lambda it, a, k: {}
    stubs[f"{BT}:_simulation_minutes_length"] = lambda it, a, k: num(minutes)
    stubs["jesse/modes/utils.py:save_daily_portfolio_balance"] = lambda it, a, k: events.append(("sample", bool(k.get("is_initial", a[0] if a else False))))
    stubs["jesse/services/progressbar.py:Progressbar"] = lambda it, a, k: Obj("Progressbar", name="progressbar", attrs={}, open_world=True)
    if step is not None:
        stubs[f"{BT}:_calculate_minimum_candle_step"] = lambda it, a, k: num(step)

    def rec_gen(it, a, k):
        tf, sl = a[0], a[1]
        rows = list(sl.rows) if isinstance(sl, Arr2) else None
        if rows is None:
            raise AnalysisError(f"{sim}: generate_candle_from_one_minutes is called with {sl!r}")
        events.append(("gen", tf, minute_of(rows[0]) if rows else None, len(rows), None if light else rows))
        o0 = origin(rows[0]) if rows and not light else None
        return Arr([rows[0].items[0] if rows else num(0)] + [R.atom(f"gen<{tf}|{o0[0] if o0 else '?'}.{minute_of(rows[0]) if rows else 'x'}+{len(rows)}>.{x}") for x in "ochlv"])
    stubs["jesse/services/candle.py:generate_candle_from_one_minutes"] = rec_gen

    import math

    def gcd_reduce(it, args, kw):
        g = 0
        for x in it.iterate(args[0]):
            g = math.gcd(g, int(x.const_value()))
        return num(g)
    it = Interp(repo, stubs=stubs, ext_stubs={"time.time": lambda i, a, k: num(0), "numpy.gcd.reduce": gcd_reduce})
    # `timeframe` is one label for every route, or a tuple with one label per symbol (trading symbols first, then data symbols)
    allsyms = tuple(symbols) + tuple(data_symbols)
    tf_of = {s: (timeframe if isinstance(timeframe, str) else timeframe[k]) for k, s in enumerate(allsyms)}
    considering = ("1m",) + tuple(sorted({t for t in tf_of.values() if t != "1m"}))
    it.overrides["jesse/config.py:config"] = {"app": {"considering_timeframes": considering, "debug_mode": False,
                                                      "considering_candles": tuple(("Sandbox", s) for s in tuple(symbols) + tuple(data_symbols))}, "env": {}}
    cs = Obj("CandlesState", name="store.candles", attrs={}, open_world=True)
    stored: Dict[Tuple, List] = {}

    index: Dict[Tuple, Dict] = {}

    def put(sym, tf, row):
        rows = stored.setdefault((sym, tf), [])
        pos = index.setdefault((sym, tf), {})
        ts = row.items[0]
        key = ts.const_value() if isinstance(ts, R) and ts.is_const() else id(row)
        if key in pos:
            rows[pos[key]] = row
            return
        pos[key] = len(rows)
        rows.append(row)

    def add_candle(i, a, k):
        events.append(("add", a[2], a[3], a[0]))
        if isinstance(a[0], Arr):
            put(a[2], a[3], a[0])
    W.bind(cs, "add_candle", add_candle)
    W.bind(cs, "get_storage", lambda i, a, k: list(stored.get((a[1], a[2]), [])))
    W.bind(cs, "get_candles", lambda i, a, k: Arr2(list(stored.get((a[1], a[2]), []))))
    W.bind(cs, "get_current_candle", lambda i, a, k: (stored.get((a[1], a[2])) or [Unknown("candle")])[-1])
    so = Obj("OrdersState", name="store.orders", attrs={}, open_world=True)
    W.bind(so, "update_active_orders", lambda i, a, k: events.append(("prune", a[1])))
    W.bind(so, "execute_pending_market_orders", lambda i, a, k: events.append(("flush",)))

    class AppObj(Obj):
        pass
    app = Obj("AppState", name="store.app", attrs={"time": num(T0)}, open_world=True)
    app_box.append(app)
    it.overrides[f"{W.STORE}:store"] = Obj("StoreClass", name="store", attrs={"candles": cs, "orders": so, "app": app}, open_world=True)
    routes = []
    for s in symbols:
        strat = Obj("Strategy", name=f"strategy-{s}", attrs={}, open_world=True)
        W.bind(strat, "_execute", lambda i, a, k, s=s: events.append(("exec", s)))
        W.bind(strat, "_terminate", lambda i, a, k, s=s: events.append(("terminate", s)))
        routes.append(Obj("Route", name=f"route-{s}", attrs={"exchange": "Sandbox", "symbol": s, "timeframe": tf_of[s], "strategy": strat}, open_world=True))
    fr = [{"exchange": "Sandbox", "symbol": s, "timeframe": tf_of[s]} for s in symbols]
    fd = [{"exchange": "Sandbox", "symbol": s, "timeframe": tf_of[s]} for s in data_symbols]
    it.overrides["jesse/routes/__init__.py:router"] = Obj("RouterClass", name="router", attrs={
        "routes": routes, "formatted_routes": fr, "formatted_data_routes": fd, "all_formatted_routes": fr + fd}, open_world=True)
    fn = repo.func(BT, sim)
    try:
        it.call(FuncV(fn, repo.module(BT), qual=sim), [candles, True], {})
    except (NotInFragment, NeedDecision) as e:
        raise AnalysisError(f"{sim}: not interpretable on the mini session: {e}")
    except _Raise as e:
        events.append(("raise", repr(getattr(e, "exc", None) or (e.args[0] if e.args else e))))
    # clock writes are part of the observable protocol: read them from the app object's history if the interpreter kept one
    return Session(events, candles)
