"""Abstract execution of the backtest matching loop (shared by C02, C05, C08, C09, C12).

The functions `_simulate_price_change_effect`, `_get_executing_orders`,
`_sort_execution_orders`, `candle_includes_price`, `split_candle`, `Order.execute`,
`Order.cancel` and the Order status properties are interpreted from /repo's source.
The store, exchange ledgers, the position hook and candle storage are abstract
objects that log events.  Prices are symbols; each run fixes one weak ordering of
all symbols (one cell of the order domain), so every comparison is decided.
"""
from __future__ import annotations

from fractions import Fraction
from typing import Callable, Dict, List, Optional, Tuple

from .absint import (Interp, Obj, Arr, Arr2, Unknown, FuncV, explore, num, R, NAN, ExcV, Outcome)
from .loader import Repo, AnalysisError
from . import world as W

KEY = "Sandbox-BTC-USDT"


class SimCase:
    """One abstract case: candle symbols, resting orders, optional reaction order."""

    def __init__(self, order_prices: List[str], reaction: Optional[Tuple[int, str]] = None,
                 inactive: Optional[List[int]] = None, extra_cons=(), replaces: Optional[int] = None):
        self.replaces = replaces                  # index of a resting order that the reaction CANCELS before it submits (one-for-one replacement)
        self.extra_cons = list(extra_cons)  # additional ordering constraints (symmetry breaking)
        self.order_prices = order_prices          # atom names of resting order prices
        self.reaction = reaction                  # (index of fill that triggers it, atom name of its price)
        self.inactive = inactive or []            # indices of resting orders that are already cancelled


def build(repo: Repo, case: SimCase, samples: List[Dict[str, Fraction]], decisions: List[bool],
          real_liquidation: bool = False, position: Obj = None, extra_stubs: dict = None):
    stubs = W.base_stubs("backtest")
    st_active = W.enum_value(repo, "order_statuses", "ACTIVE")
    st_canceled = W.enum_value(repo, "order_statuses", "CANCELED")
    buy = W.enum_value(repo, "sides", "BUY")
    limit = W.enum_value(repo, "order_types", "LIMIT")

    orders = []
    for i, p in enumerate(case.order_prices):
        o = W.make_order(repo, f"O{i}", buy, limit, R.atom(f"q{i}"), R.atom(p),
                         status=st_canceled if i in case.inactive else st_active)
        orders.append(o)

    orders_state = Obj("OrdersState", repo.module("jesse/store/state_orders.py"),
                       repo.cls("jesse/store/state_orders.py", "OrdersState"), name="store.orders",
                       attrs={"storage": {KEY: list(orders)}, "active_storage": {KEY: list(orders)}, "to_execute": []})
    candles_state = Obj("CandlesState", name="store.candles")
    trades_state = Obj("ClosedTrades", name="store.completed_trades")
    app = Obj("AppState", name="store.app", attrs={"time": R.atom("now"), "total_liquidations": num(0)})
    store = Obj("StoreClass", name="store", attrs={"orders": orders_state, "candles": candles_state,
                                                   "completed_trades": trades_state, "app": app}, open_world=True)
    if position is None:
        position = Obj("Position", name="position", attrs={"current_price": R.atom("cp0"), "mode": "cross",
                                                          "qty": num(0), "strategy": None}, open_world=True)
    exchange = Obj("Exchange", name="exchange", attrs={"type": "futures"}, open_world=True)

    fills: List[Obj] = []

    def add_candle(it, a, k):
        c = a[0]
        it.event("add_candle", tuple(c.items) if isinstance(c, Arr) else c, a[3] if len(a) > 3 else k.get("timeframe"))

    def add_multiple(it, a, k):
        it.event("add_multiple_1m", a[0])

    W.bind(candles_state, "add_candle", add_candle)
    W.bind(candles_state, "add_multiple_1m_candles", add_multiple)
    W.bind(trades_state, "add_executed_order", lambda it, a, k: it.event("trade_record", a[0].name))
    W.bind(exchange, "on_order_execution", lambda it, a, k: it.event("exch_exec", a[0].name))
    W.bind(exchange, "on_order_cancellation", lambda it, a, k: it.event("exch_cancel", a[0].name))
    W.bind(exchange, "on_order_submission", lambda it, a, k: it.event("exch_submit", a[0].name))

    def on_executed(it, a, k):
        o = a[0]
        fills.append(o)
        it.event("fill", o.name, position.attrs.get("current_price"), o.attrs["price"])
        if case.reaction is not None and len(fills) - 1 == case.reaction[0]:
            names = case.reaction[1] if isinstance(case.reaction[1], (list, tuple)) else [case.reaction[1]]
            if case.replaces is not None and orders[case.replaces] is not o:
                # a trailing exit: the hook cancels one resting order (the repository's Order.cancel) and submits its replacement
                it.call(it.getattr(orders[case.replaces], "cancel"), [], {})
                it.event("reaction_cancelled", orders[case.replaces].name)
            for j, rn in enumerate(names):
                ro = W.make_order(repo, "REACT" if j == 0 else f"REACT{j + 1}", buy, limit, R.atom("qr"), R.atom(rn), status=st_active)
                # what Sandbox.limit_order -> store.orders.add_order does
                it.call(it.getattr(orders_state, "add_order"), [ro], {})
                it.event("reaction_submitted", ro.name)

    if not real_liquidation:
        W.bind(position, "_on_executed_order", on_executed)

    stubs[f"{W.SELECTORS}:get_position"] = lambda it, a, k: position
    stubs[f"{W.SELECTORS}:get_exchange"] = lambda it, a, k: exchange
    stubs[f"{W.BT}:_update_all_routes_a_partial_candle"] = \
        lambda it, a, k: it.event("partial", tuple(a[2].items))
    if not real_liquidation:
        stubs[f"{W.BT}:_check_for_liquidations"] = lambda it, a, k: it.event("liqcheck", tuple(a[0].items))
    if extra_stubs:
        stubs.update(extra_stubs)
    overrides = {f"{W.STORE}:store": store}
    it = Interp(repo, stubs=stubs, overrides=overrides, samples=[dict(s) for s in samples], decisions=decisions)
    it.world = {"orders": orders, "store": store, "position": position, "exchange": exchange, "fills": fills,
                "orders_state": orders_state}
    return it


def run_match_loop(repo: Repo, case: SimCase, samples, fast: bool = False) -> List[Outcome]:
    """fast=True: the fast simulator's chunk matcher on a chunk of exactly this one candle (a 1m route in fast mode)"""
    mod = repo.module(W.BT)
    name = "_simulate_price_change_effect_multiple_candles" if fast else "_simulate_price_change_effect"
    fn = repo.func(W.BT, name)

    def mk(dec):
        it = build(repo, case, samples, dec)
        if fast:
            it.stubs[f"{W.HELPERS}:is_backtesting"] = lambda i, a, k: True
        return it, lambda it: it.call(FuncV(fn, mod, qual=name), [Arr2([W.candle()]) if fast else W.candle(), "Sandbox", "BTC-USDT"], {})
    return explore(mk, max_paths=64)


# ------------------------------------------------------------------ reference path model
def path_segments(o, c, h, l):
    """Continuous intra-minute price path: rising/flat candle O->L->H->C, falling O->H->L->C."""
    if c >= o:
        pts = [o, l, h, c]
    else:
        pts = [o, h, l, c]
    return [(pts[i], pts[i + 1]) for i in range(3)]


def first_position(segs, price, start=(0, Fraction(0))):
    """First position (segment index, distance travelled inside it) at or after `start` where the
    path is at `price`; None if the remaining path never reaches it."""
    s0, d0 = start
    for si in range(s0, 3):
        a, b = segs[si]
        lo, hi = min(a, b), max(a, b)
        if not (lo <= price <= hi):
            continue
        d = abs(price - a)
        if si == s0 and d < d0:
            continue
        return (si, d)
    return None
