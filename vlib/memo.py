"""Engine E12: invalidation completeness of object-level memos.

A memo field of a class is an attribute that a method assigns under a guard on that very attribute

    if self._x is None:            self._x = f(self.a, self.b ...)
    if key not in self._cache:     self._cache[key] = f(...)
    if self._memo['key'] != key:   self._memo['value'] = f(...); self._memo['key'] = key

Its value is a function of what the computing code READS: the attributes of `self` read in the guarded block and in the rest of
the computing method, followed through the properties and methods of the class that are called on `self` (transitively).  The
memo is sound only if every method of the class that WRITES one of those attributes (assignment, augmented assignment, subscript
store, mutating call) also invalidates the memo (assigns it, clears / pops it) - or if the guard's key covers the attribute (the
guard or the key expression mentions it, or a property that reads it).

Findings are (class, memo field, writer method, attribute): the writer changes what the memo was computed from and leaves the
memo in place.  The analysis is per class (attributes of other objects reached through `self.x.y` are not followed: those
are reported as 'foreign reads' in the evidence, not as findings)."""
from __future__ import annotations

import ast
from typing import Dict, List, Set, Tuple

MUTATORS = {"append", "extend", "insert", "pop", "remove", "clear", "update", "setdefault", "add", "discard", "popitem", "delete", "append_multiple", "flush", "sort", "reverse"}


def _self_attr(n, me, owned: bool = False):
    """name of the attribute of self at the base of an expression (self.a, self.a[k], self.a.b -> 'a').  owned=True: only what
    belongs to self - self.a and the CONTENT of self.a (self.a[k], self.a[k][j]); self.a.b is a field of another object"""
    while isinstance(n, (ast.Subscript, ast.Attribute)):
        if isinstance(n, ast.Attribute) and isinstance(n.value, ast.Name) and n.value.id == me:
            return n.attr
        if owned and isinstance(n, ast.Attribute):
            return None
        n = n.value
    return None


class ClassMemos:
    def __init__(self, cls: ast.ClassDef):
        self.cls = cls
        self.methods: Dict[str, ast.FunctionDef] = {f.name: f for f in cls.body if isinstance(f, ast.FunctionDef)}
        self._reads: Dict[str, Set[str]] = {}

    @staticmethod
    def me(f):
        return f.args.args[0].arg if f.args.args else "self"

    # ---------------------------------------------------------------- reads / writes
    def reads(self, name: str, stack=()) -> Set[str]:
        """attributes of self read by method / property `name`, transitively through self.<method>() and self.<property>"""
        if name in self._reads:
            return self._reads[name]
        if name in stack or name not in self.methods:
            return set()
        f = self.methods[name]
        me = self.me(f)
        out: Set[str] = set()
        for n in ast.walk(f):
            if isinstance(n, ast.Attribute) and isinstance(n.value, ast.Name) and n.value.id == me and isinstance(n.ctx, ast.Load):
                if n.attr in self.methods:
                    out |= self.reads(n.attr, stack + (name,))
                else:
                    out.add(n.attr)
        self._reads[name] = out
        return out

    def writes(self, f: ast.FunctionDef) -> Dict[str, ast.AST]:
        """attributes of self that the method writes DIRECTLY (assignment / augmented assignment / subscript store / mutating call)"""
        me = self.me(f)
        out: Dict[str, ast.AST] = {}
        for n in ast.walk(f):
            tgts = n.targets if isinstance(n, ast.Assign) else [n.target] if isinstance(n, (ast.AugAssign, ast.AnnAssign)) else []
            for t in tgts:
                for tt in (t.elts if isinstance(t, (ast.Tuple, ast.List)) else [t]):
                    a = _self_attr(tt, me, owned=True)
                    if a is not None:
                        out.setdefault(a, n)
            if isinstance(n, ast.Call) and isinstance(n.func, ast.Attribute) and n.func.attr in MUTATORS:
                a = _self_attr(n.func.value, me, owned=True)
                if a is not None and not (isinstance(n.func.value, ast.Name)):
                    out.setdefault(a, n)
            if isinstance(n, ast.Delete):
                for t in n.targets:
                    a = _self_attr(t, me, owned=True)
                    if a is not None:
                        out.setdefault(a, n)
        return out

    def writes_transitive(self, name: str, stack=()) -> Set[str]:
        if name in stack or name not in self.methods:
            return set()
        f = self.methods[name]
        me = self.me(f)
        out = set(self.writes(f))
        for n in ast.walk(f):
            if isinstance(n, ast.Call) and isinstance(n.func, ast.Attribute) and isinstance(n.func.value, ast.Name) and n.func.value.id == me and n.func.attr in self.methods:
                out |= self.writes_transitive(n.func.attr, stack + (name,))
        return out

    # ---------------------------------------------------------------- memo sites
    def _expand(self, attrs: Set[str]) -> Set[str]:
        out = set()
        for a in attrs:
            out |= self.reads(a) if a in self.methods else {a}
        return out

    def _whole_attrs(self, e, me, local_defs, depth=0) -> Set[str]:
        """attributes of self that appear WHOLE in a key / guard expression: bare (self.a, self.prop) as an operand of a comparison or
        an element of a tuple - not projected through len(), a subscript, a call"""
        out: Set[str] = set()
        if isinstance(e, ast.Attribute) and isinstance(e.value, ast.Name) and e.value.id == me:
            return {e.attr}
        if isinstance(e, ast.Name) and e.id in local_defs and depth < 3:
            return self._whole_attrs(local_defs[e.id], me, local_defs, depth + 1)
        if isinstance(e, (ast.Tuple, ast.List)):
            for x in e.elts:
                out |= self._whole_attrs(x, me, local_defs, depth)
        elif isinstance(e, ast.Compare):
            for x in [e.left] + list(e.comparators):
                out |= self._whole_attrs(x, me, local_defs, depth)
        elif isinstance(e, ast.BoolOp):
            for x in e.values:
                out |= self._whole_attrs(x, me, local_defs, depth)
        elif isinstance(e, ast.UnaryOp):
            out |= self._whole_attrs(e.operand, me, local_defs, depth)
        return out

    def memo_sites(self) -> List[Tuple[str, str, Set[str], Set[str]]]:
        """(method, memo field, dependencies, attributes covered by the guard / key)"""
        sites = []
        for name, f in self.methods.items():
            if name in ("__init__", "reset", "flush", "_reset"):
                continue
            me = self.me(f)
            local_defs: Dict[str, ast.AST] = {}
            alias: Dict[str, str] = {}            # local name -> memo field it was fetched from (v = self.X.get(k) / self.X[k])
            for x in ast.walk(f):
                if isinstance(x, ast.Assign) and len(x.targets) == 1 and isinstance(x.targets[0], ast.Name):
                    local_defs.setdefault(x.targets[0].id, x.value)
                    v = x.value
                    if isinstance(v, ast.Call) and isinstance(v.func, ast.Attribute) and v.func.attr == "get":
                        a = _self_attr(v.func.value, me, owned=True)
                        if a is not None:
                            alias[x.targets[0].id] = a
                    elif isinstance(v, ast.Subscript):
                        a = _self_attr(v, me, owned=True)
                        if a is not None and a not in self.methods:
                            alias.setdefault(x.targets[0].id, a)
            for n in ast.walk(f):
                if not isinstance(n, ast.If):
                    continue
                guard_fields = {a.attr for a in ast.walk(n.test) if isinstance(a, ast.Attribute) and isinstance(a.value, ast.Name) and a.value.id == me}
                guard_fields |= {alias[y.id] for y in ast.walk(n.test) if isinstance(y, ast.Name) and y.id in alias}
                assigned_in_body = set()
                for b in n.body:
                    for x in ast.walk(b):
                        tgts = x.targets if isinstance(x, ast.Assign) else [x.target] if isinstance(x, (ast.AugAssign, ast.AnnAssign)) else []
                        for t in tgts:
                            a = _self_attr(t, me, owned=True)
                            if a is not None:
                                assigned_in_body.add(a)
                tst = ast.dump(n.test)
                if not any(k in tst for k in ("Is()", "NotIn()", "NotEq()", "Not()", "IsNot()")):
                    continue
                for field in sorted(guard_fields & assigned_in_body):
                    if field in self.methods or not self._is_served(f, field, me, alias):
                        continue
                    # dependencies: what the guarded computation reads, through the class's own properties / methods
                    deps: Set[str] = set()
                    for b in n.body:
                        for x in ast.walk(b):
                            if isinstance(x, ast.Attribute) and isinstance(x.value, ast.Name) and x.value.id == me and isinstance(x.ctx, ast.Load) and x.attr != field:
                                deps |= self._expand({x.attr})
                            if isinstance(x, ast.Name) and x.id in local_defs and x.id not in alias:
                                for y in ast.walk(local_defs[x.id]):
                                    if isinstance(y, ast.Attribute) and isinstance(y.value, ast.Name) and y.value.id == me and y.attr != field:
                                        deps |= self._expand({y.attr})
                    deps.discard(field)
                    covered = self._expand(self._whole_attrs(n.test, me, local_defs) - {field})
                    # a key stored next to the value: self.X[key] = ..  /  self.X = (key.., value)
                    for b in n.body:
                        for x in ast.walk(b):
                            if isinstance(x, ast.Assign):
                                for t in x.targets:
                                    if _self_attr(t, me, owned=True) == field and isinstance(t, ast.Subscript):
                                        covered |= self._expand(self._whole_attrs(t.slice, me, local_defs))
                    sites.append((name, field, deps, covered))
        # derived fields: every assignment (outside __init__) computes the field from other attributes of self alone (no
        # parameter, no call with arguments other than len()), and another method reads it
        assigned: Dict[str, List[Tuple[str, ast.AST]]] = {}
        for name, f in self.methods.items():
            me = self.me(f)
            params = {a.arg for a in f.args.args[1:]} | {a.arg for a in f.args.kwonlyargs}
            for x in ast.walk(f):
                if isinstance(x, ast.Assign) and len(x.targets) == 1:
                    t = x.targets[0]
                    if isinstance(t, ast.Attribute) and isinstance(t.value, ast.Name) and t.value.id == me:
                        assigned.setdefault(t.attr, []).append((name, x.value, params))
                elif isinstance(x, (ast.AugAssign,)) and isinstance(x.target, ast.Attribute) and isinstance(x.target.value, ast.Name) and x.target.value.id == me:
                    assigned.setdefault(x.target.attr, []).append((name, None, params))
        guarded = {s_[1] for s_ in sites}
        for field, occ in assigned.items():
            if field in guarded:
                continue
            outside = [(m, v, ps) for m, v, ps in occ if m != "__init__"]
            if not outside or any(v is None for m, v, ps in outside):
                continue
            deps: Set[str] = set()
            ok = True
            for m, v, ps in outside:
                me = self.me(self.methods[m])
                names = {y.id for y in ast.walk(v) if isinstance(y, ast.Name)} - {me, "len", "int", "float", "max", "min", "abs"}
                attrs = {y.attr for y in ast.walk(v) if isinstance(y, ast.Attribute) and isinstance(y.value, ast.Name) and y.value.id == me}
                if names or not attrs or field in attrs or any(isinstance(y, ast.Call) and not (isinstance(y.func, ast.Name) and y.func.id in ("len", "int", "float", "max", "min", "abs")) for y in ast.walk(v)):
                    ok = False
                    break
                deps |= self._expand(attrs)
            if not ok or not deps:
                continue
            readers = [m for m, f in self.methods.items() if m != "__init__" and any(
                isinstance(y, ast.Attribute) and isinstance(y.value, ast.Name) and y.value.id == self.me(f) and y.attr == field and isinstance(y.ctx, ast.Load) for y in ast.walk(f))]
            if readers:
                sites.append((outside[0][0], field, deps, set()))
        return sites

    @staticmethod
    def _is_served(f, field, me, alias=None) -> bool:
        alias = alias or {}
        for x in ast.walk(f):
            if isinstance(x, ast.Return) and x.value is not None:
                for a in ast.walk(x.value):
                    if isinstance(a, ast.Attribute) and isinstance(a.value, ast.Name) and a.value.id == me and a.attr == field:
                        return True
                    if isinstance(a, ast.Name) and alias.get(a.id) == field:
                        return True
        return False

    # ---------------------------------------------------------------- the rule
    def findings(self):
        out = []
        for method, field, deps, covered in self.memo_sites():
            open_deps = deps - covered
            for wname, wf in self.methods.items():
                if wname in ("__init__",) or wname == method:
                    continue
                w = self.writes(wf)
                hit = sorted(set(w) & open_deps)
                if not hit:
                    continue
                # does the writer (directly, or through the methods it calls on self) also write the memo field?
                if field in self.writes_transitive(wname):
                    continue
                out.append((self.cls.name, field, method, wname, hit[0]))
        return out


def analyse_class(cls: ast.ClassDef):
    cm = ClassMemos(cls)
    return cm.memo_sites(), cm.findings()


PROBE = '''
class Probe:
    def __init__(self):
        self.a = 1
        self.b = 2
        self._sum = None
        self._keyed = None

    @property
    def total(self):
        if self._sum is None:
            self._sum = self.a + self.b
        return self._sum

    @property
    def keyed(self):
        if self._keyed is None or self._keyed[0] != self.a:
            self._keyed = (self.a, self.a * 2)
        return self._keyed[1]

    def set_a(self, v):
        self.a = v
        self._sum = None

    def set_b(self, v):
        self.b = v
'''


def check(repo, rep, rid: str, classes, what: str):
    """rule: no method of the named classes changes what an object-level memo (or derived field) was computed from without
    invalidating / refreshing it.  The engine first decides a probe class (one complete, one incomplete, one keyed memo)."""
    from .loader import AnalysisError
    rep.rule(rid, f"invalidation completeness of object-level memos and derived fields ({what}): an attribute assigned under a guard on itself (or "
                  "fetched from a dict of the object and stored back), or computed from other attributes alone, depends on the attributes "
                  "its computation reads (through the class's own properties); every method that writes one of them must also write "
                  "the memo, unless the guard / key holds that attribute whole")
    probe = [n for n in ast.parse(PROBE).body if isinstance(n, ast.ClassDef)][0]
    sites, finds = analyse_class(probe)
    if {(f[1], f[3]) for f in finds} != {("_sum", "set_b")} or {s[1] for s in sites} != {"_sum", "_keyed"}:
        raise AnalysisError(f"memo analysis does not decide its own probe any more: sites {[(s[0], s[1]) for s in sites]}, findings {finds}")
    n_cls = 0
    for rel, cname in classes:
        cls = repo.cls(rel, cname)
        sites, finds = analyse_class(cls)
        n_cls += 1
        for cn, field, method, writer, attr in finds:
            rep.violation(rid, f"memo|{cn}.{field}|{writer}", f"{rel}: {cn}.{writer}() writes self.{attr}, which {cn}.{method} reads to compute the remembered self.{field}, "
                                                               f"and leaves self.{field} as it is: the next read serves a value of the old {attr}")
        rep.instance(rid, f"{rel}:{cname}", {"class": cname, "memo_fields": sorted({s[1] for s in sites}), "methods": len([b for b in cls.body if isinstance(b, ast.FunctionDef)])})
    rep.floor(rid, len(classes))
