"""Engine E2: syntax-directed path / trace enumeration.

For a function body the engine computes the finite set of *projected event
traces* over all control-flow paths (if/elif/else, for/while with 0,1,2
iterations, break/continue/return/raise, try/except, with, short-circuit
boolean operators and conditional expressions).  Events are calls (by dotted
callee text), stores (by target text) and - when asked for - branch guards.
Only events selected by the caller's projection are kept, and equal traces are
merged, so the sets stay small.  Resolved repo callees can be inlined (bounded
depth) which makes must-call / ordering / exactly-once / dominance rules
interprocedural.
"""
from __future__ import annotations

import ast
from typing import Callable, Dict, FrozenSet, List, Optional, Set, Tuple

from .loader import Repo, Module, AnalysisError, norm

FALL, RET, RAISE, BRK, CONT = "fall", "return", "raise", "break", "continue"
Path = Tuple[Tuple, str]     # (events, exit)

MAX_SET = 60000


class Cfg:
    """What to observe.

    call(label, node)  -> event or None     label = dotted text of the callee expression
    store(label, node) -> event or None     label = text of the assignment target
    guard(test_node)   -> label or None     emits ('guard', label, outcome) when a branch on it is taken
    inline(label, node, ctx) -> (Module, FunctionDef, new_ctx) or None
    loop_marks: emit ('loop', id) / ('iter', id) / ('endloop', id) events for loops selected by loop(node)
    prune(if_node)     -> True / False / None   forces the outcome of an `if` statement (only that branch is walked);
                          used for self-recursive wrappers `if c: <re-enter this function piecewise>; return`, whose
                          trace is the base case's trace repeated
    """

    def __init__(self, call=None, store=None, guard=None, inline=None, loop=None, max_depth=4, loop_unroll=2, prune=None):
        self.call = call or (lambda label, node: None)
        self.store = store or (lambda label, node: None)
        self.guard = guard or (lambda test: None)
        self.inline = inline or (lambda label, node, ctx: None)
        self.loop = loop or (lambda node: None)
        self.prune = prune or (lambda node: None)
        self.max_depth = max_depth
        self.loop_unroll = loop_unroll


def dotted(node) -> str:
    if isinstance(node, ast.Name):
        return node.id
    if isinstance(node, ast.Attribute):
        return dotted(node.value) + "." + node.attr
    if isinstance(node, ast.Call):
        return dotted(node.func) + "()"
    if isinstance(node, ast.Subscript):
        return dotted(node.value) + "[]"
    return "<expr>"


class Tracer:
    def __init__(self, repo: Repo, cfg: Cfg):
        self.repo = repo
        self.cfg = cfg

    # ------------------------------------------------------------ expressions
    def expr(self, e, ctx, depth) -> Set[Tuple]:
        """Set of event tuples produced by evaluating e (in evaluation order)."""
        if e is None:
            return {()}
        if isinstance(e, ast.BoolOp):
            # short circuit: operands 1..k evaluated, stop after any operand
            outs: Set[Tuple] = set()
            prefixes: Set[Tuple] = {()}
            for i, v in enumerate(e.values):
                cur = self._seq(prefixes, self.expr(v, ctx, depth))
                g = self.cfg.guard(v)
                if i < len(e.values) - 1:
                    # may stop here (operand decided the result) or continue
                    stop_val = isinstance(e.op, ast.Or)
                    if g is not None:
                        outs |= {p + (("guard", g, stop_val),) for p in cur}
                        prefixes = {p + (("guard", g, not stop_val),) for p in cur}
                    else:
                        outs |= cur
                        prefixes = cur
                else:
                    outs |= cur
            return self._cap(outs)
        if isinstance(e, ast.IfExp):
            t = self.expr(e.test, ctx, depth)
            g = self.cfg.guard(e.test)
            a = self._seq(self._guarded(t, g, True), self.expr(e.body, ctx, depth))
            b = self._seq(self._guarded(t, g, False), self.expr(e.orelse, ctx, depth))
            return self._cap(a | b)
        if isinstance(e, ast.Call):
            cur: Set[Tuple] = {()}
            if isinstance(e.func, ast.Attribute):
                cur = self._seq(cur, self.expr(e.func.value, ctx, depth))
            elif not isinstance(e.func, ast.Name):
                cur = self._seq(cur, self.expr(e.func, ctx, depth))
            for a in e.args:
                cur = self._seq(cur, self.expr(a.value if isinstance(a, ast.Starred) else a, ctx, depth))
            for k in e.keywords:
                cur = self._seq(cur, self.expr(k.value, ctx, depth))
            label = dotted(e.func)
            inl = self.cfg.inline(label, e, ctx) if depth < self.cfg.max_depth else None
            ev = self.cfg.call(label, e)
            if ev is not None:
                cur = {p + (ev,) for p in cur}
            if inl is not None:
                mod, fn, nctx = inl
                sub = self.block(fn.body, nctx, depth + 1)
                callee: Set[Tuple] = set()
                for evs, ex in sub:
                    if ex == RAISE:
                        continue     # exceptional exits are not continued in the caller
                    callee.add(evs)
                if not callee:
                    callee = {()}
                cur = self._seq(cur, callee)
            return self._cap(cur)
        if isinstance(e, (ast.ListComp, ast.SetComp, ast.GeneratorExp, ast.DictComp)):
            cur = {()}
            for g in e.generators:
                cur = self._seq(cur, self.expr(g.iter, ctx, depth))
                for c in g.ifs:
                    cur = self._seq(cur, self.expr(c, ctx, depth))
            elts = [e.key, e.value] if isinstance(e, ast.DictComp) else [e.elt]
            for x in elts:
                cur = self._seq(cur, self.expr(x, ctx, depth))
            return cur
        if isinstance(e, ast.Lambda):
            return {()}
        cur = {()}
        for child in ast.iter_child_nodes(e):
            if isinstance(child, ast.expr):
                cur = self._seq(cur, self.expr(child, ctx, depth))
            elif isinstance(child, ast.keyword):
                cur = self._seq(cur, self.expr(child.value, ctx, depth))
            elif isinstance(child, ast.comprehension):
                cur = self._seq(cur, self.expr(child.iter, ctx, depth))
        return cur

    def _guarded(self, ts: Set[Tuple], g, outcome: bool) -> Set[Tuple]:
        if g is None:
            return ts
        return {t + (("guard", g, outcome),) for t in ts}

    def _seq(self, a: Set[Tuple], b: Set[Tuple]) -> Set[Tuple]:
        if b == {()}:
            return a
        if a == {()}:
            return b
        return self._cap({x + y for x in a for y in b})

    def _cap(self, s):
        if len(s) > MAX_SET:
            raise AnalysisError("trace set explosion; narrow the projection")
        return s

    # ------------------------------------------------------------ statements
    def block(self, stmts, ctx, depth=0) -> Set[Path]:
        cur: Set[Path] = {((), FALL)}
        for s in stmts:
            nxt: Set[Path] = set()
            falls = {evs for evs, ex in cur if ex == FALL}
            nxt |= {p for p in cur if p[1] != FALL}
            if falls:
                for evs2, ex2 in self.stmt(s, ctx, depth):
                    for evs in falls:
                        nxt.add((evs + evs2, ex2))
            cur = nxt
            if len(cur) > MAX_SET:
                raise AnalysisError("trace set explosion; narrow the projection")
            if not any(ex == FALL for _, ex in cur):
                break
        return cur

    def stmt(self, s, ctx, depth) -> Set[Path]:
        E = lambda e: self.expr(e, ctx, depth)
        if isinstance(s, ast.Expr):
            return {(t, FALL) for t in E(s.value)}
        if isinstance(s, (ast.Assign, ast.AnnAssign, ast.AugAssign)):
            val = s.value
            ts = E(val) if val is not None else {()}
            targets = s.targets if isinstance(s, ast.Assign) else [s.target]
            evs = []
            for t in targets:
                for sub in (t.elts if isinstance(t, (ast.Tuple, ast.List)) else [t]):
                    if isinstance(sub, (ast.Attribute, ast.Subscript)):
                        ts = self._seq(ts, E(sub.value))
                    ev = self.cfg.store(norm(sub), s)
                    if ev is not None:
                        evs.append(ev)
            return {(t + tuple(evs), FALL) for t in ts}
        if isinstance(s, ast.Return):
            return {(t, RET) for t in E(s.value)}
        if isinstance(s, ast.Raise):
            return {(t, RAISE) for t in E(s.exc)}
        if isinstance(s, ast.Pass) or isinstance(s, (ast.Import, ast.ImportFrom, ast.Global, ast.Nonlocal,
                                                      ast.FunctionDef, ast.ClassDef, ast.AsyncFunctionDef)):
            return {((), FALL)}
        if isinstance(s, ast.Break):
            return {((), BRK)}
        if isinstance(s, ast.Continue):
            return {((), CONT)}
        if isinstance(s, ast.Assert):
            return {(t, FALL) for t in E(s.test)}
        if isinstance(s, ast.Delete):
            return {((), FALL)}
        if isinstance(s, ast.If):
            t = E(s.test)
            g = self.cfg.guard(s.test)
            out: Set[Path] = set()
            forced = self.cfg.prune(s)
            for pre, body, outcome in ((t, s.body, True), (t, s.orelse, False)):
                if forced is not None and outcome != forced:
                    continue
                pre2 = self._guarded(pre, g, outcome)
                for evs2, ex2 in self.block(body, ctx, depth):
                    for p in pre2:
                        out.add((p + evs2, ex2))
            return out
        if isinstance(s, (ast.For, ast.While)):
            return self.loop(s, ctx, depth)
        if isinstance(s, ast.With):
            cur = {()}
            for it in s.items:
                cur = self._seq(cur, E(it.context_expr))
            out = set()
            for evs2, ex2 in self.block(s.body, ctx, depth):
                for p in cur:
                    out.add((p + evs2, ex2))
            return out
        if isinstance(s, ast.Try):
            out: Set[Path] = set()
            body = self.block(s.body, ctx, depth)
            for evs, ex in body:
                if ex == FALL:
                    for evs2, ex2 in self.block(s.orelse, ctx, depth):
                        out.add((evs + evs2, ex2))
                elif ex == RAISE:
                    # caught by a handler (approximation: any handler may catch it)
                    if s.handlers:
                        for h in s.handlers:
                            for evs2, ex2 in self.block(h.body, ctx, depth):
                                out.add((evs + evs2, ex2))
                    else:
                        out.add((evs, ex))
                else:
                    out.add((evs, ex))
            # exceptions raised by calls are not modelled: handlers are additionally entered with an empty prefix
            for h in s.handlers:
                for evs2, ex2 in self.block(h.body, ctx, depth):
                    if ex2 != RAISE:
                        out.add(((("except", norm(h.type) if h.type else "*"),) + evs2, ex2))
            if s.finalbody:
                out2 = set()
                for evs, ex in out:
                    for evs2, ex2 in self.block(s.finalbody, ctx, depth):
                        out2.add((evs + evs2, ex if ex2 == FALL else ex2))
                out = out2
            return out
        raise AnalysisError(f"trace engine: unsupported statement {type(s).__name__}: {norm(s)[:60]}")

    def loop(self, s, ctx, depth) -> Set[Path]:
        lid = self.cfg.loop(s)
        head = self.expr(s.iter if isinstance(s, ast.For) else s.test, ctx, depth)
        infinite = isinstance(s, ast.While) and isinstance(s.test, ast.Constant) and s.test.value is True
        body = self.block(s.body, ctx, depth)
        mark = (lambda k: ((k, lid),)) if lid is not None else (lambda k: ())
        out: Set[Path] = set()
        # zero iterations
        if not infinite:
            for h in head:
                for evs2, ex2 in self.block(s.orelse, ctx, depth):
                    out.add((mark("loop") + h + evs2 + (mark("endloop") if ex2 == FALL else ()), ex2))
        # 1..unroll iterations
        states: Set[Tuple] = {mark("loop") + h for h in head}
        for it in range(self.cfg.loop_unroll):
            nxt: Set[Tuple] = set()
            for pre in states:
                for evs2, ex2 in body:
                    evs = pre + mark("iter") + evs2
                    if ex2 in (FALL, CONT):
                        nxt.add(evs)
                    elif ex2 == BRK:
                        out.add((evs + mark("endloop"), FALL))
                    else:
                        out.add((evs, ex2))
            states = self._cap(nxt)
            if not infinite:
                for evs in states:
                    for evs2, ex2 in self.block(s.orelse, ctx, depth):
                        out.add((evs + evs2 + (mark("endloop") if ex2 == FALL else ()), ex2))
        return self._cap(out)


# ------------------------------------------------------------------ helpers for rules
def find_loops(fn: ast.FunctionDef, pred: Callable[[ast.AST], bool]) -> List[ast.AST]:
    return [n for n in ast.walk(fn) if isinstance(n, (ast.For, ast.While)) and pred(n)]


def calls_in(node) -> List[ast.Call]:
    return [n for n in ast.walk(node) if isinstance(n, ast.Call)]


def count(evs: Tuple, pred: Callable[[tuple], bool]) -> int:
    return sum(1 for e in evs if pred(e))


def index_of(evs: Tuple, pred: Callable[[tuple], bool]) -> List[int]:
    return [i for i, e in enumerate(evs) if pred(e)]


def make_inliner(repo: Repo, allow: Callable[[str], bool]):
    """Inline calls `name(...)` (module function / imported function) and `self.m(...)` (method of the
    enclosing class) when allow(label) is true.  ctx = (Module, ClassDef or None)."""

    def inline(label: str, node: ast.Call, ctx):
        if not allow(label):
            return None
        mod, cls = ctx
        f = node.func
        if isinstance(f, ast.Name):
            r = repo.lookup(mod, f.id)
            if r and r[0] == "def" and isinstance(r[2], ast.FunctionDef):
                return r[1], r[2], (r[1], None)
            return None
        if isinstance(f, ast.Attribute) and isinstance(f.value, ast.Name):
            if f.value.id == "self" and cls is not None:
                hit = repo.find_method(mod, cls, f.attr)
                if hit:
                    m, cn, fn = hit
                    return m, fn, (m, cn)
                return None
            r = repo.lookup(mod, f.value.id)
            if r and r[0] == "module":
                m = r[1]
                node2 = m.defs.get(f.attr)
                if isinstance(node2, ast.FunctionDef):
                    return m, node2, (m, None)
        return None
    return inline
