"""Abstract worlds for interpreting jesse's simulator / accounting code:
the `store`, `selectors`, helper predicates and order objects are replaced by
abstract heap objects whose classes are the *repository's own class definitions*
(methods and properties are interpreted from the parsed source), while pure
infrastructure (logging, ids, time, database) is stubbed by name.
"""
from __future__ import annotations

from typing import Any, Callable, Dict, List, Optional

from .absint import (Interp, Obj, Arr, Unknown, BoundBuiltin, FuncV, ClassV, ExcV, NotInFragment, num, R, NAN)
from .loader import Repo

ORDER_PY = "jesse/models/Order.py"
HELPERS = "jesse/helpers.py"
SELECTORS = "jesse/services/selectors.py"
STORE = "jesse/store/__init__.py"
LOGGER = "jesse/services/logger.py"
BT = "jesse/modes/backtest_mode.py"


def const(v):
    return lambda it, a, k: v


def base_stubs(mode: str = "backtest") -> Dict[str, Callable]:
    """Mode predicates are fixed to the backtest session the properties speak about."""
    live = mode in ("livetrade", "papertrade")
    s: Dict[str, Callable] = {
        f"{HELPERS}:is_livetrading": const(mode == "livetrade"),
        f"{HELPERS}:is_live": const(live),
        f"{HELPERS}:is_paper_trading": const(mode == "papertrade"),
        f"{HELPERS}:is_backtesting": const(mode == "backtest"),
        f"{HELPERS}:is_optimizing": const(mode == "optimize"),
        f"{HELPERS}:is_unit_testing": const(False),
        f"{HELPERS}:is_debugging": const(False),
        f"{HELPERS}:is_debuggable": const(False),
        f"{HELPERS}:should_execute_silently": const(True),
        f"{HELPERS}:is_importing_candles": const(False),
        f"{HELPERS}:generate_unique_id": lambda it, a, k: Unknown("uuid"),
        f"{HELPERS}:now_to_timestamp": lambda it, a, k: R.atom("now"),
        f"{HELPERS}:now": lambda it, a, k: R.atom("now"),
        f"{HELPERS}:timestamp_to_time": lambda it, a, k: Unknown("timestr"),
        f"{LOGGER}:*": const(None),
        "jesse/services/notifier.py:*": const(None),
        "jesse/services/redis.py:*": const(None),
    }
    return s


def bind(obj: Obj, name: str, fn: Callable):
    """Give an abstract object a stubbed method."""
    obj.attrs[name] = BoundBuiltin(fn)


def make_order(repo: Repo, name: str, side: str, typ: str, qty, price, reduce_only=False,
               status: str = None, symbol="BTC-USDT", exchange="Sandbox", extra: dict = None) -> Obj:
    """An Order whose class is the repository's Order (methods/properties interpreted from source);
    the peewee constructor is bypassed, fields are set directly."""
    mod = repo.module(ORDER_PY)
    cls = repo.cls(ORDER_PY, "Order")
    enums = repo.module("jesse/enums/__init__.py")
    if status is None:
        status = enum_value(repo, "order_statuses", "ACTIVE")
    attrs = {
        "id": name, "symbol": symbol, "exchange": exchange, "side": side, "type": typ,
        "qty": qty, "price": price, "reduce_only": reduce_only, "status": status,
        "filled_qty": num(0), "created_at": R.atom("t_created"), "executed_at": None, "canceled_at": None,
        "trade_id": None, "submitted_via": None, "exchange_id": None, "vars": {}, "session_id": None,
    }
    if extra:
        attrs.update(extra)
    return Obj("Order", mod, cls, name=name, attrs=attrs)


def enum_value(repo: Repo, cls: str, attr: str):
    import ast
    c = repo.cls("jesse/enums/__init__.py", cls)
    for b in c.body:
        if isinstance(b, ast.Assign):
            for t in b.targets:
                if isinstance(t, ast.Name) and t.id == attr and isinstance(b.value, ast.Constant):
                    return b.value.value
    from .loader import AnalysisError
    raise AnalysisError(f"anchor vanished: enums.{cls}.{attr}")


def candle(prefix: str = "") -> Arr:
    return Arr([R.atom(prefix + "ts"), R.atom(prefix + "o"), R.atom(prefix + "c"),
                R.atom(prefix + "h"), R.atom(prefix + "l"), R.atom(prefix + "v")])
