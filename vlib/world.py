"""Abstract worlds for interpreting jesse's simulator / accounting code:
the `store`, `selectors`, helper predicates and order objects are replaced by
abstract heap objects whose classes are the *repository's own class definitions*
(methods and properties are interpreted from the parsed source), while pure
infrastructure (logging, ids, time, database) is stubbed by name.
"""
from __future__ import annotations

from typing import Any, Callable, Dict, List, Optional

from .absint import (Interp, Obj, Arr, Unknown, BoundBuiltin, FuncV, ClassV, ExcV, NotInFragment, num, R, NAN)
from .loader import Repo

ORDER_PY = "jesse/models/Order.py"
HELPERS = "jesse/helpers.py"
SELECTORS = "jesse/services/selectors.py"
STORE = "jesse/store/__init__.py"
LOGGER = "jesse/services/logger.py"
BT = "jesse/modes/backtest_mode.py"


def const(v):
    return lambda it, a, k: v


def _unique_id(it, a, k):
    """distinct, deterministic ids (an order submitted in one step must be found by id in a later step)"""
    it._uid = getattr(it, "_uid", 0) + 1
    return f"uuid-{it._uid:04d}"


def base_stubs(mode: str = "backtest") -> Dict[str, Callable]:
    """Mode predicates are fixed to the backtest session the properties speak about."""
    live = mode in ("livetrade", "papertrade")
    s: Dict[str, Callable] = {
        f"{HELPERS}:is_livetrading": const(mode == "livetrade"),
        f"{HELPERS}:is_live": const(live),
        f"{HELPERS}:is_paper_trading": const(mode == "papertrade"),
        f"{HELPERS}:is_backtesting": const(mode == "backtest"),
        f"{HELPERS}:is_optimizing": const(mode == "optimize"),
        f"{HELPERS}:is_unit_testing": const(False),
        f"{HELPERS}:is_debugging": const(False),
        f"{HELPERS}:is_debuggable": const(False),
        f"{HELPERS}:should_execute_silently": const(True),
        f"{HELPERS}:is_importing_candles": const(False),
        f"{HELPERS}:generate_unique_id": _unique_id,
        f"{HELPERS}:now_to_timestamp": lambda it, a, k: R.atom("now"),
        f"{HELPERS}:now": lambda it, a, k: R.atom("now"),
        f"{HELPERS}:timestamp_to_time": lambda it, a, k: Unknown("timestr"),
        f"{LOGGER}:*": const(None),
        "jesse/services/notifier.py:*": const(None),
        "jesse/services/redis.py:*": const(None),
    }
    return s


def bind(obj: Obj, name: str, fn: Callable):
    """Give an abstract object a stubbed method."""
    obj.attrs[name] = BoundBuiltin(fn)


def make_order(repo: Repo, name: str, side: str, typ: str, qty, price, reduce_only=False,
               status: str = None, symbol="BTC-USDT", exchange="Sandbox", extra: dict = None) -> Obj:
    """An Order whose class is the repository's Order (methods/properties interpreted from source);
    the peewee constructor is bypassed, fields are set directly."""
    mod = repo.module(ORDER_PY)
    cls = repo.cls(ORDER_PY, "Order")
    enums = repo.module("jesse/enums/__init__.py")
    if status is None:
        status = enum_value(repo, "order_statuses", "ACTIVE")
    attrs = {
        "id": name, "symbol": symbol, "exchange": exchange, "side": side, "type": typ,
        "qty": qty, "price": price, "reduce_only": reduce_only, "status": status,
        "filled_qty": num(0), "created_at": R.atom("t_created"), "executed_at": None, "canceled_at": None,
        "trade_id": None, "submitted_via": None, "exchange_id": None, "vars": {}, "session_id": None,
    }
    if extra:
        attrs.update(extra)
    return Obj("Order", mod, cls, name=name, attrs=attrs)


def enum_value(repo: Repo, cls: str, attr: str):
    import ast
    c = repo.cls("jesse/enums/__init__.py", cls)
    for b in c.body:
        if isinstance(b, ast.Assign):
            for t in b.targets:
                if isinstance(t, ast.Name) and t.id == attr and isinstance(b.value, ast.Constant):
                    return b.value.value
    from .loader import AnalysisError
    raise AnalysisError(f"anchor vanished: enums.{cls}.{attr}")


def candle(prefix: str = "") -> Arr:
    return Arr([R.atom(prefix + "ts"), R.atom(prefix + "o"), R.atom(prefix + "c"),
                R.atom(prefix + "h"), R.atom(prefix + "l"), R.atom(prefix + "v")])


def obj_of(repo: Repo, rel: str, cls: str, name: str = None, attrs: dict = None, open_world=False) -> Obj:
    return Obj(cls, repo.module(rel), repo.cls(rel, cls), name=name or cls, attrs=attrs or {}, open_world=open_world)


def run_function(repo: Repo, rel: str, qual: str, make_args: Callable, stubs=None, overrides=None,
                 samples=None, nonneg=None, max_paths=256, self_obj_factory: Callable = None, ext_stubs=None):
    """Explore all paths of a repo function.  make_args() -> (args, kwargs) builds fresh abstract
    arguments for each re-execution; self_obj_factory() builds the receiver for methods."""
    from .absint import explore
    mod = repo.module(rel)
    fn = repo.func(rel, qual)
    clsnode = repo.cls(rel, qual.split(".")[0]) if "." in qual else None

    def mk(dec):
        it = Interp(repo, stubs=stubs() if callable(stubs) else (stubs or base_stubs()),
                    overrides=overrides() if callable(overrides) else (overrides or {}),
                    samples=[dict(s) for s in (samples or [])], nonneg=set(nonneg or ()), decisions=dec,
                    ext_stubs=ext_stubs)
        a, k = make_args(it)
        self_obj = self_obj_factory(it) if self_obj_factory else None
        it.args = a
        it.self_obj = self_obj
        return it, lambda it: it.call(FuncV(fn, mod, self_obj=self_obj, cls=clsnode, qual=qual), a, k)
    return explore(mk, max_paths=max_paths)


def peewee_defaults(repo: Repo, it: Interp, rel: str, cls: str) -> dict:
    """Field defaults of a peewee model, read from the class body (`x = CharField(default=...)`)."""
    import ast
    from .absint import Frame
    node = repo.cls(rel, cls)
    mod = repo.module(rel)
    out = {}
    for b in node.body:
        if isinstance(b, ast.Assign) and len(b.targets) == 1 and isinstance(b.targets[0], ast.Name):
            name = b.targets[0].id
            if isinstance(b.value, ast.Call) and norm_name(b.value.func).endswith("Field"):
                dv = None
                for kw in b.value.keywords:
                    if kw.arg == "default":
                        dv = it.eval(kw.value, Frame(mod, {}))
                out[name] = dv
            elif isinstance(b.value, ast.Constant):
                out[name] = b.value.value
    return out


def norm_name(node) -> str:
    import ast
    if isinstance(node, ast.Name):
        return node.id
    if isinstance(node, ast.Attribute):
        return node.attr
    return ""


def order_ctor(repo: Repo, counter: list = None):
    """Stub for `Order({...})`: allocates the abstract object with the model's field defaults and then
    interprets the repository's own Order.__init__ on it (peewee's Model.__init__ is a no-op)."""
    counter = counter if counter is not None else [0]

    def ctor(it: Interp, args, kwargs):
        mod = repo.module(ORDER_PY)
        cls = repo.cls(ORDER_PY, "Order")
        defaults = peewee_defaults(repo, it, ORDER_PY, "Order")
        counter[0] += 1
        obj = Obj("Order", mod, cls, name=f"order#{counter[0]}", attrs=dict(defaults))
        init = repo.find_method(mod, cls, "__init__")
        if init is None:
            from .loader import AnalysisError
            raise AnalysisError("anchor vanished: Order.__init__")
        m, cn, fn = init
        it.event("new_order", obj.name)
        it.call_function(FuncV(fn, m, self_obj=obj, cls=cn, qual="Order.__init__"), args, kwargs)
        return obj
    return ctor
