"""Effect analysis of the indicator call graph: indicators are functions of their input.

Two effects make an indicator's result depend on what was computed BEFORE (an earlier call, another indicator on the same
candles) instead of on its input alone:

  R-input   an in-place modification of the caller's candle array: the input parameter, a view of it (a column `candles[:, 2]`,
            a slice, what `get_candle_source` / `slice_candles` hand back for the plain sources, `.T`, `.reshape`, `.ravel()`,
            `np.asarray`) modified by an augmented assignment (`x -= ..`: in place for ndarrays), a subscript store, an `out=`
            argument, or an in-place method (`sort`, `fill`, `put`, `itemset`, `partition`, `resize`) / function (`np.put`,
            `np.place`, `np.copyto`, `np.putmask`)
  R-global  a store into module-level state from inside a function reachable from an indicator: `global X` + assignment, or a
            store / mutating call on a module-level name bound to a mutable object (a cache, a memo)

The alias analysis is flow-insensitive per function (a name that MAY alias the input anywhere in the function is treated as an
alias everywhere) and interprocedural over module-local and `jesse.helpers` callees: a callee called with an aliased argument is
analysed with that parameter aliased; what it returns is an alias when some return expression is.  Fresh values: arithmetic,
`np.copy` / `.copy()` / `np.array(x)` / `.astype()` (copies by default), `np.*_like`, `np.full/zeros/empty/ones`, reductions,
everything the analysis does not know (conservative for alarms: an unknown call does not propagate the alias).
"""
from __future__ import annotations

import ast
from typing import Dict, List, Optional, Set, Tuple

from .loader import Repo, norm

VIEW_METHODS = {"reshape", "ravel", "view", "squeeze", "swapaxes", "transpose", "flatten_view"}
VIEW_ATTRS = {"T", "real", "flat"}
VIEW_FUNCS = {"asarray", "asanyarray", "ascontiguousarray", "atleast_1d", "atleast_2d", "squeeze", "ravel", "reshape", "transpose", "nan_to_num_view"}
INPLACE_METHODS = {"sort", "fill", "put", "itemset", "partition", "resize", "setfield", "byteswap_inplace"}
INPLACE_FUNCS = {"put", "place", "copyto", "putmask", "put_along_axis", "fill_diagonal"}
MUTATORS = {"append", "extend", "insert", "pop", "remove", "clear", "update", "setdefault", "add", "discard", "popitem", "appendleft", "sort", "reverse", "__setitem__"}
HELPERS = "jesse/helpers.py"


class Finding:
    def __init__(self, rule, rel, func, what, node):
        self.rule, self.rel, self.func, self.what, self.text = rule, rel, func, what, norm(node)[:120]

    def key(self):
        return f"{self.rule}|{self.rel}:{self.func}|{self.text[:60]}"


class Purity:
    def __init__(self, repo: Repo):
        self.repo = repo
        self.summaries: Dict[Tuple[str, str, Tuple[int, ...]], bool] = {}     # (rel, func, aliased params) -> returns alias?
        self.findings: List[Finding] = []
        self.visited_funcs: Set[Tuple[str, str]] = set()
        self._stack: Set[Tuple[str, str, Tuple[int, ...]]] = set()
        self.global_checked: Set[Tuple[str, str]] = set()

    # ---------------------------------------------------------------- resolution
    def _resolve(self, mod, call: ast.Call):
        """(module, FunctionDef) of a module-local / jesse.helpers / imported-from-jesse callee, or None"""
        f = call.func
        name = None
        if isinstance(f, ast.Name):
            name = f.id
            if name in mod.defs and isinstance(mod.defs[name], ast.FunctionDef):
                return mod, mod.defs[name]
            r = self.repo.resolve_import(mod, name)
            if r is not None and r[0] == "def" and isinstance(r[2], ast.FunctionDef):
                return r[1], r[2]
        elif isinstance(f, ast.Attribute) and isinstance(f.value, ast.Name):
            base = f.value.id
            if base in mod.imports:
                d, a = mod.imports[base]
                dotted = d if a is None else f"{d}.{a}"
                sub = self.repo.resolve_module(dotted)
                if sub is not None and f.attr in sub.defs and isinstance(sub.defs[f.attr], ast.FunctionDef):
                    return sub, sub.defs[f.attr]
        return None

    # ---------------------------------------------------------------- alias analysis of one function
    def analyse(self, mod, fn: ast.FunctionDef, aliased: Tuple[int, ...]) -> bool:
        key = (mod.rel, fn.name, aliased)
        if key in self.summaries:
            return self.summaries[key]
        if key in self._stack:
            return False
        self._stack.add(key)
        self.visited_funcs.add((mod.rel, fn.name))
        params = [a.arg for a in fn.args.args]
        alias: Set[str] = {params[i] for i in aliased if i < len(params)}
        # nested functions (numba kernels defined inline) are analysed as part of the body
        changed = True
        while changed:
            changed = False
            for node in ast.walk(fn):
                tgt_val = []
                if isinstance(node, ast.Assign):
                    tgt_val = [(t, node.value) for t in node.targets]
                elif isinstance(node, ast.AnnAssign) and node.value is not None:
                    tgt_val = [(node.target, node.value)]
                elif isinstance(node, ast.NamedExpr):
                    tgt_val = [(node.target, node.value)]
                for t, v in tgt_val:
                    if isinstance(t, ast.Name) and t.id not in alias and self._is_alias(mod, v, alias):
                        alias.add(t.id)
                        changed = True
                    elif isinstance(t, (ast.Tuple, ast.List)) and isinstance(v, (ast.Tuple, ast.List)) and len(t.elts) == len(v.elts):
                        for tt, vv in zip(t.elts, v.elts):
                            if isinstance(tt, ast.Name) and tt.id not in alias and self._is_alias(mod, vv, alias):
                                alias.add(tt.id)
                                changed = True
        # effects
        for node in ast.walk(fn):
            if isinstance(node, ast.AugAssign):
                base = self._base_name(node.target)
                if base in alias and self._is_alias(mod, node.target if not isinstance(node.target, ast.Name) else ast.Name(id=base, ctx=ast.Load()), alias):
                    self.findings.append(Finding("R-input", mod.rel, fn.name, f"`{norm(node)[:80]}` modifies the caller's candle array in place (`{base}` is the input or a view of it)", node))
            elif isinstance(node, (ast.Assign, ast.AnnAssign)):
                targets = node.targets if isinstance(node, ast.Assign) else [node.target]
                for t in targets:
                    for tt in (t.elts if isinstance(t, (ast.Tuple, ast.List)) else [t]):
                        if isinstance(tt, ast.Subscript):
                            base = self._base_name(tt)
                            if base in alias and self._is_alias(mod, tt.value, alias):
                                self.findings.append(Finding("R-input", mod.rel, fn.name, f"`{norm(node)[:80]}` stores into the caller's candle array (`{base}` is the input or a view of it)", node))
            elif isinstance(node, ast.Call):
                f = node.func
                if isinstance(f, ast.Attribute) and f.attr in INPLACE_METHODS and self._is_alias(mod, f.value, alias):
                    self.findings.append(Finding("R-input", mod.rel, fn.name, f"`{norm(node)[:80]}` modifies the caller's candle array in place", node))
                if isinstance(f, ast.Attribute) and f.attr in INPLACE_FUNCS and node.args and self._is_alias(mod, node.args[0], alias):
                    self.findings.append(Finding("R-input", mod.rel, fn.name, f"`{norm(node)[:80]}` writes into the caller's candle array", node))
                if isinstance(f, ast.Attribute) and f.attr == "nan_to_num" and node.args and self._is_alias(mod, node.args[0], alias) and \
                        any(kw.arg == "copy" and isinstance(kw.value, ast.Constant) and kw.value.value is False for kw in node.keywords):
                    self.findings.append(Finding("R-input", mod.rel, fn.name, f"`{norm(node)[:80]}` replaces NaNs in the caller's candle array in place (copy=False)", node))
                for kw in node.keywords:
                    if kw.arg == "out" and self._is_alias(mod, kw.value, alias):
                        self.findings.append(Finding("R-input", mod.rel, fn.name, f"`{norm(node)[:80]}` writes its result into the caller's candle array (out=)", node))
                # interprocedural: callee with aliased arguments
                hit = self._resolve(mod, node)
                if hit is not None:
                    cm, cf = hit
                    al = tuple(i for i, a in enumerate(node.args) if self._is_alias(mod, a, alias))
                    cparams = [a.arg for a in cf.args.args]
                    for kw in node.keywords:
                        if kw.arg in cparams and self._is_alias(mod, kw.value, alias):
                            al = al + (cparams.index(kw.arg),)
                    self.analyse(cm, cf, tuple(sorted(set(al))))
        self._globals(mod, fn)
        ret = any(isinstance(n, ast.Return) and n.value is not None and self._is_alias(mod, n.value, alias) for n in ast.walk(fn))
        self._stack.discard(key)
        self.summaries[key] = ret
        return ret

    @staticmethod
    def _base_name(t):
        while isinstance(t, (ast.Subscript, ast.Attribute)):
            t = t.value
        return t.id if isinstance(t, ast.Name) else None

    def _is_alias(self, mod, e, alias: Set[str]) -> bool:
        """may the value of `e` share memory with the input?"""
        if isinstance(e, ast.Name):
            return e.id in alias
        if isinstance(e, ast.Subscript):
            if not self._is_alias(mod, e.value, alias):
                return False
            # basic indexing (slices, integers, tuples of them, None / Ellipsis) gives a view; an index ARRAY or a mask gives a copy
            idx = e.slice
            parts = idx.elts if isinstance(idx, ast.Tuple) else [idx]
            for p in parts:
                if isinstance(p, ast.Slice) or (isinstance(p, ast.Constant) and (p.value is None or p.value is Ellipsis or isinstance(p.value, int))):
                    continue
                if isinstance(p, ast.UnaryOp) and isinstance(p.operand, ast.Constant):
                    continue
                if isinstance(p, ast.Name) or isinstance(p, ast.BinOp):
                    continue          # an integer expression (loop index): a row / scalar of the same memory
                return False          # comparison / call / list: fancy indexing copies
            return True
        if isinstance(e, ast.Attribute):
            return e.attr in VIEW_ATTRS and self._is_alias(mod, e.value, alias)
        if isinstance(e, ast.IfExp):
            return self._is_alias(mod, e.body, alias) or self._is_alias(mod, e.orelse, alias)
        if isinstance(e, ast.Call):
            f = e.func
            if isinstance(f, ast.Attribute) and f.attr in VIEW_METHODS and self._is_alias(mod, f.value, alias):
                return True
            if isinstance(f, ast.Attribute) and f.attr in VIEW_FUNCS and e.args and self._is_alias(mod, e.args[0], alias):
                return True
            if isinstance(f, ast.Attribute) and f.attr == "astype":
                return any(kw.arg == "copy" and isinstance(kw.value, ast.Constant) and kw.value.value is False for kw in e.keywords) and self._is_alias(mod, f.value, alias)
            if isinstance(f, ast.Attribute) and f.attr == "array" and e.args:
                return any(kw.arg == "copy" and isinstance(kw.value, ast.Constant) and kw.value.value is False for kw in e.keywords) and self._is_alias(mod, e.args[0], alias)
            hit = self._resolve(mod, e)
            if hit is not None:
                cm, cf = hit
                al = tuple(i for i, a in enumerate(e.args) if self._is_alias(mod, a, alias))
                cparams = [a.arg for a in cf.args.args]
                for kw in e.keywords:
                    if kw.arg in cparams and self._is_alias(mod, kw.value, alias):
                        al = al + (cparams.index(kw.arg),)
                if al:
                    return self.analyse(cm, cf, tuple(sorted(set(al))))
            return False
        return False

    # ---------------------------------------------------------------- module-level state
    def _module_cells(self, mod) -> Dict[str, str]:
        cells = {}
        for b in mod.tree.body:
            tgts = []
            if isinstance(b, ast.Assign):
                tgts, v = b.targets, b.value
            elif isinstance(b, ast.AnnAssign) and b.value is not None:
                tgts, v = [b.target], b.value
            else:
                continue
            mutable = isinstance(v, (ast.Dict, ast.List, ast.Set, ast.ListComp, ast.DictComp, ast.SetComp)) or \
                (isinstance(v, ast.Call) and norm(v.func).split(".")[-1] in ("dict", "list", "set", "defaultdict", "OrderedDict", "deque", "Counter", "LRUCache", "WeakValueDictionary"))
            for t in tgts:
                if isinstance(t, ast.Name):
                    cells[t.id] = "mutable" if mutable else "scalar"
        return cells

    @staticmethod
    def _key_covers_arrays(fn, key) -> bool:
        return Purity._key_covers_arrays0(fn, key) or Purity._key_covers_params(fn, key)

    @staticmethod
    def _key_covers_params(fn, key) -> bool:
        """every parameter the function uses is in the memo key WHOLE: as a bare name, converted wholesale (tuple(p), str(p),
        repr(p), frozenset(p.items()), json.dumps(p), p.tobytes()) - not projected (p['name'], p.shape[0], a comprehension over p)"""
        params = [a.arg for a in fn.args.args if a.arg not in ("self", "cls")]
        used = {n.id for n in ast.walk(fn) if isinstance(n, ast.Name) and n.id in params}
        if not used:
            return False
        exprs = [key]
        for nm in [x.id for x in ast.walk(key) if isinstance(x, ast.Name) and x.id not in params]:
            for n in ast.walk(fn):
                if isinstance(n, ast.Assign) and any(isinstance(t, ast.Name) and t.id == nm for t in n.targets):
                    exprs.append(n.value)
        whole = set()

        def visit(e, top):
            if isinstance(e, ast.Name) and e.id in params and top:
                whole.add(e.id)
            elif isinstance(e, (ast.Tuple, ast.List)):
                for x in e.elts:
                    visit(x, top)
            elif isinstance(e, ast.Call):
                fname = norm(e.func).split(".")[-1]
                if fname in ("tuple", "str", "repr", "frozenset", "dumps", "hash", "bytes", "sorted") and e.args:
                    a = e.args[0]
                    if isinstance(a, ast.Call) and isinstance(a.func, ast.Attribute) and a.func.attr in ("items", "tobytes", "tolist") and isinstance(a.func.value, ast.Name):
                        a = a.func.value
                    visit(a, top)
                elif isinstance(e.func, ast.Attribute) and e.func.attr in ("tobytes", "tostring") and isinstance(e.func.value, ast.Name) and e.func.value.id in params:
                    whole.add(e.func.value.id)
        for e in exprs:
            visit(e, True)
        return used <= whole

    @staticmethod
    def _key_covers_arrays0(fn, key) -> bool:
        """the memo key (local names resolved one level) contains a whole-content digest - x.tobytes() / bytes(x) - of every array
        parameter of the function (a parameter that is subscripted or asked for its shape)"""
        params = [a.arg for a in fn.args.args]
        arrays = set()
        for n in ast.walk(fn):
            if isinstance(n, ast.Subscript) and isinstance(n.value, ast.Name) and n.value.id in params:
                arrays.add(n.value.id)
            if isinstance(n, ast.Attribute) and n.attr in ("shape", "size", "ndim") and isinstance(n.value, ast.Name) and n.value.id in params:
                arrays.add(n.value.id)
        exprs = [key]
        for nm in [x.id for x in ast.walk(key) if isinstance(x, ast.Name)]:
            for n in ast.walk(fn):
                if isinstance(n, ast.Assign) and any(isinstance(t, ast.Name) and t.id == nm for t in n.targets):
                    exprs.append(n.value)
        digested = set()
        for e in exprs:
            for c in ast.walk(e):
                if isinstance(c, ast.Call):
                    f = c.func
                    if isinstance(f, ast.Attribute) and f.attr in ("tobytes", "tostring") :
                        b = f.value
                        while isinstance(b, ast.Attribute):
                            b = b.value
                        if isinstance(b, ast.Name):
                            digested.add(b.id)
                    if isinstance(f, ast.Name) and f.id == "bytes" and c.args and isinstance(c.args[0], ast.Name):
                        digested.add(c.args[0].id)
        return bool(arrays) and arrays <= digested

    def _sound_memo(self, mod, cell: str) -> bool:
        """every store `cell[key] = ..` of the module is keyed by a whole-content digest of the storing function's array arguments"""
        stores = []
        for f in ast.walk(mod.tree):
            if isinstance(f, ast.FunctionDef):
                for n in ast.walk(f):
                    if isinstance(n, ast.Assign):
                        for t in n.targets:
                            if isinstance(t, ast.Subscript) and isinstance(t.value, ast.Name) and t.value.id == cell:
                                stores.append(self._key_covers_arrays(f, t.slice))
        return bool(stores) and all(stores)

    def _globals(self, mod, fn):
        if (mod.rel, fn.name) in self.global_checked:
            return
        self.global_checked.add((mod.rel, fn.name))
        cells = self._module_cells(mod)
        declared = {n for g in ast.walk(fn) if isinstance(g, ast.Global) for n in g.names}
        local = {a.arg for a in fn.args.args} | {t.id for n in ast.walk(fn) if isinstance(n, ast.Assign) for t in n.targets if isinstance(t, ast.Name)}
        local -= declared
        for node in ast.walk(fn):
            if isinstance(node, (ast.Assign, ast.AugAssign, ast.AnnAssign)):
                targets = node.targets if isinstance(node, ast.Assign) else [node.target]
                for t in targets:
                    if isinstance(t, ast.Name) and t.id in declared:
                        self.findings.append(Finding("R-global", mod.rel, fn.name, f"`{norm(node)[:80]}` rebinds the module-level name `{t.id}`", node))
                    elif isinstance(t, (ast.Subscript, ast.Attribute)):
                        base = self._base_name(t)
                        if base is not None and base not in local and cells.get(base) == "mutable":
                            if isinstance(t, ast.Subscript) and isinstance(t.value, ast.Name) and self._key_covers_arrays(fn, t.slice):
                                continue          # a memo keyed by the whole content of its array arguments is a function of the input
                            self.findings.append(Finding("R-global", mod.rel, fn.name, f"`{norm(node)[:80]}` stores into the module-level object `{base}`", node))
            elif isinstance(node, ast.Call) and isinstance(node.func, ast.Attribute) and node.func.attr in MUTATORS:
                base = self._base_name(node.func.value)
                if isinstance(node.func.value, ast.Name) and base not in local and cells.get(base) == "mutable":
                    if node.func.attr in ("clear", "pop", "popitem") and self._sound_memo(mod, base):
                        continue          # eviction from a memo that is keyed by the content of its inputs
                    self.findings.append(Finding("R-global", mod.rel, fn.name, f"`{norm(node)[:80]}` mutates the module-level object `{base}`", node))
            elif isinstance(node, ast.Call):
                # follow module-local / helper callees for global effects too (no aliasing needed)
                hit = self._resolve(mod, node)
                if hit is not None and (hit[0].rel, hit[1].name) not in self.global_checked and hit[0].rel.startswith("jesse/"):
                    if hit[0].rel.startswith("jesse/indicators/") or hit[0].rel in (HELPERS, "jesse/utils.py"):
                        self.visited_funcs.add((hit[0].rel, hit[1].name))
                        self._globals(hit[0], hit[1])
        # decorators that memoise on the arguments (arrays are compared by identity / not hashable: either way the value is not a
        # function of the CONTENT of the input)
        for dec in fn.decorator_list:
            dn = norm(dec.func if isinstance(dec, ast.Call) else dec).split(".")[-1]
            if dn in ("lru_cache", "cache", "cached", "memoize"):
                self.findings.append(Finding("R-global", mod.rel, fn.name, f"`@{norm(dec)[:60]}` memoises an indicator-path function across calls", dec))
