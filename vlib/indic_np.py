"""numpy / builtin models for the indicator dependence interpreter (engine E7)."""
from __future__ import annotations

import math
from typing import Any, Dict, List

from .indic_vals import (D, NA, NAN, Undecided, binop, unop, phi, mk, hid, broadcast, map1, fold,
                         Builtin, BoundMethod, NTClass, NT, PyRaise)


def B(fn, name=""):
    return Builtin(fn, name)


def BM(fn):
    return BoundMethod(fn)


def to_na(x) -> NA:
    if isinstance(x, NA):
        return x
    if isinstance(x, (list, tuple)):
        if x and all(isinstance(r, (list, tuple, NA)) for r in x):
            rows = [list(r.data) if isinstance(r, NA) else list(r) for r in x]
            if any(isinstance(e, (list, tuple, NA)) for r in rows for e in r):
                raise Undecided("array rank > 2")
            if len({len(r) for r in rows}) > 1:
                raise Undecided("ragged array")
            return NA(rows, 2)
        return NA(list(x), 1)
    if isinstance(x, range):
        return NA(list(x), 1)
    return NA([x], 1)


def _int(v, what="integer"):
    if isinstance(v, D):
        raise Undecided(f"data-dependent {what}")
    if isinstance(v, bool):
        return int(v)
    if isinstance(v, float):
        if v != v or v in (math.inf, -math.inf):
            raise Undecided(f"non-finite {what}")
        return int(v)
    if isinstance(v, int):
        return v
    if v is None:
        return None
    raise Undecided(f"{what} of type {type(v).__name__}")


class TaintedInt(int):
    """A count that is concrete under the standing assumption 'computed values are numbers' but really depends on candle values
    (how many elements of a computed series are NaN): used as an index / slice bound it makes everything selected depend on them."""

    def __new__(cls, v, carrier):
        x = int.__new__(cls, v)
        x.carrier = carrier
        return x


def _slice_carrier(s: slice):
    for b in (s.start, s.stop, s.step):
        if isinstance(b, TaintedInt):
            return b.carrier
    return None


def _taint(xs, carrier):
    from .indic_vals import mk
    return [mk("dep", y, carrier) if isinstance(y, D) else y for y in xs]


def _norm_slice(s: slice):
    return slice(_int(s.start), _int(s.stop), _int(s.step))


# ---------------------------------------------------------------- indexing
def _nan_mask_truth(x, k):
    """truth of mask element k for array element x when k is isnan(x) or not isnan(x); None if k is something else"""
    if isinstance(k, bool):
        return k
    if not isinstance(k, D):
        return None
    neg = False
    while k.op in ("not", "invert") and len(k.args) == 1 and isinstance(k.args[0], D):
        k, neg = k.args[0], not neg
    if k.op == "isnan" and len(k.args) == 1 and isinstance(x, D) and isinstance(k.args[0], D) and k.args[0].h == x.h:
        return (not False) if neg else False          # isnan(x) taken as False
    return None


def getitem(it, base, key):
    if isinstance(base, NA):
        if base.ndim == 1:
            if isinstance(key, slice):
                car = _slice_carrier(key)
                sel = base.data[_norm_slice(key)]
                return NA(_taint(sel, car) if car is not None else sel, 1)
            if isinstance(key, TaintedInt):
                x = base.data[int(key)]
                return _taint([x], key.carrier)[0]
            if isinstance(key, NA):
                # boolean mask or integer index array
                if all(isinstance(k, bool) for k in key.data) and len(key.data) == len(base.data):
                    return NA([x for x, k in zip(base.data, key.data) if k], 1)
                if any(isinstance(k, D) for k in key.data) and len(key.data) == len(base.data):
                    # the NaN-stripping idiom x[~isnan(x)] / x[logical_not(isnan(x))]: leading warm-up NaNs are constants; a computed
                    # element is taken to be a number (generic, finite inputs - the same standing assumption as for raw candles)
                    keep = []
                    for x, k in zip(base.data, key.data):
                        r = _nan_mask_truth(x, k)
                        if r is None:
                            keep = None
                            break
                        keep.append(r)
                    if keep is not None:
                        it.assumptions_used = getattr(it, "assumptions_used", set()) | {"isnan(computed value) is False in a NaN-stripping mask (generic finite inputs)"}
                        # ... but a computed element that may be NaN on valid candles (0/0 on a flat candle, x/0 on a no-trade
                        # candle) is dropped when it is: the position of every surviving element then depends on it
                        from .indic_finite import may_be_nonfinite
                        from .indic_vals import mk
                        sus = [x for x, r in zip(base.data, keep) if r and isinstance(x, D) and may_be_nonfinite(x)]
                        kept = [x for x, r in zip(base.data, keep) if r]
                        if sus:
                            m_all = 0
                            for x in sus:
                                m_all |= x.m
                            # one carrier node for "whether any of them is NaN"
                            carrier = sus[0] if len(sus) == 1 else D(m_all, hash(("nan-any",) + tuple(x.h for x in sus)), "nanany", tuple(sus))
                            kept = [mk("dep", y, carrier) if isinstance(y, D) else y for y in kept]
                        return NA(kept, 1)
                if any(isinstance(k, D) for k in key.data):
                    raise Undecided("data-dependent fancy index / mask")
                return NA([base.data[_int(k)] for k in key.data], 1)
            if isinstance(key, tuple):
                if len(key) == 1:
                    return getitem(it, base, key[0])
                if len(key) == 2 and key[0] is None and isinstance(key[1], slice):
                    return NA([list(base.data[_norm_slice(key[1])])], 2)
                if len(key) == 2 and key[1] is None and isinstance(key[0], slice):
                    return NA([[x] for x in base.data[_norm_slice(key[0])]], 2)
                raise Undecided("multi-index on 1-D array")
            if isinstance(key, list):
                return NA([base.data[_int(k)] for k in key], 1)
            i = _int(key, "index")
            try:
                return base.data[i]
            except IndexError:
                raise PyRaise("IndexError")
        # 2-D
        if isinstance(key, tuple) and len(key) == 2:
            r, c = key
            if isinstance(r, slice) and isinstance(c, slice):
                return NA([row[_norm_slice(c)] for row in base.data[_norm_slice(r)]], 2)
            if isinstance(r, slice) and isinstance(c, (list, tuple, NA)):
                cols = [_int(x) for x in (c.data if isinstance(c, NA) else c)]
                return NA([[row[j] for j in cols] for row in base.data[_norm_slice(r)]], 2)
            if isinstance(r, slice):
                ci = _int(c, "column")
                return NA([row[ci] for row in base.data[_norm_slice(r)]], 1)
            if isinstance(c, slice):
                return NA(list(base.data[_int(r, "row")][_norm_slice(c)]), 1)
            return base.data[_int(r, "row")][_int(c, "column")]
        if isinstance(key, slice):
            return NA([list(r) for r in base.data[_norm_slice(key)]], 2)
        if isinstance(key, NA):
            raise Undecided("mask on 2-D array")
        return NA(base.data[_int(key, "row")], 1)      # row view (writes go through, as in numpy)
    if isinstance(base, (list, tuple, str, range)):
        if isinstance(key, slice):
            return base[_norm_slice(key)]
        return base[_int(key, "index")]
    if isinstance(base, dict):
        if isinstance(key, D):
            raise Undecided("data-dependent dict key")
        if key not in base:
            raise PyRaise("KeyError")
        return base[key]
    if isinstance(base, NT):
        return base.vals[_int(key)]
    raise Undecided(f"subscript of {type(base).__name__}")


def setitem(it, base, key, v):
    if isinstance(base, NA):
        if base.ndim == 1:
            if isinstance(key, slice):
                idx = list(range(len(base.data)))[_norm_slice(key)]
                if isinstance(v, NA):
                    vals = v.flat()
                    if len(vals) == 1 and len(idx) != 1:
                        vals = vals * len(idx)
                    if len(vals) != len(idx):
                        raise PyRaise(f"ValueError: could not broadcast {len(vals)} values into {len(idx)} slots")
                elif isinstance(v, (list, tuple)):
                    vals = list(v)
                    if len(vals) != len(idx):
                        raise PyRaise("ValueError: broadcast")
                else:
                    vals = [v] * len(idx)
                car = _slice_carrier(key)
                if car is not None:
                    vals = _taint(vals, car)
                for i, x in zip(idx, vals):
                    base.data[i] = x
                return
            if isinstance(key, NA):
                if all(isinstance(k, bool) for k in key.data) and len(key.data) == len(base.data):
                    sel = [i for i, k in enumerate(key.data) if k]
                    vals = v.flat() if isinstance(v, NA) else [v] * len(sel)
                    for i, x in zip(sel, vals):
                        base.data[i] = x
                    return
                if len(key.data) == len(base.data) and any(isinstance(k, D) for k in key.data):
                    # abstract boolean mask: arr[mask] = scalar  ->  element-wise phi
                    if isinstance(v, NA):
                        raise Undecided("masked store of an array under an abstract mask")
                    base.data = [phi(k, v, x) if isinstance(k, D) else (v if k else x) for k, x in zip(key.data, base.data)]
                    return
                if not any(isinstance(k, D) for k in key.data):
                    idx = [_int(k) for k in key.data]
                    vals = v.flat() if isinstance(v, NA) else [v] * len(idx)
                    if len(vals) != len(idx):
                        raise PyRaise("ValueError: shape mismatch in fancy-index store")
                    for i, x in zip(idx, vals):
                        base.data[i] = x
                    return
                raise Undecided("fancy-index store with data-dependent indices")
            i = _int(key, "index")
            if isinstance(v, NA):
                f = v.flat()
                if len(f) != 1:
                    raise Undecided("array stored into a scalar slot")
                v = f[0]
            try:
                base.data[i] = v
            except IndexError:
                raise PyRaise("IndexError")
            return
        # 2-D stores
        if isinstance(key, tuple) and len(key) == 2:
            r, c = key
            if isinstance(r, slice) and not isinstance(c, slice):
                rows = list(range(len(base.data)))[_norm_slice(r)]
                ci = _int(c)
                vals = v.flat() if isinstance(v, NA) else [v] * len(rows)
                for ri, x in zip(rows, vals):
                    base.data[ri][ci] = x
                return
            if not isinstance(r, slice) and isinstance(c, slice):
                ri = _int(r)
                cols = list(range(len(base.data[ri])))[_norm_slice(c)]
                vals = v.flat() if isinstance(v, NA) else [v] * len(cols)
                for ci, x in zip(cols, vals):
                    base.data[ri][ci] = x
                return
            if not isinstance(r, slice) and not isinstance(c, slice):
                base.data[_int(r)][_int(c)] = v
                return
        if not isinstance(key, (slice, tuple, NA)):
            ri = _int(key)
            vals = v.flat() if isinstance(v, NA) else list(v) if isinstance(v, (list, tuple)) else [v] * len(base.data[ri])
            base.data[ri] = list(vals)
            return
        raise Undecided("2-D store")
    if isinstance(base, list):
        if isinstance(key, slice):
            base[_norm_slice(key)] = list(v.data) if isinstance(v, NA) else v
        else:
            base[_int(key)] = v
        return
    if isinstance(base, dict):
        base[key] = v
        return
    raise Undecided(f"item store on {type(base).__name__}")


# ---------------------------------------------------------------- reductions
def _axis(kw, args, pos=1):
    ax = kw.get("axis", args[pos] if len(args) > pos else None)
    return _int(ax) if ax is not None else None


def reduce_(op, a, axis=None, init=None, skipna=False):
    a = to_na(a)

    def red(xs):
        if skipna:
            xs = [x for x in xs if not (isinstance(x, float) and x != x)]
            if any(isinstance(x, D) for x in xs):
                pass
        if not xs:
            if init is not None:
                return init
            return NAN
        return fold(op, xs, init)
    if a.ndim == 1 or axis is None:
        return red(a.flat())
    if axis in (1, -1):
        return NA([red(r) for r in a.data], 1)
    if axis == 0:
        return NA([red([r[j] for r in a.data]) for j in range(a.shape[1])], 1)
    raise Undecided("axis")


def np_sum(it, args, kw):
    return reduce_("add", args[0], _axis(kw, args), init=0.0)


def np_nansum(it, args, kw):
    return reduce_("add", map1(lambda x: unop("nan_to_num", x), to_na(args[0])), _axis(kw, args), init=0.0)


def np_max(it, args, kw):
    return reduce_("max", args[0], _axis(kw, args))


def np_min(it, args, kw):
    return reduce_("min", args[0], _axis(kw, args))


def np_prod(it, args, kw):
    return reduce_("mul", args[0], _axis(kw, args), init=1.0)


def _count(a, axis):
    a = to_na(a)
    if a.ndim == 1 or axis is None:
        return len(a.flat())
    return a.shape[1] if axis in (1, -1) else a.shape[0]


def np_mean(it, args, kw):
    ax = _axis(kw, args)
    n = _count(args[0], ax)
    if n == 0:
        return NAN
    return broadcast("div", reduce_("add", args[0], ax, init=0.0), float(n))


def np_nanmean(it, args, kw):
    a = to_na(args[0])
    ax = _axis(kw, args)

    def red(xs):
        xs = [x for x in xs if not (isinstance(x, float) and x != x)]
        if not xs:
            return NAN
        return binop("div", fold("add", xs), float(len(xs)))
    if any(isinstance(x, float) and x != x for x in a.flat()):
        if a.ndim == 1 or ax is None:
            return red(a.flat())
        if ax in (1, -1):
            return NA([red(r) for r in a.data], 1)
        if ax == 0:
            return NA([red([r[j] for r in a.data]) for j in range(a.shape[1])], 1)
        raise Undecided("nanmean axis")
    return np_mean(it, args, kw)


def opaque_reduce(name):
    """order statistics / moments: value depends on every element (dependence union, opaque structure)"""
    def f(it, args, kw):
        a = to_na(args[0])
        ax = _axis(kw, args)
        extra = tuple(x for x in args[1:] if not isinstance(x, (NA,)))

        def red(xs):
            if not xs:
                return NAN
            if not any(isinstance(x, D) for x in xs):
                if any(isinstance(x, float) and x != x for x in xs) and not name.startswith("nan"):
                    return NAN
                return mk(name, *xs, *extra) if False else _concrete_stat(name, xs, extra, kw)
            return mk(name, *xs, *[e for e in extra if isinstance(e, (int, float))], *sorted((k, repr(v)) for k, v in kw.items() if k != "axis"))
        if a.ndim == 1 or ax is None:
            return red(a.flat())
        if ax in (1, -1):
            return NA([red(r) for r in a.data], 1)
        if ax == 0:
            return NA([red([r[j] for r in a.data]) for j in range(a.shape[1])], 1)
        raise Undecided("axis")
    return f


def _concrete_stat(name, xs, extra, kw):
    import statistics
    try:
        if name in ("std", "nanstd"):
            dd = kw.get("ddof", 0)
            m = sum(xs) / len(xs)
            return math.sqrt(sum((x - m) ** 2 for x in xs) / (len(xs) - dd))
        if name in ("var",):
            dd = kw.get("ddof", 0)
            m = sum(xs) / len(xs)
            return sum((x - m) ** 2 for x in xs) / (len(xs) - dd)
        if name == "median":
            return statistics.median(xs)
    except Exception:
        return NAN
    return NAN


def np_argmax(which):
    def f(it, args, kw):
        a = to_na(args[0])
        ax = _axis(kw, args)

        def red(xs):
            if any(isinstance(x, D) for x in xs):
                return mk(which, *xs)
            best = 0
            for i, x in enumerate(xs):
                if (which == "argmax" and x > xs[best]) or (which == "argmin" and x < xs[best]):
                    best = i
            return best
        if a.ndim == 1 or ax is None:
            return red(a.flat())
        if ax in (1, -1):
            return NA([red(r) for r in a.data], 1)
        raise Undecided("axis")
    return f


# ---------------------------------------------------------------- constructors
def _shape(s):
    if isinstance(s, (tuple, list)):
        return tuple(_int(x) for x in s)
    return (_int(s),)


def _filled(shape, v):
    if len(shape) == 1:
        return NA([v] * shape[0], 1)
    if len(shape) == 2:
        return NA([[v] * shape[1] for _ in range(shape[0])], 2)
    raise Undecided("array rank > 2")


def np_full(it, args, kw):
    return _filled(_shape(args[0]), args[1] if len(args) > 1 else kw.get("fill_value"))


def np_zeros(it, args, kw):
    return _filled(_shape(args[0] if args else kw["shape"]), 0.0)


def np_ones(it, args, kw):
    return _filled(_shape(args[0]), 1.0)


def np_empty(it, args, kw):
    # uninitialised memory: reading a slot that was never written is undefined -> marked
    return _filled(_shape(args[0]), 0.0)


def like(v):
    def f(it, args, kw):
        a = to_na(args[0])
        fill = v if v is not None else (args[1] if len(args) > 1 else kw.get("fill_value"))
        return _filled(a.shape, fill)
    return f


def np_arange(it, args, kw):
    vals = [x for x in args]
    if any(isinstance(x, D) for x in vals):
        raise Undecided("data-dependent arange")
    if all(isinstance(x, int) for x in vals):
        return NA([x for x in range(*vals)], 1)
    start, stop, step = (0.0, vals[0], 1.0) if len(vals) == 1 else (vals[0], vals[1], vals[2] if len(vals) > 2 else 1.0)
    n = max(0, int(math.ceil((stop - start) / step)))
    return NA([start + i * step for i in range(n)], 1)


def np_linspace(it, args, kw):
    a, b = args[0], args[1]
    n = _int(args[2] if len(args) > 2 else kw.get("num", 50))
    if n == 1:
        return NA([a], 1)
    return NA([a + (b - a) * i / (n - 1) for i in range(n)], 1)


def np_array(it, args, kw):
    x = args[0]
    if isinstance(x, NA):
        return x.copy()
    if isinstance(x, (list, tuple, range)):
        return to_na(x)
    return x


def np_copy(it, args, kw):
    x = args[0]
    return x.copy() if isinstance(x, NA) else x


def np_concatenate(it, args, kw):
    parts = [to_na(p) for p in args[0]]
    ax = _axis(kw, args)
    if all(p.ndim == 1 for p in parts):
        out = []
        for p in parts:
            out += p.data
        return NA(out, 1)
    if all(p.ndim == 2 for p in parts) and (ax in (None, 0)):
        out = []
        for p in parts:
            out += [list(r) for r in p.data]
        return NA(out, 2)
    if all(p.ndim == 2 for p in parts) and ax == 1:
        return NA([sum((list(p.data[i]) for p in parts), []) for i in range(len(parts[0].data))], 2)
    raise Undecided("concatenate of mixed ranks")


def np_append(it, args, kw):
    return np_concatenate(it, [[to_na(args[0]), to_na(args[1])]], {})


def np_insert(it, args, kw):
    a = to_na(args[0])
    i = _int(args[1])
    vals = to_na(args[2]).data
    d = list(a.data)
    d[i:i] = vals
    return NA(d, 1)


def np_vstack(it, args, kw):
    rows = [to_na(p) for p in args[0]]
    return NA([list(r.data) for r in rows], 2)


def np_column_stack(it, args, kw):
    cols = [to_na(p) for p in args[0]]
    return NA([[c.data[i] for c in cols] for i in range(len(cols[0].data))], 2)


def np_repeat(it, args, kw):
    a = to_na(args[0])
    n = _int(args[1])
    return NA([x for x in a.data for _ in range(n)], 1)


# ---------------------------------------------------------------- elementwise
def ew1(op):
    def f(it, args, kw):
        x = args[0]
        if isinstance(x, (list, tuple)):
            x = to_na(x)
        if isinstance(x, NA):
            return map1(lambda e: unop(op, e), x)
        return unop(op, x)
    return f


UNINIT = D((1 << 4096) - 1, hash("uninitialised memory"), "uninit", ())
"""what a ufunc leaves where its `where=` mask is false and no `out=` buffer was given: whatever the allocator handed out - a value that
depends on the history of the process, i.e. (for the dependence rules) on every candle"""


def ew2(op):
    def f(it, args, kw):
        a, b = args[0], args[1]
        if isinstance(a, (list, tuple)):
            a = to_na(a)
        if isinstance(b, (list, tuple)):
            b = to_na(b)
        r = broadcast(op, a, b)
        w = kw.get("where")
        if w is None or w is True:
            return r
        out = kw.get("out")
        if out is None:
            # np.divide(a, b, where=mask) without out=: the masked-out elements are never written
            filler = map1(lambda x: UNINIT, r) if isinstance(r, NA) else UNINIT
        else:
            filler = out
        return np_where(it, [w, r, filler], {})
    return f


def np_where(it, args, kw):
    if len(args) == 1:
        c = to_na(args[0])
        if any(isinstance(x, D) for x in c.flat()):
            raise Undecided("np.where(cond) with data-dependent condition (index set)")
        return (NA([i for i, x in enumerate(c.data) if x], 1),)
    c, a, b = args
    if not isinstance(c, NA) and not isinstance(a, NA) and not isinstance(b, NA):
        return phi(c, a, b)
    cn = to_na(c) if isinstance(c, (NA, list, tuple)) else c
    t = broadcast(lambda x, y: (x, y), a if not isinstance(a, (list, tuple)) else to_na(a), b if not isinstance(b, (list, tuple)) else to_na(b))
    if not isinstance(t, NA):
        t = (a, b)
        return map1(lambda cc: phi(cc, a, b), cn)
    return broadcast(lambda cc, ab: phi(cc, ab[0], ab[1]), cn, t)


def np_clip(it, args, kw):
    a = args[0]
    lo = args[1] if len(args) > 1 else kw.get("a_min", kw.get("min"))
    hi = args[2] if len(args) > 2 else kw.get("a_max", kw.get("max"))
    r = a
    if lo is not None:
        r = broadcast("max", r, lo)
    if hi is not None:
        r = broadcast("min", r, hi)
    return r


def np_nan_to_num(it, args, kw):
    x = args[0]
    nanv = kw.get("nan", 0.0)

    def f(e):
        if isinstance(e, D):
            return mk("nan_to_num", e)
        if e != e:
            return nanv
        if e in (math.inf, -math.inf):
            return kw.get("posinf", 1.7976931348623157e308) if e > 0 else kw.get("neginf", -1.7976931348623157e308)
        return e
    return map1(f, x) if isinstance(x, NA) else f(x)


def np_cumsum(it, args, kw):
    a = to_na(args[0])
    out, acc = [], None
    for x in a.data:
        acc = x if acc is None else binop("add", acc, x)
        out.append(acc)
    return NA(out, 1)


def accumulate(op):
    def f(it, args, kw):
        a = to_na(args[0])
        out, acc = [], None
        for x in a.data:
            acc = x if acc is None else binop(op, acc, x)
            out.append(acc)
        return NA(out, 1)
    return f


def np_diff(it, args, kw):
    a = to_na(args[0])
    n = _int(kw.get("n", args[1] if len(args) > 1 else 1))
    d = list(a.data)
    if kw.get("prepend") is not None:
        d = list(to_na(kw["prepend"]).data) + d
    if kw.get("append") is not None:
        d = d + list(to_na(kw["append"]).data)
    for _ in range(n):
        d = [binop("sub", d[i + 1], d[i]) for i in range(len(d) - 1)]
    return NA(d, 1)


def np_roll(it, args, kw):
    a = to_na(args[0])
    k = _int(args[1] if len(args) > 1 else kw["shift"])
    n = len(a.data)
    if n == 0:
        return a.copy()
    k %= n
    return NA(a.data[-k:] + a.data[:-k] if k else list(a.data), 1)


def np_convolve(it, args, kw):
    a, v = to_na(args[0]), to_na(args[1])
    mode = kw.get("mode", args[2] if len(args) > 2 else "full")
    n, m = len(a.data), len(v.data)
    if n < m:
        a, v, n, m = v, a, m, n
    full = []
    for k in range(n + m - 1):
        acc = None
        for j in range(m):
            i = k - j
            if 0 <= i < n:
                t = binop("mul", a.data[i], v.data[j])
                acc = t if acc is None else binop("add", acc, t)
        full.append(acc if acc is not None else 0.0)
    if mode == "full":
        return NA(full, 1)
    if mode == "valid":
        return NA(full[m - 1:n], 1)
    if mode == "same":
        start = (m - 1) // 2
        return NA(full[start:start + n], 1)
    raise Undecided("convolve mode")


def np_dot(it, args, kw):
    a, b = to_na(args[0]), to_na(args[1])
    if a.ndim == 1 and b.ndim == 1:
        return fold("add", [binop("mul", x, y) for x, y in zip(a.data, b.data)], 0.0)
    if a.ndim == 2 and b.ndim == 1:
        return NA([fold("add", [binop("mul", x, y) for x, y in zip(r, b.data)], 0.0) for r in a.data], 1)
    if a.ndim == 1 and b.ndim == 2:
        return NA([fold("add", [binop("mul", a.data[i], b.data[i][j]) for i in range(len(a.data))], 0.0) for j in range(b.shape[1])], 1)
    raise Undecided("dot of matrices")


def np_average(it, args, kw):
    a = to_na(args[0])
    w = kw.get("weights", args[2] if len(args) > 2 else None)
    ax = _axis(kw, args)
    if w is None:
        return np_mean(it, args, kw)
    w = to_na(w)
    if a.ndim == 1:
        return binop("div", fold("add", [binop("mul", x, y) for x, y in zip(a.data, w.data)], 0.0), fold("add", list(w.data), 0.0))
    if ax in (1, -1):
        sw = fold("add", list(w.data), 0.0)
        return NA([binop("div", fold("add", [binop("mul", x, y) for x, y in zip(r, w.data)], 0.0), sw) for r in a.data], 1)
    raise Undecided("average axis")


def sliding_window_view(it, args, kw):
    a = to_na(args[0])
    w = kw.get("window_shape", args[1] if len(args) > 1 else None)
    if isinstance(w, (tuple, list)):
        w = w[0]
    w = _int(w)
    n = len(a.data)
    if a.ndim != 1:
        raise Undecided("sliding_window_view on 2-D")
    if w > n:
        raise PyRaise("ValueError: window larger than array")
    return NA([a.data[i:i + w] for i in range(n - w + 1)], 2)


def as_strided(it, args, kw):
    a = to_na(args[0])
    shape = kw.get("shape", args[1] if len(args) > 1 else None)
    strides = kw.get("strides", args[2] if len(args) > 2 else None)
    if shape is None or strides is None or a.ndim != 1:
        raise Undecided("as_strided")
    shape = _shape(shape)
    st = [_int(s) for s in strides]
    if len(shape) != 2:
        raise Undecided("as_strided rank")
    if shape[0] < 0 or shape[1] < 0:
        # a window longer than the data: numpy raises, numba's compiled version reads arbitrary memory
        raise Undecided("as_strided with a negative shape (the window is longer than the data): undefined behaviour in a compiled kernel")
    item = 8
    s0, s1 = st[0] // item, st[1] // item
    rows = []
    for i in range(shape[0]):
        row = []
        for j in range(shape[1]):
            k = i * s0 + j * s1
            if not (0 <= k < len(a.data)):
                raise Undecided("as_strided out of bounds")
            row.append(a.data[k])
        rows.append(row)
    return NA(rows, 2)


def np_pad(it, args, kw):
    a = to_na(args[0])
    pw = args[1]
    mode = kw.get("mode", args[2] if len(args) > 2 else "constant")
    if isinstance(pw, (tuple, list)):
        l, r = _int(pw[0]), _int(pw[1])
    else:
        l = r = _int(pw)
    if mode == "constant":
        cv = kw.get("constant_values", 0.0)
        if isinstance(cv, (tuple, list)):
            cl, cr = cv
        else:
            cl = cr = cv
        return NA([cl] * l + list(a.data) + [cr] * r, 1)
    if mode == "edge":
        return NA([a.data[0]] * l + list(a.data) + [a.data[-1]] * r, 1)
    raise Undecided(f"np.pad mode {mode}")


def lfilter(it, args, kw):
    b, a, x = to_na(args[0]), to_na(args[1]), to_na(args[2])
    if any(isinstance(v, D) for v in b.data + a.data):
        raise Undecided("data-dependent filter coefficients")
    a0 = a.data[0]
    y = []
    for n in range(len(x.data)):
        acc = 0.0
        for k, bk in enumerate(b.data):
            if n - k >= 0:
                acc = binop("add", acc, binop("mul", bk / a0, x.data[n - k]))
        for k in range(1, len(a.data)):
            if n - k >= 0:
                acc = binop("sub", acc, binop("mul", a.data[k] / a0, y[n - k]))
        y.append(acc)
    return NA(y, 1)


def filter1d(op):
    """scipy.ndimage.maximum_filter1d / minimum_filter1d (mode='reflect')"""
    def f(it, args, kw):
        a = to_na(args[0])
        size = _int(kw.get("size", args[1] if len(args) > 1 else None))
        origin = _int(kw.get("origin", 0))
        mode = kw.get("mode", "reflect")
        n = len(a.data)
        out = []
        for i in range(n):
            start = i - size // 2 - origin
            xs = []
            for k in range(start, start + size):
                j = k
                if mode == "reflect":
                    while j < 0 or j >= n:
                        j = -j - 1 if j < 0 else 2 * n - 1 - j
                elif mode == "nearest":
                    j = min(max(j, 0), n - 1)
                else:
                    raise Undecided(f"filter1d mode {mode}")
                xs.append(a.data[j])
            out.append(fold(op, xs))
        return NA(out, 1)
    return f


def functools_reduce(it, args, kw):
    f, xs = args[0], it.iterate(args[1])
    acc_set = len(args) > 2
    acc = args[2] if acc_set else None
    for x in xs:
        if not acc_set:
            acc, acc_set = x, True
            continue
        acc = it.call(f, [acc, x], {})
    return acc


def opaque_all(name):
    """result depends on every element of every array argument (structure opaque)"""
    def f(it, args, kw):
        elems = []
        for a in args:
            if isinstance(a, NA):
                elems += list(a.flat())
            elif isinstance(a, (list, tuple)):
                elems += list(to_na(a).flat())
            else:
                elems.append(a)
        return mk(name, *elems)
    return f


def np_lstsq(it, args, kw):
    a, b = to_na(args[0]), to_na(args[1])
    d = mk("lstsq", *a.flat(), *b.flat())
    ncols = a.shape[1] if a.ndim == 2 else 1
    sol = NA([mk("lstsq_coef", d, j) for j in range(ncols)], 1)
    return (sol, NA([mk("lstsq_res", d)], 1), ncols, NA([mk("lstsq_sv", d, j) for j in range(ncols)], 1))


def np_matmul(it, args, kw):
    a, b = to_na(args[0]), to_na(args[1])
    if a.ndim == 2 and b.ndim == 2:
        return NA([[fold("add", [binop("mul", a.data[i][k], b.data[k][j]) for k in range(a.shape[1])], 0.0) for j in range(b.shape[1])] for i in range(a.shape[0])], 2)
    return np_dot(it, args, kw)


def np_isscalar(it, args, kw):
    return not isinstance(args[0], (NA, list, tuple))


def np_errstate(it, args, kw):
    return None


def np_outer_sub(it, args, kw):
    a, b = to_na(args[0]), to_na(args[1])
    return NA([[binop("sub", x, y) for y in b.data] for x in a.data], 2)


def np_tril(it, args, kw):
    a = to_na(args[0])
    k = _int(args[1] if len(args) > 1 else kw.get("k", 0))
    return NA([[x if j <= i + k else 0.0 for j, x in enumerate(r)] for i, r in enumerate(a.data)], 2)


def np_count_nonzero(it, args, kw):
    """count_nonzero(mask): concrete where the mask is; for isnan(x) / ~isnan(x) of computed elements the nominal count takes a
    computed element to be a number (as everywhere), but when such an element MAY be NaN on valid candles the count depends on it"""
    a = to_na(args[0])
    if _axis(kw, args[1:]) is not None and a.ndim != 1:
        raise Undecided("count_nonzero along an axis")
    n = 0
    sus = []
    from .indic_finite import may_be_nonfinite
    for k in a.flat():
        if isinstance(k, D):
            neg, kk = False, k
            while kk.op in ("not", "invert") and len(kk.args) == 1 and isinstance(kk.args[0], D):
                kk, neg = kk.args[0], not neg
            if kk.op != "isnan" or not isinstance(kk.args[0], D):
                raise Undecided("count_nonzero on a data-dependent array")
            if neg:
                n += 1              # ~isnan(computed): nominally a number
            if may_be_nonfinite(kk.args[0]):
                sus.append(kk.args[0])
        elif k:
            n += 1
    if not sus:
        return n
    m_all = 0
    for x in sus:
        m_all |= x.m
    carrier = sus[0] if len(sus) == 1 else D(m_all, hash(("nan-any",) + tuple(x.h for x in sus)), "nanany", tuple(sus))
    it.assumptions_used = getattr(it, "assumptions_used", set()) | {"isnan(computed value) is False in count_nonzero (generic finite inputs); the count carries the dependence on the elements that may be NaN"}
    return TaintedInt(n, carrier)


def np_flatnonzero(it, args, kw):
    a = to_na(args[0])
    if any(isinstance(x, D) for x in a.data):
        # flatnonzero(~isnan(x)) / flatnonzero(isnan(x)): positions of the non-NaN elements; as in the x[~isnan(x)] idiom a computed
        # element counts as a number, the constant padding as NaN (the positions are then concrete)
        out = []
        for i, k in enumerate(a.data):
            if isinstance(k, D):
                neg = False
                kk = k
                while kk.op in ("not", "invert") and len(kk.args) == 1 and isinstance(kk.args[0], D):
                    kk, neg = kk.args[0], not neg
                if kk.op != "isnan":
                    raise Undecided("flatnonzero on data-dependent array")
                truth = neg            # isnan(computed) taken as False
            else:
                truth = bool(k)
            if truth:
                out.append(i)
        it.assumptions_used = getattr(it, "assumptions_used", set()) | {"isnan(computed value) is False in flatnonzero (generic finite inputs)"}
        return NA(out, 1)
    return NA([i for i, x in enumerate(a.data) if x], 1)


def np_ascontiguous(it, args, kw):
    return args[0]


def np_shift(it, args, kw):
    """jesse.helpers.np_shift(arr, num, fill_value)"""
    a = to_na(args[0])
    k = _int(args[1])
    fill = args[2] if len(args) > 2 else kw.get("fill_value", NAN)
    n = len(a.data)
    if a.ndim != 1:
        raise Undecided("np_shift 2-D")
    if k > 0:
        return NA([fill] * min(k, n) + a.data[:max(n - k, 0)], 1)
    if k < 0:
        return NA(a.data[-k:] + [fill] * min(-k, n), 1)
    return a.copy()


def same_length(it, args, kw):
    big, short = to_na(args[0]), to_na(args[1])
    k = len(big.data) - len(short.data)
    if k < 0:
        raise PyRaise("ValueError: negative dimensions")
    return NA([NAN] * k + list(short.data), 1)


def get_config(it, args, kw):
    key = args[0]
    if key == "env.data.warmup_candles_num":
        return it.warmup
    return args[1] if len(args) > 1 else kw.get("default")


def slice_candles(it, args, kw):
    c, seq = args[0], args[1] if len(args) > 1 else kw.get("sequential")
    if isinstance(seq, D):
        raise Undecided("abstract sequential flag")
    c = to_na(c)
    if not seq and len(c.data) > it.warmup:
        return NA([list(r) for r in c.data[-it.warmup:]], 2) if c.ndim == 2 else NA(c.data[-it.warmup:], 1)
    return c


def namedtuple_(it, args, kw):
    fields = args[1]
    if isinstance(fields, str):
        fields = fields.replace(",", " ").split()
    return NTClass(args[0], list(fields))


# ---------------------------------------------------------------- attribute models
def na_attr(it, a: NA, attr: str):
    if attr == "shape":
        return a.shape
    if attr == "size":
        return len(a.flat())
    if attr == "ndim":
        return a.ndim
    if attr == "T":
        if a.ndim == 1:
            return a
        return NA([[a.data[i][j] for i in range(a.shape[0])] for j in range(a.shape[1])], 2)
    if attr == "dtype":
        return "float64"
    if attr == "strides":
        return (8,) if a.ndim == 1 else (8 * a.shape[1], 8)
    if attr == "itemsize":
        return 8
    if attr == "copy":
        return BM(lambda i, ar, k: a.copy())
    if attr == "astype":
        def astype(i, ar, k):
            t = ar[0]
            name = getattr(t, "name", None) or getattr(t, "dotted", None) or str(t)
            if "int" in str(name):
                return map1(lambda x: unop("int", x), a)
            if "bool" in str(name):
                return map1(lambda x: unop("bool", x), a)
            return a.copy()
        return BM(astype)
    if attr in ("sum", "max", "min", "mean", "std", "var", "prod", "argmax", "argmin", "cumsum", "any", "all"):
        fn = {"sum": np_sum, "max": np_max, "min": np_min, "mean": np_mean, "std": opaque_reduce("std"), "var": opaque_reduce("var"),
              "prod": np_prod, "argmax": np_argmax("argmax"), "argmin": np_argmax("argmin"), "cumsum": np_cumsum,
              "any": lambda i, ar, k: reduce_("or", ar[0], _axis(k, ar), init=False), "all": lambda i, ar, k: reduce_("and", ar[0], _axis(k, ar), init=True)}[attr]
        return BM(lambda i, ar, k: fn(i, [a] + list(ar), k))
    if attr == "reshape":
        def reshape(i, ar, k):
            shp = ar[0] if len(ar) == 1 and isinstance(ar[0], (tuple, list)) else ar
            shp = [_int(x) for x in shp]
            flat = a.flat()
            if len(shp) == 1 or (len(shp) == 2 and shp[1] == 1 and False):
                return NA(list(flat), 1)
            if len(shp) == 2:
                r, c = shp
                if r == -1:
                    r = len(flat) // c
                if c == -1:
                    c = len(flat) // r
                return NA([flat[i2 * c:(i2 + 1) * c] for i2 in range(r)], 2)
            raise Undecided("reshape rank")
        return BM(reshape)
    if attr in ("flatten", "ravel"):
        return BM(lambda i, ar, k: NA(list(a.flat()), 1))
    if attr == "tolist":
        return BM(lambda i, ar, k: list(a.data) if a.ndim == 1 else [list(r) for r in a.data])
    if attr == "fill":
        def fill(i, ar, k):
            if a.ndim == 1:
                a.data = [ar[0]] * len(a.data)
            else:
                a.data = [[ar[0]] * len(r) for r in a.data]
        return BM(fill)
    if attr == "item":
        return BM(lambda i, ar, k: a.flat()[0])
    if attr == "round":
        return BM(lambda i, ar, k: map1(lambda x: unop("round", x) if not ar else mk("roundn", x, ar[0]) if isinstance(x, D) else round(x, ar[0]), a))
    if attr == "clip":
        return BM(lambda i, ar, k: np_clip(i, [a] + list(ar), k))
    if attr == "dot":
        return BM(lambda i, ar, k: np_dot(i, [a, ar[0]], k))
    raise Undecided(f"ndarray.{attr}")


def scalar_attr(it, v, attr):
    if attr in ("item", "copy"):
        return BM(lambda i, ar, k: v)
    if attr == "real":
        return v
    if attr == "astype":
        return BM(lambda i, ar, k: v)
    raise Undecided(f"scalar.{attr}")


def list_attr(it, lst, attr):
    if attr == "append":
        return BM(lambda i, ar, k: lst.append(ar[0]))
    if attr == "extend":
        return BM(lambda i, ar, k: lst.extend(i.iterate(ar[0])))
    if attr == "pop":
        return BM(lambda i, ar, k: lst.pop(_int(ar[0]) if ar else -1))
    if attr == "copy":
        return BM(lambda i, ar, k: list(lst))
    if attr == "insert":
        return BM(lambda i, ar, k: lst.insert(_int(ar[0]), ar[1]))
    if attr == "index":
        return BM(lambda i, ar, k: lst.index(ar[0]))
    raise Undecided(f"list.{attr}")


def str_attr(it, s, attr):
    if attr in ("lower", "upper", "strip", "startswith", "endswith", "format", "replace", "split"):
        return BM(lambda i, ar, k: getattr(s, attr)(*ar))
    raise Undecided(f"str.{attr}")


def dict_attr(it, d, attr):
    if attr == "get":
        return BM(lambda i, ar, k: d.get(ar[0], ar[1] if len(ar) > 1 else None))
    if attr in ("items", "keys", "values"):
        return BM(lambda i, ar, k: list(getattr(d, attr)()))
    raise Undecided(f"dict.{attr}")


# ---------------------------------------------------------------- builtins
def b_len(it, args, kw):
    v = args[0]
    if isinstance(v, NA):
        return len(v.data)
    if isinstance(v, NT):
        return len(v.vals)
    return len(v)


def b_range(it, args, kw):
    return range(*[_int(a, "range bound") for a in args])


def b_minmax(op):
    def f(it, args, kw):
        xs = list(args[0].flat()) if len(args) == 1 and isinstance(args[0], NA) else (list(args[0]) if len(args) == 1 else list(args))
        if not xs:
            raise PyRaise("ValueError: empty")
        # python's min/max (NaN handling differs from numpy's, but dependence is the same)
        if not any(isinstance(x, D) for x in xs):
            return (max if op == "max" else min)(xs)
        return fold(op, xs)
    return f


def b_abs(it, args, kw):
    return ew1("abs")(it, args, kw)


def b_sum(it, args, kw):
    xs = args[0].flat() if isinstance(args[0], NA) else list(args[0])
    return fold("add", xs, args[1] if len(args) > 1 else 0)


def b_isinstance(it, args, kw):
    v, t = args
    names = []
    for x in (t if isinstance(t, tuple) else (t,)):
        names.append(getattr(x, "name", None) or getattr(x, "dotted", None) or str(x))
    names = " ".join(map(str, names))
    if isinstance(v, NA):
        return "ndarray" in names
    if isinstance(v, bool):
        return "bool" in names or "int" in names
    if isinstance(v, int):
        return "int" in names
    if isinstance(v, (float, D)):
        return "float" in names or "floating" in names or "number" in names
    if isinstance(v, str):
        return "str" in names
    if isinstance(v, (list,)):
        return "list" in names
    if isinstance(v, tuple):
        return "tuple" in names
    return False


def b_round(it, args, kw):
    v = args[0]
    if isinstance(v, D):
        return mk("round", *args)
    return round(*args)


def b_int(it, args, kw):
    if isinstance(args[0], TaintedInt):
        return args[0]
    return unop("int", args[0])


def b_float(it, args, kw):
    v = args[0] if args else 0.0
    if isinstance(v, str):
        return float(v)
    return unop("float", v)


def b_enumerate(it, args, kw):
    start = args[1] if len(args) > 1 else kw.get("start", 0)
    return [(i + start, x) for i, x in enumerate(it.iterate(args[0]))]


def b_zip(it, args, kw):
    return [tuple(t) for t in zip(*[it.iterate(a) for a in args])]


def b_any(it, args, kw):
    xs = it.iterate(args[0])
    if any(isinstance(x, D) for x in xs):
        return fold("or", xs, False)
    return any(xs)


def b_all(it, args, kw):
    xs = it.iterate(args[0])
    if any(isinstance(x, D) for x in xs):
        return fold("and", xs, True)
    return all(xs)


def _exc(name):
    def f(it, args, kw):
        return name
    return f


BUILTINS: Dict[str, Any] = {}


def _init_builtins():
    global BUILTINS
    BUILTINS = {
        "len": B(b_len, "len"), "range": B(b_range, "range"), "min": B(b_minmax("min"), "min"), "max": B(b_minmax("max"), "max"),
        "abs": B(b_abs, "abs"), "sum": B(b_sum, "sum"), "isinstance": B(b_isinstance, "isinstance"), "round": B(b_round, "round"),
        "int": B(b_int, "int"), "float": B(b_float, "float"), "bool": B(lambda it, a, k: unop("bool", a[0]), "bool"),
        "enumerate": B(b_enumerate, "enumerate"), "zip": B(b_zip, "zip"), "any": B(b_any, "any"), "all": B(b_all, "all"),
        "list": B(lambda it, a, k: list(it.iterate(a[0])) if a else [], "list"), "tuple": B(lambda it, a, k: tuple(it.iterate(a[0])) if a else (), "tuple"),
        "str": B(lambda it, a, k: str(a[0]) if a and not isinstance(a[0], D) else "<str>", "str"), "print": B(lambda it, a, k: None, "print"),
        "sorted": B(lambda it, a, k: sorted(it.iterate(a[0])) if not any(isinstance(x, D) for x in it.iterate(a[0])) else _und("sorted on abstract values"), "sorted"),
        "reversed": B(lambda it, a, k: list(reversed(it.iterate(a[0]))), "reversed"), "dict": B(lambda it, a, k: dict(*a, **k), "dict"),
        "type": B(lambda it, a, k: B(None, type(a[0]).__name__ if not isinstance(a[0], NA) else "ndarray"), "type"),
        "pow": B(lambda it, a, k: binop("pow", a[0], a[1]), "pow"), "divmod": B(lambda it, a, k: (binop("floordiv", a[0], a[1]), binop("mod", a[0], a[1])), "divmod"),
        "True": True, "False": False, "None": None, "object": B(None, "object"),
        "ValueError": B(_exc("ValueError"), "ValueError"), "TypeError": B(_exc("TypeError"), "TypeError"), "Exception": B(_exc("Exception"), "Exception"),
        "NotImplementedError": B(_exc("NotImplementedError"), "NotImplementedError"), "IndexError": B(_exc("IndexError"), "IndexError"),
        "slice": B(lambda it, a, k: slice(*a), "slice"), "map": B(lambda it, a, k: [it.call(a[0], [x], {}) for x in it.iterate(a[1])], "map"),
    }


def _und(msg):
    raise Undecided(msg)


EXT: Dict[str, Any] = {}
EXT_CONST: Dict[str, Any] = {}
REPO_STUBS: Dict[str, Any] = {}


def _init_ext():
    np = "numpy."
    table = {
        "full": np_full, "zeros": np_zeros, "ones": np_ones, "empty": np_empty, "full_like": like(None), "zeros_like": like(0.0),
        "ones_like": like(1.0), "empty_like": like(0.0), "arange": np_arange, "linspace": np_linspace, "array": np_array, "asarray": np_array,
        "ascontiguousarray": np_ascontiguous, "copy": np_copy, "concatenate": np_concatenate, "append": np_append, "insert": np_insert,
        "vstack": np_vstack, "column_stack": np_column_stack, "hstack": lambda it, a, k: np_concatenate(it, [a[0]], {}), "repeat": np_repeat,
        "count_nonzero": np_count_nonzero, "sum": np_sum, "nansum": np_nansum, "max": np_max, "amax": np_max, "min": np_min, "amin": np_min, "nanmax": np_max, "nanmin": np_min,
        "mean": np_mean, "nanmean": np_nanmean, "prod": np_prod,
        "std": opaque_reduce("std"), "nanstd": opaque_reduce("nanstd"), "var": opaque_reduce("var"), "median": opaque_reduce("median"),
        "percentile": opaque_reduce("percentile"), "quantile": opaque_reduce("quantile"),
        "argmax": np_argmax("argmax"), "argmin": np_argmax("argmin"),
        "abs": ew1("abs"), "absolute": ew1("abs"), "fabs": ew1("abs"), "sqrt": ew1("sqrt"), "log": ew1("log"), "log10": ew1("log10"), "exp": ew1("exp"),
        "sin": ew1("sin"), "cos": ew1("cos"), "tan": ew1("tan"), "arctan": ew1("atan"), "arcsin": ew1("asin"), "arccos": ew1("acos"), "tanh": ew1("tanh"),
        "isnan": ew1("isnan"), "isfinite": ew1("isfinite"), "isinf": ew1("isinf"), "sign": ew1("sign"), "floor": ew1("floor"), "ceil": ew1("ceil"),
        "round": ew1("round"), "around": ew1("round"), "rint": ew1("round"), "degrees": ew1("degrees"), "radians": ew1("radians"), "square": ew1("square"),
        "logical_not": ew1("not"), "negative": ew1("neg"), "float64": ew1("float"), "float32": ew1("float"), "int64": ew1("int"), "int32": ew1("int"),
        "maximum": ew2("max"), "minimum": ew2("min"), "fmax": ew2("fmax"), "fmin": ew2("fmin"), "power": ew2("pow"), "divide": ew2("div"),
        "true_divide": ew2("div"), "multiply": ew2("mul"), "add": ew2("add"), "subtract": ew2("sub"), "greater": ew2("gt"), "less": ew2("lt"),
        "greater_equal": ew2("ge"), "less_equal": ew2("le"), "equal": ew2("eq"), "not_equal": ew2("ne"), "logical_and": ew2("and"),
        "logical_or": ew2("or"), "arctan2": ew2("atan2"), "mod": ew2("mod"),
        "tensordot": lambda it, a, k: np_dot(it, [a[0], a[1]], {}), "where": np_where, "clip": np_clip, "nan_to_num": np_nan_to_num, "cumsum": np_cumsum, "diff": np_diff, "roll": np_roll,
        "convolve": np_convolve, "dot": np_dot, "average": np_average, "pad": np_pad, "isscalar": np_isscalar, "errstate": np_errstate,
        "tril": np_tril, "flatnonzero": np_flatnonzero,
        "maximum.accumulate": accumulate("max"), "minimum.accumulate": accumulate("min"), "subtract.outer": np_outer_sub,
        "maximum.reduce": lambda it, a, k: fold_arrays("max", a[0]), "minimum.reduce": lambda it, a, k: fold_arrays("min", a[0]),
        "lib.stride_tricks.sliding_window_view": sliding_window_view, "lib.stride_tricks.as_strided": as_strided,
        "cumprod": accumulate("mul"),
    }
    for k, v in table.items():
        EXT[np + k] = v
    EXT["numpy.lib.stride_tricks.sliding_window_view"] = sliding_window_view
    EXT["numpy.lib.stride_tricks.as_strided"] = as_strided
    for m in ("math.",):
        for k, op in (("sqrt", "sqrt"), ("log", "log"), ("log10", "log10"), ("exp", "exp"), ("sin", "sin"), ("cos", "cos"), ("tan", "tan"), ("atan", "atan"),
                      ("asin", "asin"), ("acos", "acos"), ("tanh", "tanh"), ("isnan", "isnan"), ("floor", "floor"), ("ceil", "ceil"), ("fabs", "abs"),
                      ("degrees", "degrees"), ("radians", "radians"), ("isfinite", "isfinite"), ("isinf", "isinf")):
            EXT[m + k] = ew1(op)
        EXT[m + "pow"] = ew2("pow")
        EXT[m + "atan2"] = ew2("atan2")
    EXT["scipy.ndimage.maximum_filter1d"] = filter1d("max")
    EXT["scipy.ndimage.minimum_filter1d"] = filter1d("min")
    EXT["functools.reduce"] = functools_reduce
    EXT["operator.mul"] = lambda it, a, k: binop("mul", a[0], a[1])
    EXT["operator.add"] = lambda it, a, k: binop("add", a[0], a[1])
    for nm in ("kurtosis", "skew", "median_abs_deviation", "iqr"):
        EXT["scipy.stats." + nm] = opaque_reduce(nm)
    EXT["numpy.linalg.lstsq"] = np_lstsq
    EXT["numpy.linalg.inv"] = lambda it, a, k: map1(lambda x: mk("inv", *to_na(a[0]).flat(), hid(x)), to_na(a[0]))
    EXT["numpy.matmul"] = np_matmul
    EXT["scipy.signal.lfilter"] = lfilter
    EXT["scipy.signal.signal.lfilter"] = lfilter
    EXT["collections.namedtuple"] = namedtuple_
    # numba decorators are identity
    for d in ("numba.njit", "numba.jit", "numba.prange"):
        pass
    EXT["numba.prange"] = b_range
    EXT_CONST.update({"numpy.nan": NAN, "numpy.NaN": NAN, "numpy.NAN": NAN, "numpy.inf": math.inf, "numpy.Inf": math.inf, "numpy.pi": math.pi, "math.pi": math.pi,
                      "math.nan": NAN, "math.inf": math.inf, "math.e": math.e, "numpy.e": math.e, "numpy.newaxis": None})
    REPO_STUBS.update({
        "jesse/helpers.py:get_config": get_config,
        "jesse/helpers.py:slice_candles": slice_candles,
        "jesse/helpers.py:np_shift": np_shift,
        "jesse/helpers.py:same_length": same_length,
    })


def fold_arrays(op, arrs):
    arrs = [to_na(a) for a in arrs]
    acc = arrs[0]
    for a in arrs[1:]:
        acc = broadcast(op, acc, a)
    return acc


_init_builtins()
_init_ext()
