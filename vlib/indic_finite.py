"""Engine E7 add-on: may an abstract value be NaN / infinite on VALID candles?

Valid candles have positive prices (columns 1-4), non-negative volume (column 5) - flat candles (high == low) and
no-trade candles (volume 0) are legal.  For every node of a dependence DAG the analysis computes

    sign      'pos' (> 0), 'nonneg' (>= 0) or 'any'
    culprits  the set of sub-expressions that can make the value non-finite: denominators that may be zero, logarithms /
              roots / powers of values that may leave their domain.  Empty set = finite on every valid input.

`phi(cond, a, b)` (np.where, guarded assignment) removes the culprits that `cond` tests against zero, so the usual
`np.where(den == 0, 0, num / den)` idiom is finite.  The analysis is optimistic for operators it does not know (it must not
raise alarms on code that is fine), and it is only used to ADD dependence: an element that may be NaN makes the position of
everything that survives a NaN-stripping compaction depend on it; a zero weight does not erase the dependence on a factor
that may be infinite (0 * inf = NaN).
"""
from __future__ import annotations

from typing import Dict, FrozenSet, Tuple

from .indic_vals import D

POS, NONNEG, ANY = "pos", "nonneg", "any"
DOMAIN = "domain"          # a culprit that no zero-test excuses
Info = Tuple[str, FrozenSet]


def _num(x) -> Info:
    if isinstance(x, bool):
        return (NONNEG, frozenset())
    if isinstance(x, (int, float)):
        if x != x or x in (float("inf"), float("-inf")):
            return (ANY, frozenset([DOMAIN]))
        return (POS if x > 0 else NONNEG if x >= 0 else ANY, frozenset())
    return (ANY, frozenset())


def _tested(cond, out: set):
    """hids of the expressions that `cond` compares with zero (through abs / and / or / not)"""
    stack = [cond]
    while stack:
        c = stack.pop()
        if not isinstance(c, D):
            continue
        if c.op in ("and", "or", "not", "invert", "bitand", "bitor"):
            stack.extend(c.args)
        elif c.op in ("eq", "ne", "gt", "lt", "ge", "le") and len(c.args) == 2:
            a, b = c.args
            for x, y in ((a, b), (b, a)):
                if not isinstance(y, D) and isinstance(y, (int, float)) and not isinstance(y, bool):
                    z = x
                    while isinstance(z, D) and z.op in ("abs", "fabs") and z.args:
                        out.add(z.h)
                        z = z.args[0]
                    if isinstance(z, D):
                        out.add(z.h)
            # a == b / a != b between two expressions: the difference is what is tested
            if isinstance(a, D) and isinstance(b, D):
                out.add(hash(("sub", a.h, b.h)))
                out.add(hash(("sub", b.h, a.h)))
        elif c.op in ("isnan", "isinf", "isfinite") and c.args:
            if isinstance(c.args[0], D):
                out.add(("nanof", c.args[0].h))


def analyse(root, memo=None) -> Info:
    if not isinstance(root, D):
        return _num(root)
    stack = [root]
    while stack:
        d = stack[-1]
        if d.fi is not None:
            stack.pop()
            continue
        pending = [a for a in d.args if isinstance(a, D) and a.fi is None] if d.op != "in" else []
        if pending:
            stack.extend(pending)
            continue
        d.fi = _node(d, memo)
        stack.pop()
    return root.fi


def _get(a, memo) -> Info:
    return a.fi if isinstance(a, D) else _num(a)


def _node(d: D, memo) -> Info:
    op = d.op
    if op == "in":
        col = d.args[2] if len(d.args) > 2 else None
        if col in (1, 2, 3, 4, 0):
            return (POS, frozenset())
        if col == 5:
            return (NONNEG, frozenset())
        return (ANY, frozenset())
    infos = [_get(a, memo) for a in d.args]
    cul = frozenset().union(*[i[1] for i in infos]) if infos else frozenset()
    sg = [i[0] for i in infos]
    if op == "add":
        s = POS if (POS in sg and all(x in (POS, NONNEG) for x in sg)) else NONNEG if all(x in (POS, NONNEG) for x in sg) else ANY
        return (s, cul)
    if op == "mul":
        s = POS if all(x == POS for x in sg) else NONNEG if all(x in (POS, NONNEG) for x in sg) else ANY
        if len(d.args) == 2 and isinstance(d.args[0], D) and isinstance(d.args[1], D) and d.args[0].h == d.args[1].h:
            s = NONNEG if s == ANY else s
        return (s, cul)
    if op in ("div", "floordiv", "mod"):
        den = d.args[1]
        dsg = sg[1]
        if dsg != POS and not (not isinstance(den, D) and isinstance(den, (int, float)) and den != 0):
            cul = cul | frozenset([den.h if isinstance(den, D) else DOMAIN])
        # the sign of the quotient where it is defined (a zero denominator is recorded as a culprit, not in the sign)
        s = POS if (sg[0] == POS and dsg == POS) else NONNEG if (sg[0] in (POS, NONNEG) and dsg in (POS, NONNEG)) else ANY
        return (s, cul)
    if op in ("abs", "fabs"):
        return (POS if sg[0] == POS else NONNEG, cul)
    if op == "sqrt":
        if sg[0] not in (POS, NONNEG):
            # roots of sums of squares / variances are common: only a plain difference is suspicious; stay optimistic
            pass
        return (POS if sg[0] == POS else NONNEG, cul)
    if op in ("log", "log10", "log2", "log1p"):
        if sg[0] != POS:
            a = d.args[0]
            cul = cul | frozenset([a.h if isinstance(a, D) else DOMAIN])
        return (ANY, cul)
    if op == "exp":
        return (POS, cul)
    if op == "pow":
        base, ex = d.args
        if not isinstance(ex, D) and isinstance(ex, (int, float)) and ex < 0 and sg[0] != POS:
            cul = cul | frozenset([base.h if isinstance(base, D) else DOMAIN])
        return (POS if sg[0] == POS else NONNEG if (not isinstance(ex, D) and isinstance(ex, (int, float)) and ex == int(ex) and int(ex) % 2 == 0) else ANY, cul)
    if op in ("max", "fmax"):
        return (POS if POS in sg else NONNEG if NONNEG in sg else ANY, cul)
    if op in ("min", "fmin"):
        return (POS if all(x == POS for x in sg) else NONNEG if all(x in (POS, NONNEG) for x in sg) else ANY, cul)
    if op in ("phi", "phi1", "phi_none"):
        tested = set()
        _tested(d.args[0], tested)
        branches = d.args[1:]
        bi = infos[1:]
        c = frozenset().union(*[i[1] for i in bi]) if bi else frozenset()
        c = frozenset(x for x in c if x not in tested)
        # np.where(np.isnan(x), y, x): the NaN of x is replaced
        for t in tested:
            if isinstance(t, tuple) and t[0] == "nanof":
                for b, i in zip(branches, bi):
                    if isinstance(b, D) and b.h == t[1]:
                        c = frozenset(x for x in c if x not in i[1]) | frozenset().union(*[j[1] for bb, j in zip(branches, bi) if bb is not b])
        s = POS if all(i[0] == POS for i in bi) else NONNEG if all(i[0] in (POS, NONNEG) for i in bi) else ANY
        if s == ANY and len(branches) == 2 and isinstance(d.args[0], D):
            s = _clamp_sign(d.args[0], branches, bi)
        return (s, c)
    if op in ("lt", "le", "gt", "ge", "eq", "ne", "and", "or", "not", "invert", "isnan", "isinf", "isfinite"):
        return (NONNEG, frozenset())
    if op in ("std", "nanstd", "var"):
        return (NONNEG, cul)
    if op == "sub":
        return (ANY, cul)
    if op == "neg":
        return (ANY, cul)
    if op == "dep":
        return (infos[0][0], infos[0][1]) if infos else (ANY, frozenset())
    # unknown operator: optimistic about its own domain, inherits its operands' culprits
    return (ANY, cul)


NEG, NONPOS = "neg", "nonpos"
_FLIP = {POS: NEG, NONNEG: NONPOS, NEG: POS, NONPOS: NONNEG, ANY: ANY}


def _add_sign(a, b):
    up = {POS, NONNEG}
    dn = {NEG, NONPOS}
    if a in up and b in up:
        return POS if POS in (a, b) else NONNEG
    if a in dn and b in dn:
        return NEG if NEG in (a, b) else NONPOS
    return ANY


def _mul_sign(a, b):
    if ANY in (a, b):
        return ANY
    strict = a in (POS, NEG) and b in (POS, NEG)
    positive = (a in (POS, NONNEG)) == (b in (POS, NONNEG))
    if positive:
        return POS if strict else NONNEG
    return NEG if strict else NONPOS


def sign_under(d, assume: dict, depth: int = 8) -> str:
    """sign of `d` when the expressions in `assume` (by structural hash) have the given signs"""
    if not isinstance(d, D):
        if isinstance(d, (int, float)) and not isinstance(d, bool) and d == d:
            return POS if d > 0 else NEG if d < 0 else NONNEG
        return ANY
    if d.h in assume:
        return assume[d.h]
    base = d.fi[0] if d.fi else ANY
    if depth == 0 or base in (POS,):
        return base
    op = d.op
    if op == "add" and len(d.args) == 2:
        r = _add_sign(sign_under(d.args[0], assume, depth - 1), sign_under(d.args[1], assume, depth - 1))
    elif op == "sub" and len(d.args) == 2:
        r = _add_sign(sign_under(d.args[0], assume, depth - 1), _FLIP[sign_under(d.args[1], assume, depth - 1)])
    elif op == "mul" and len(d.args) == 2:
        r = _mul_sign(sign_under(d.args[0], assume, depth - 1), sign_under(d.args[1], assume, depth - 1))
    elif op == "div" and len(d.args) == 2:
        r = _mul_sign(sign_under(d.args[0], assume, depth - 1), sign_under(d.args[1], assume, depth - 1))
    elif op == "neg" and d.args:
        r = _FLIP[sign_under(d.args[0], assume, depth - 1)]
    elif op in ("abs", "fabs"):
        r = NONNEG
    else:
        return base
    if r == ANY:
        return base
    if base == NONNEG and r == POS:
        return POS
    return r


def _clamp_sign(cond: D, branches, bi) -> str:
    """sign of  a if x > 0 else b  with each branch evaluated under what the test tells about x (gain = x if x > 0 else 0,
    sum_gain + x under x > 0, -x under x < 0, ...)"""
    if cond.op not in ("gt", "ge", "lt", "le") or len(cond.args) != 2:
        return ANY
    a, b = cond.args
    op = cond.op
    if isinstance(a, D) and not isinstance(b, D) and b == 0:
        xh = a.h
    elif isinstance(b, D) and not isinstance(a, D) and a == 0:
        xh, op = b.h, {"gt": "lt", "ge": "le", "lt": "gt", "le": "ge"}[cond.op]
    elif isinstance(a, D) and isinstance(b, D):
        xh = hash(("sub", a.h, b.h))
    else:
        return ANY
    t_sign, f_sign = {"gt": (POS, NONPOS), "ge": (NONNEG, NEG), "lt": (NEG, NONNEG), "le": (NONPOS, POS)}[op]
    t, f = branches
    st = sign_under(t, {xh: t_sign})
    sf = sign_under(f, {xh: f_sign})
    if st in (POS, NONNEG) and sf in (POS, NONNEG):
        return POS if st == sf == POS else NONNEG
    return ANY


def may_be_nonfinite(x, memo=None) -> bool:
    if not isinstance(x, D):
        return isinstance(x, float) and (x != x or x in (float("inf"), float("-inf")))
    return bool(analyse(x, memo)[1])
