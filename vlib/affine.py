"""Engine E3: symbolic affine/polynomial forms of index expressions and simple bound reasoning."""
from __future__ import annotations

import ast
from fractions import Fraction
from typing import Dict, Optional

from .poly import Poly, R
from .loader import norm


def to_poly(node, env: Optional[Dict[str, Poly]] = None) -> Optional[Poly]:
    """Integer/affine expression -> Poly over name atoms (None if not polynomial)."""
    env = env or {}
    if isinstance(node, ast.Constant) and isinstance(node.value, (int, float)) and not isinstance(node.value, bool):
        return Poly.const(node.value)
    if isinstance(node, ast.Name):
        return env.get(node.id, Poly.atom(node.id))
    if isinstance(node, ast.Attribute):
        return Poly.atom(norm(node))
    if isinstance(node, ast.UnaryOp) and isinstance(node.op, ast.USub):
        p = to_poly(node.operand, env)
        return -p if p is not None else None
    if isinstance(node, ast.BinOp):
        a, b = to_poly(node.left, env), to_poly(node.right, env)
        if a is None or b is None:
            return None
        if isinstance(node.op, ast.Add):
            return a + b
        if isinstance(node.op, ast.Sub):
            return a - b
        if isinstance(node.op, ast.Mult):
            return a * b
        return None
    if isinstance(node, ast.Call) and isinstance(node.func, ast.Name) and node.func.id == "len" and len(node.args) == 1:
        return Poly.atom(f"len({norm(node.args[0])})")
    if isinstance(node, ast.Call) and isinstance(node.func, ast.Name) and node.func.id == "int" and len(node.args) == 1:
        return to_poly(node.args[0], env)
    return None


def provably_nonneg(p: Poly, nonneg_atoms=None, pos_atoms=None) -> bool:
    """Sufficient test for p >= 0: every coefficient >= 0 over atoms known to be >= 0
    (atoms in pos_atoms are >= 1 and are shifted: a = 1 + a')."""
    nonneg_atoms = set(nonneg_atoms or ())
    pos_atoms = set(pos_atoms or ())
    # shift positive atoms
    q = p
    for a in pos_atoms:
        q = substitute(q, a, Poly.atom(a) + Poly.const(1))
    for m, c in q.t.items():
        if c < 0:
            return False
        for at, e in m:
            if at not in nonneg_atoms and at not in pos_atoms:
                return False
    return True


def substitute(p: Poly, atom, repl: Poly) -> Poly:
    out = Poly()
    for m, c in p.t.items():
        term = Poly.const(c)
        for at, e in m:
            base = repl if at == atom else Poly.atom(at)
            for _ in range(e):
                term = term * base
        out = out + term
    return out
