"""Engine E7 values: dependence abstract domain for numpy/numba indicator kernels.

A scalar that depends on candle values is a D(mask, hid): `mask` is the set of
candle indices (bit i = candle i) the value may depend on, `hid` a structural
hash of the computation (equal hid => same expression on the same inputs =>
equal value).  Scalars that do not depend on candle values (periods, weights,
loop indices, NaN fill values, timestamps) stay concrete Python numbers, so all
indexing and all parameter arithmetic is exact.
"""
from __future__ import annotations

import math
from typing import List, Tuple

NAN = float("nan")


class Undecided(Exception):
    """construct outside the analysable fragment: the indicator is reported as undecided, never as a violation"""


class TimeBudget(BaseException):
    """raised by time_limit (a BaseException: the `except Undecided` / `except Exception` handlers of the rule code must not swallow
    it and carry on with the timer disarmed)"""


class time_limit:
    """wall-clock budget for one unit of symbolic work (main thread only): a computation that blows up - a reformulated indicator
    whose normal form explodes - ends as Undecided instead of hanging the check"""

    def __init__(self, seconds: float, what: str = "symbolic work"):
        self.seconds, self.what = seconds, what
        self.active = False

    def _fire(self, signum, frame):
        raise TimeBudget(f"{self.what}: time budget of {self.seconds:.0f} s exceeded")

    def __enter__(self):
        import signal, threading
        if threading.current_thread() is threading.main_thread():
            try:
                self.old = signal.signal(signal.SIGALRM, self._fire)
                signal.setitimer(signal.ITIMER_REAL, self.seconds)
                self.active = True
            except (ValueError, OSError):
                self.active = False
        return self

    def __exit__(self, *exc):
        if self.active:
            import signal
            signal.setitimer(signal.ITIMER_REAL, 0)
            signal.signal(signal.SIGALRM, self.old)
        return False


class D:
    __slots__ = ("m", "h", "op", "args", "fi")

    def __init__(self, m: int, h: int, op: str = "in", args: tuple = ()):
        self.fi = None        # (sign, culprits) of vlib/indic_finite.py, computed on demand
        self.m = m
        self.h = h
        self.op = op          # operator name ("in" = raw candle input: args = (tag, candle index, column))
        self.args = args      # operands: D or concrete numbers

    def __repr__(self):
        return f"D({bin(self.m).count('1')} deps, max={self.m.bit_length() - 1})"


def hid(x) -> int:
    if isinstance(x, D):
        return x.h
    if isinstance(x, float) and x != x:
        return hash("nan")
    if isinstance(x, bool):
        return hash(("b", x))
    if isinstance(x, (int, float)):
        return hash(("n", float(x)))
    return hash(("o", repr(x)))


def mk(op: str, *args) -> D:
    m = 0
    for a in args:
        if isinstance(a, D):
            m |= a.m
    return D(m, hash((op,) + tuple(hid(a) for a in args)), op, args)


def is_abs(x) -> bool:
    return isinstance(x, D)


def _c_div(a, b):
    try:
        return a / b
    except ZeroDivisionError:
        if a != a or a == 0:
            return NAN
        return math.inf if a > 0 else -math.inf


def _c_pow(a, b):
    try:
        r = a ** b
        if isinstance(r, complex):
            return NAN
        return r
    except (ZeroDivisionError, OverflowError, ValueError):
        return NAN


BIN = {
    "add": lambda a, b: a + b, "sub": lambda a, b: a - b, "mul": lambda a, b: a * b, "div": _c_div,
    "floordiv": lambda a, b: (a // b) if b != 0 else NAN, "mod": lambda a, b: (a % b) if b != 0 else NAN, "pow": _c_pow,
    "lt": lambda a, b: a < b, "le": lambda a, b: a <= b, "gt": lambda a, b: a > b, "ge": lambda a, b: a >= b,
    "eq": lambda a, b: a == b, "ne": lambda a, b: a != b,
    "max": lambda a, b: (NAN if (a != a or b != b) else max(a, b)), "min": lambda a, b: (NAN if (a != a or b != b) else min(a, b)),
    "and": lambda a, b: bool(a) and bool(b), "or": lambda a, b: bool(a) or bool(b),
    "bitand": lambda a, b: a & b, "bitor": lambda a, b: a | b, "bitxor": lambda a, b: a ^ b,
    "atan2": lambda a, b: math.atan2(a, b), "fmax": lambda a, b: (b if a != a else a if b != b else max(a, b)),
    "fmin": lambda a, b: (b if a != a else a if b != b else min(a, b)),
}


def binop(op: str, a, b):
    if isinstance(a, D) or isinstance(b, D):
        # NaN is absorbing: an arithmetic result with a constant NaN operand is the constant NaN whatever the other operand is
        # (the warm-up padding of a series stays a constant, it does not become "a computed value that happens to be NaN")
        for x in (a, b):
            if isinstance(x, float) and x != x:
                if op in ("add", "sub", "mul", "div", "floordiv", "mod", "pow", "max", "min", "atan2"):
                    return NAN
                if op in ("lt", "le", "gt", "ge", "eq"):
                    return False
                if op == "ne":
                    return True
        # x * 0 carries no dependence - unless x may be infinite / NaN on valid candles (0 * inf = NaN): then the product
        # still depends on x
        if op == "mul" and ((not isinstance(a, D) and a == 0) or (not isinstance(b, D) and b == 0)):
            from .indic_finite import may_be_nonfinite
            x = a if isinstance(a, D) else b
            if not may_be_nonfinite(x):
                return 0.0
            return mk("mul", x, 0.0)
        if op in ("and",) and ((a is False) or (b is False)):
            return False
        if op in ("or",) and ((a is True) or (b is True)):
            return True
        if op == "sub" and isinstance(a, D) and isinstance(b, D) and a.h == b.h:
            return 0.0
        if op in ("add", "mul", "max", "min", "eq", "ne", "and", "or"):   # commutative: canonical operand order
            ha, hb = hid(a), hid(b)
            if hb < ha:
                a, b = b, a
        return mk(op, a, b)
    if a is None or b is None:
        raise Undecided(f"arithmetic on None ({op})")
    try:
        return BIN[op](a, b)
    except (TypeError, OverflowError, ValueError) as e:
        if op in ("lt", "le", "gt", "ge"):
            return False
        raise Undecided(f"concrete {op} failed: {e}")


def _safe(f):
    def g(x):
        try:
            return f(x)
        except (ValueError, OverflowError, ZeroDivisionError):
            return NAN
    return g


UN = {
    "neg": lambda x: -x, "abs": abs, "not": lambda x: not x, "sqrt": _safe(lambda x: math.sqrt(x) if x >= 0 else NAN),
    "log": _safe(lambda x: math.log(x) if x > 0 else (-math.inf if x == 0 else NAN)), "log10": _safe(lambda x: math.log10(x) if x > 0 else NAN),
    "exp": _safe(math.exp), "sin": _safe(math.sin), "cos": _safe(math.cos), "tan": _safe(math.tan), "atan": _safe(math.atan),
    "asin": _safe(math.asin), "acos": _safe(math.acos), "tanh": _safe(math.tanh), "isnan": lambda x: x != x,
    "isfinite": lambda x: not (x != x or x in (math.inf, -math.inf)), "isinf": lambda x: x in (math.inf, -math.inf),
    "sign": lambda x: (NAN if x != x else (x > 0) - (x < 0)), "floor": _safe(lambda x: float(math.floor(x))),
    "ceil": _safe(lambda x: float(math.ceil(x))), "round": _safe(lambda x: float(round(x))), "float": float,
    "int": _safe(lambda x: int(x)), "bool": bool, "degrees": _safe(math.degrees), "radians": _safe(math.radians),
    "square": lambda x: x * x, "invert": lambda x: (not x) if isinstance(x, bool) else ~x, "nan_to_num": lambda x: 0.0 if x != x else x,
    "pos": lambda x: x,
}


RAW = set()      # structural ids of raw candle inputs (valid candles: finite, not NaN)


def unop(op: str, a):
    if isinstance(a, D):
        if op in ("float", "pos"):
            return a
        if a.h in RAW:
            if op in ("isnan", "isinf"):
                return False
            if op == "isfinite":
                return True
        return mk(op, a)
    if a is None:
        raise Undecided(f"{op} of None")
    try:
        return UN[op](a)
    except TypeError as e:
        raise Undecided(f"concrete {op} failed: {e}")


def phi(c, a, b):
    """value chosen by an abstract condition"""
    if not isinstance(c, D):
        return a if c else b
    if not isinstance(a, D) and not isinstance(b, D):
        if (a == b) or (a != a and b != b):
            return a
    elif isinstance(a, D) and isinstance(b, D) and a.h == b.h:
        return a
    return mk("phi", c, a, b)


class NA:
    """numpy array of abstract elements; 1-D: data = list; 2-D: data = list of row lists"""
    __slots__ = ("data", "ndim")

    def __init__(self, data, ndim=1):
        self.data = data
        self.ndim = ndim

    @property
    def shape(self) -> Tuple[int, ...]:
        if self.ndim == 1:
            return (len(self.data),)
        return (len(self.data), len(self.data[0]) if self.data else 0)

    def copy(self):
        if self.ndim == 1:
            return NA(list(self.data), 1)
        return NA([list(r) for r in self.data], 2)

    def flat(self):
        if self.ndim == 1:
            return self.data
        return [x for r in self.data for x in r]

    def __len__(self):
        return len(self.data)

    def __repr__(self):
        return f"NA{self.shape}"


def map1(f, a: NA) -> NA:
    if a.ndim == 1:
        return NA([f(x) for x in a.data], 1)
    return NA([[f(x) for x in r] for r in a.data], 2)


def broadcast(op, a, b):
    """elementwise binary operation with numpy broadcasting (scalar, same shape, (n,1)/(1,n)/(n,)x(m,n))"""
    f = (lambda x, y: binop(op, x, y)) if isinstance(op, str) else op
    an, bn = isinstance(a, NA), isinstance(b, NA)
    if not an and not bn:
        return f(a, b)
    if an and not bn:
        return map1(lambda x: f(x, b), a)
    if bn and not an:
        return map1(lambda y: f(a, y), b)
    if a.ndim == 1 and b.ndim == 1:
        la, lb = len(a.data), len(b.data)
        if la == lb:
            return NA([f(x, y) for x, y in zip(a.data, b.data)], 1)
        if la == 1:
            return NA([f(a.data[0], y) for y in b.data], 1)
        if lb == 1:
            return NA([f(x, b.data[0]) for x in a.data], 1)
        raise Undecided(f"shape mismatch ({la},) vs ({lb},)")
    if a.ndim == 2 and b.ndim == 2:
        (ra, ca), (rb, cb) = a.shape, b.shape
        R, C = max(ra, rb), max(ca, cb)
        if ra not in (1, R) or rb not in (1, R) or ca not in (1, C) or cb not in (1, C):
            raise Undecided(f"shape mismatch {a.shape} vs {b.shape}")
        return NA([[f(a.data[i if ra > 1 else 0][j if ca > 1 else 0], b.data[i if rb > 1 else 0][j if cb > 1 else 0]) for j in range(C)] for i in range(R)], 2)
    if a.ndim == 2 and b.ndim == 1:
        if len(b.data) == a.shape[1]:
            return NA([[f(x, y) for x, y in zip(r, b.data)] for r in a.data], 2)
        if len(b.data) == 1:
            return map1(lambda x: f(x, b.data[0]), a)
        raise Undecided(f"shape mismatch {a.shape} vs {b.shape}")
    if a.ndim == 1 and b.ndim == 2:
        if len(a.data) == b.shape[1]:
            return NA([[f(x, y) for x, y in zip(a.data, r)] for r in b.data], 2)
        if len(a.data) == 1:
            return map1(lambda y: f(a.data[0], y), b)
        raise Undecided(f"shape mismatch {a.shape} vs {b.shape}")
    raise Undecided("broadcast")


def fold(op: str, xs: List, init=None):
    it = iter(xs)
    if init is None:
        try:
            acc = next(it)
        except StopIteration:
            raise Undecided(f"reduction {op} of empty array")
    else:
        acc = init
    for x in it:
        acc = binop(op, acc, x)
    return acc


class Builtin:
    def __init__(self, fn, name=""):
        self.fn, self.name = fn, name


class BoundMethod:
    def __init__(self, fn):
        self.fn = fn


class NTClass:
    def __init__(self, name, fields):
        self.name, self.fields = name, list(fields)


class NT:
    def __init__(self, cls, vals):
        self.cls, self.vals = cls, list(vals)


class PyRaise(Exception):
    def __init__(self, name):
        self.name = name


# ---------------------------------------------------------------- witness evaluation of expression DAGs
def _stat(name, xs, extra):
    import statistics
    xs = list(xs)
    if name in ("argmax", "argmin"):
        best = 0
        for i, x in enumerate(xs):
            if (name == "argmax" and x > xs[best]) or (name == "argmin" and x < xs[best]):
                best = i
        return best
    if any(x != x for x in xs) and not name.startswith("nan"):
        return NAN
    try:
        if name in ("std", "nanstd", "var"):
            m = sum(xs) / len(xs)
            v = sum((x - m) ** 2 for x in xs) / len(xs)
            return math.sqrt(v) if name != "var" else v
        if name == "median":
            return statistics.median(xs)
    except Exception:
        return NAN
    raise Undecided(f"witness evaluation of {name}")


def eval_dag(root, inputs) -> float:
    """Evaluate the expression DAG of an abstract value on a concrete valuation of the candle inputs.
    inputs: callable (tag, candle index, column) -> float.  Iterative (DAGs can be deep)."""
    if not isinstance(root, D):
        return root
    memo = {}
    stack = [root]
    while stack:
        d = stack[-1]
        if id(d) in memo:
            stack.pop()
            continue
        if d.op == "in":
            memo[id(d)] = inputs(*d.args)
            stack.pop()
            continue
        pending = [a for a in d.args if isinstance(a, D) and id(a) not in memo]
        if pending:
            stack.extend(pending)
            continue
        vals = [memo[id(a)] if isinstance(a, D) else a for a in d.args]
        op = d.op
        try:
            if op in BIN:
                v = BIN[op](vals[0], vals[1])
            elif op in UN:
                v = UN[op](vals[0])
            elif op == "phi":
                v = vals[1] if vals[0] else vals[2]
            elif op in ("phi1",):
                v = vals[1]
            elif op == "dep":
                v = vals[0]
            elif op == "phi_none":
                v = None if vals[0] else vals[1]
            elif op in ("argmax", "argmin", "std", "nanstd", "var", "median"):
                nums = [x for x in vals if not isinstance(x, tuple)]
                v = _stat(op, nums, ())
            elif op == "round":
                v = round(*vals) if vals[0] == vals[0] else NAN
            elif op == "roundn":
                v = round(vals[0], int(vals[1])) if vals[0] == vals[0] else NAN
            else:
                raise Undecided(f"witness evaluation of operator {op}")
        except (TypeError, ValueError, OverflowError, ZeroDivisionError):
            v = NAN
        memo[id(d)] = v
        stack.pop()
    return memo[id(root)]
