"""Engines E4/E5/E6: a small abstract interpreter for the Python subset used by
jesse's accounting / matching / helper code.

* Numbers are exact rational functions over symbolic atoms (vlib.poly.R).
* Branch conditions over symbolic numbers are decided by the *abstract case*
  supplied by the caller: a list of sample points that all belong to one cell of
  a finite abstraction (e.g. one weak ordering of prices, one sign pattern).  A
  comparison is decided only when every sample of the cell agrees; otherwise the
  interpreter forks and records the path condition.  With no samples every
  symbolic comparison forks.  This is abstract interpretation over a finite
  domain that is enumerated completely by the caller - no solver, and the
  repository code is never imported or executed: the interpreter walks the AST.
* Side effects on abstract objects (attribute / item stores, list appends) happen
  on an abstract heap that the caller builds, so ledger effects can be read off
  as exact symbolic differences.
"""
from __future__ import annotations

import ast
from fractions import Fraction
from typing import Any, Callable, Dict, List, Optional, Tuple

from .poly import R, Poly, Op, abs_of, to_fraction
from .loader import Repo, Module, AnalysisError, import_bindings, is_property, is_staticmethod, norm


class NotInFragment(AnalysisError):
    pass


class NeedDecision(Exception):
    pass


class Unknown:
    __slots__ = ("tag",)

    def __init__(self, tag="?"):
        self.tag = tag

    def __repr__(self):
        return f"Unknown({self.tag})"


class NaNType:
    def __repr__(self):
        return "nan"


NAN = NaNType()


class Obj:
    """Abstract heap object."""

    def __init__(self, cls: str, mod: Optional[Module] = None, node: Optional[ast.ClassDef] = None,
                 name: str = None, attrs: dict = None, open_world: bool = False):
        self.cls = cls
        self.mod = mod
        self.node = node
        self.name = name or cls
        self.attrs = attrs if attrs is not None else {}
        self.open_world = open_world   # unknown attributes yield Unknown instead of failing

    def __repr__(self):
        return f"<{self.name}>"


class Arr:
    """1-D numpy array of abstract values (candles)."""

    def __init__(self, items: list):
        self.items = list(items)

    def __repr__(self):
        return f"Arr{self.items!r}"


class FuncV:
    def __init__(self, node, mod: Module, self_obj=None, cls: ast.ClassDef = None, closure: dict = None, qual: str = None):
        self.node = node
        self.mod = mod
        self.self_obj = self_obj
        self.cls = cls
        self.closure = closure
        self.qual = qual or getattr(node, "name", "<lambda>")

    @property
    def target_id(self):
        return f"{self.mod.rel}:{self.qual}"


class ClassV:
    def __init__(self, node: ast.ClassDef, mod: Module):
        self.node = node
        self.mod = mod


class ModV:
    def __init__(self, mod: Module):
        self.mod = mod


class ExtV:
    """Name from outside the repository (numpy, math, builtins not modelled)."""

    def __init__(self, dotted: str):
        self.dotted = dotted

    def __repr__(self):
        return f"Ext({self.dotted})"


class ExcV:
    def __init__(self, name: str, args: list):
        self.name = name
        self.args = args

    def __repr__(self):
        return f"{self.name}"


class _Raise(Exception):
    def __init__(self, exc: ExcV):
        self.exc = exc


class _Return(Exception):
    def __init__(self, v):
        self.v = v


class _Break(Exception):
    pass


class _Continue(Exception):
    pass


class Outcome:
    def __init__(self, kind, value, events, conds, interp):
        self.kind = kind          # 'return' | 'raise'
        self.value = value
        self.events = events
        self.conds = conds        # list of (text, bool) path conditions from forks
        self.interp = interp

    def __repr__(self):
        return f"Outcome({self.kind}, {self.value!r}, conds={self.conds})"


def is_num(v):
    return isinstance(v, R)


def num(c) -> R:
    return R.const(c)


class Frame:
    def __init__(self, mod: Module, locals_: dict, closure: dict = None):
        self.mod = mod
        self.locals = locals_
        self.local_imports: Dict[str, Tuple[str, Optional[str]]] = {}
        self.closure = closure


class Interp:
    MAX_DEPTH = 14
    MAX_WHILE = 40

    def __init__(self, repo: Repo, stubs: Dict[str, Callable] = None, overrides: Dict[str, Any] = None,
                 samples: List[Dict] = None, nonneg: set = None, decisions: List[bool] = None,
                 event_filter: Callable = None, ext_stubs: Dict[str, Callable] = None):
        self.repo = repo
        self.stubs = stubs or {}
        self.overrides = overrides or {}
        self.samples = samples or []
        self.nonneg = nonneg or set()
        self.decisions = list(decisions or [])
        self._dpos = 0
        self._decided: Dict[str, bool] = {}
        self.conds: List[Tuple[str, bool]] = []
        self.events: List[tuple] = []
        self.depth = 0
        self.event_filter = event_filter
        self.ext_stubs = dict(DEFAULT_EXT)
        if ext_stubs:
            self.ext_stubs.update(ext_stubs)
        self._global_cache: Dict[Tuple[str, str], Any] = {}
        self.steps = 0

    # ---------------------------------------------------------------- decisions
    def decide(self, text: str) -> bool:
        if text in self._decided:
            return self._decided[text]
        d = self._decide(text)
        self._decided[text] = d
        return d

    def _decide(self, text: str) -> bool:
        if self._dpos < len(self.decisions):
            d = self.decisions[self._dpos]
        else:
            raise NeedDecision(text)
        self._dpos += 1
        self.conds.append((text, d))
        return d

    def event(self, *ev):
        if self.event_filter is None or self.event_filter(ev):
            self.events.append(ev)

    # ---------------------------------------------------------------- numbers
    def eval_atom(self, a, sample: dict) -> Fraction:
        if a in sample:
            return sample[a]
        if isinstance(a, Op):
            args = [x.evaluate(lambda at: self.eval_atom(at, sample)) if isinstance(x, R) else x for x in a.args]
            if a.name == "abs":
                return abs(args[0])
            if a.name == "min":
                return min(args)
            if a.name == "max":
                return max(args)
            if a.name == "floor":
                import math
                return Fraction(math.floor(args[0]))
            if a.name == "sqrt" and args[0] >= 0:
                # exact for perfect squares (so that sqrt(x) == 0 iff x == 0), a close rational otherwise (used for sign decisions only)
                import math
                c = Fraction(args[0])
                rn, rd = math.isqrt(c.numerator), math.isqrt(c.denominator)
                if rn * rn == c.numerator and rd * rd == c.denominator:
                    return Fraction(rn, rd)
                return Fraction(math.sqrt(float(c)))
            if a.name == "pow" and args[0] > 0:
                if args[1].denominator == 1 and abs(args[1]) <= 64:
                    return Fraction(args[0]) ** int(args[1])
                return Fraction(float(args[0]) ** float(args[1]))
        raise KeyError(a)

    def numeric(self, r, sample: dict = None) -> Fraction:
        """Value of an abstract number at a sample point (default: the first live sample)."""
        s = sample if sample is not None else self.samples[0]
        return r.evaluate(lambda at: self.eval_atom(at, s))

    def sign_of(self, r: R) -> Optional[int]:
        """Sign of r: decided if constant, or if all samples of the abstract case agree."""
        if r.is_const():
            v = r.const_value()
            return (v > 0) - (v < 0)
        if not self.samples:
            return None
        signs = set()
        for s in self.samples:
            try:
                v = r.evaluate(lambda at: self.eval_atom(at, s))
            except (KeyError, ZeroDivisionError):
                return None
            signs.add((v > 0) - (v < 0))
            if len(signs) > 1:
                return None
        return signs.pop()

    def decide_num(self, a: R, op, b: R) -> bool:
        """Truth of `a op b`.  Decided when constant or when every live sample of the abstract
        case agrees; otherwise fork, and keep on each branch only the samples that witness it
        (so every explored path is witnessed by at least one concrete point of the case)."""
        table = {ast.Lt: lambda s: s < 0, ast.LtE: lambda s: s <= 0, ast.Gt: lambda s: s > 0,
                 ast.GtE: lambda s: s >= 0, ast.Eq: lambda s: s == 0, ast.NotEq: lambda s: s != 0}
        pred = table[type(op)]
        try:
            diff = a - b
        except ZeroDivisionError:
            diff = None
        if diff is not None and diff.is_const():
            v = diff.const_value()
            return pred((v > 0) - (v < 0))
        txt = f"{a!r} {OPS[type(op)]} {b!r}"
        if diff is None or not self.samples:
            return self.decide(txt)
        truths = []
        for s in self.samples:
            try:
                v = diff.evaluate(lambda at: self.eval_atom(at, s))
            except (KeyError, ZeroDivisionError):
                return self.decide(txt)
            truths.append(pred((v > 0) - (v < 0)))
        if all(truths):
            return True
        if not any(truths):
            return False
        d = self.decide(txt)
        self.samples = [s for s, t in zip(self.samples, truths) if t == d]
        return d

    def compare(self, a, op, b, node=None) -> Any:
        """Return python bool, or fork."""
        if isinstance(op, (ast.Is, ast.IsNot)):
            res = self._identical(a, b)
            if res is None:
                return self.decide(f"{self._show(a)} is {self._show(b)}") ^ isinstance(op, ast.IsNot)
            return res ^ isinstance(op, ast.IsNot)
        if isinstance(op, (ast.In, ast.NotIn)):
            if isinstance(b, (list, tuple, set, dict)):
                found = False
                for x in b:
                    e = self.compare(a, ast.Eq(), x)
                    if e:
                        found = True
                        break
                return found ^ isinstance(op, ast.NotIn)
            if isinstance(a, str) and isinstance(b, str):
                return (a in b) ^ isinstance(op, ast.NotIn)
            if isinstance(b, IterV):
                # membership test on a one-shot iterator: it is advanced up to (and including) the first match, or exhausted
                found = False
                rest = list(b.items)
                while rest:
                    x = rest.pop(0)
                    if self.compare(a, ast.Eq(), x):
                        found = True
                        break
                b.items = rest
                return found ^ isinstance(op, ast.NotIn)
            return self.decide(f"{self._show(a)} in {self._show(b)}") ^ isinstance(op, ast.NotIn)
        if isinstance(a, bool):
            a = num(int(a))
        if isinstance(b, bool):
            b = num(int(b))
        if is_num(a) and is_num(b):
            return self.decide_num(a, op, b)
        if isinstance(op, (ast.Eq, ast.NotEq)):
            eq = self._equal(a, b)
            if eq is None:
                return self.decide(f"{self._show(a)} == {self._show(b)}") ^ isinstance(op, ast.NotEq)
            return eq ^ isinstance(op, ast.NotEq)
        if a is NAN or b is NAN:
            return False
        if isinstance(a, str) and isinstance(b, str):
            return {ast.Lt: a < b, ast.LtE: a <= b, ast.Gt: a > b, ast.GtE: a >= b}[type(op)]
        return self.decide(f"{self._show(a)} {OPS[type(op)]} {self._show(b)}")

    def _show(self, v):
        r = repr(v)
        return r if len(r) < 80 else r[:77] + "..."

    def _identical(self, a, b) -> Optional[bool]:
        if isinstance(a, BoundBuiltin) or isinstance(b, BoundBuiltin):
            return a is b
        if a is None or b is None:
            if isinstance(a, Unknown) or isinstance(b, Unknown):
                return None
            return a is b
        if isinstance(a, Unknown) or isinstance(b, Unknown):
            return None
        if isinstance(a, (ClassV, ExtV)) and isinstance(b, (ClassV, ExtV)):
            return repr_type(a) == repr_type(b)
        return a is b

    def _equal(self, a, b) -> Optional[bool]:
        if isinstance(a, Unknown) or isinstance(b, Unknown):
            return None
        if a is None or b is None:
            return a is b
        if isinstance(a, str) or isinstance(b, str):
            return isinstance(a, str) and isinstance(b, str) and a == b
        if isinstance(a, (list, tuple)) and isinstance(b, (list, tuple)):
            if len(a) != len(b):
                return False
            for x, y in zip(a, b):
                e = self.compare(x, ast.Eq(), y)
                if not e:
                    return False
            return True
        if a is NAN or b is NAN:
            return False
        if isinstance(a, Obj) and isinstance(b, Obj):
            return a is b
        if isinstance(a, (BoundBuiltin, ExtV, ClassV)) and isinstance(b, (BoundBuiltin, ExtV, ClassV)):
            if isinstance(a, BoundBuiltin) or isinstance(b, BoundBuiltin):
                return a is b
            return repr_type(a) == repr_type(b)
        if type(a) is not type(b):
            return False
        return None

    def truth(self, v, node=None) -> bool:
        if isinstance(v, bool):
            return v
        if v is None:
            return False
        if isinstance(v, (list, tuple, dict, str, set)):
            return len(v) > 0
        if isinstance(v, (Arr, BoolVec)):
            # numpy: the truth value of an array with more than one element is ambiguous
            if len(v.items) == 0:
                return False
            if len(v.items) == 1:
                return self.truth(v.items[0], node)
            raise _Raise(ExcV("ValueError", ["The truth value of an array with more than one element is ambiguous"]))
        if is_num(v):
            s = self.sign_of(v)
            if s is None:
                return self.decide(f"bool({v!r})")
            return s != 0
        if isinstance(v, Obj):
            return True
        if isinstance(v, (FuncV, ClassV, ModV)):
            return True
        return self.decide(f"bool({self._show(v)})" + (f" @ {norm(node)}" if node is not None else ""))

    # ---------------------------------------------------------------- names
    def lookup_global(self, frame: Frame, name: str):
        if name in frame.local_imports:
            dotted, attr = frame.local_imports[name]
            return self._resolve_dotted(dotted, attr)
        key = (frame.mod.rel, name)
        ov = self.overrides.get(f"{frame.mod.rel}:{name}")
        if ov is not None:
            return ov
        if key in self._global_cache:
            return self._global_cache[key]
        r = self.repo.lookup(frame.mod, name)
        if r is None:
            if name in frame.mod.imports:
                dotted, attr = frame.mod.imports[name]
                v = ExtV(dotted if attr is None else f"{dotted}.{attr}")
            elif name in BUILTINS:
                v = BUILTINS[name]
            else:
                v = ExtV(name)
            return v
        v = self._wrap(r)
        self._global_cache[key] = v
        return v

    def _resolve_dotted(self, dotted, attr):
        if attr is None:
            m = self.repo.resolve_module(dotted)
            return ModV(m) if m else ExtV(dotted)
        target = self.repo.resolve_module(dotted)
        if target is not None:
            ov = self.overrides.get(f"{target.rel}:{attr}")
            if ov is not None:
                return ov
            if attr in target.defs:
                return self._wrap(("def", target, target.defs[attr], attr))
            r = self.repo.resolve_import(target, attr)
            if r is not None:
                return self._wrap(r)
        sub = self.repo.resolve_module(f"{dotted}.{attr}")
        if sub is not None:
            return ModV(sub)
        return ExtV(f"{dotted}.{attr}")

    def _wrap(self, r):
        if r[0] == "module":
            return ModV(r[1])
        _, mod, node, name = r
        ov = self.overrides.get(f"{mod.rel}:{name}")
        if ov is not None:
            return ov
        if isinstance(node, ast.FunctionDef):
            return FuncV(node, mod, qual=name)
        if isinstance(node, ast.ClassDef):
            return ClassV(node, mod)
        # module-level expression (tables, constants): evaluate in module scope
        fr = Frame(mod, {})
        try:
            return self.eval(node, fr)
        except NotInFragment:
            return Unknown(f"global {mod.rel}:{name}")

    # ---------------------------------------------------------------- calls
    def call(self, f, args: list, kwargs: dict, node=None, frame: Frame = None):
        self.steps += 1
        if self.steps > 200000:
            raise NotInFragment("step budget exceeded")
        if isinstance(f, FuncV):
            tid = f.target_id
            stub = self.stubs.get(tid)
            if stub is None and ":" in tid:
                stub = self.stubs.get(tid.split(":")[0] + ":*")
            if stub is not None:
                self.event("call", tid, tuple(args))
                full = ([f.self_obj] if f.self_obj is not None else []) + list(args)
                return stub(self, full, kwargs)
            self.event("enter", tid, tuple(args))
            return self.call_function(f, args, kwargs)
        if isinstance(f, ClassV):
            return self.instantiate(f, args, kwargs, node)
        if isinstance(f, ExtV):
            stub = self.ext_stubs.get(f.dotted)
            if stub is not None:
                return stub(self, args, kwargs)
            self.event("extcall", f.dotted, tuple(args))
            return Unknown(f"call {f.dotted}")
        if isinstance(f, BoundBuiltin):
            return f.fn(self, args, kwargs)
        if callable(f) and not isinstance(f, (Obj,)):
            return f(self, args, kwargs)
        if isinstance(f, Unknown):
            self.event("unkcall", f.tag, tuple(args))
            return Unknown(f"call {f.tag}")
        raise NotInFragment(f"call of non-callable {f!r}" + (f" at {norm(node)}" if node is not None else ""))

    def call_function(self, f: FuncV, args: list, kwargs: dict):
        node = f.node
        if self.depth >= self.MAX_DEPTH:
            raise NotInFragment(f"call depth exceeded at {f.target_id}")
        locs: Dict[str, Any] = {}
        a = node.args
        params = [p.arg for p in a.posonlyargs + a.args]
        allargs = list(args)
        if f.self_obj is not None and not (isinstance(node, ast.FunctionDef) and is_staticmethod(node)):
            allargs = [f.self_obj] + allargs
        fr = Frame(f.mod, locs, closure=f.closure)
        if len(allargs) > len(params) and not a.vararg:
            raise NotInFragment(f"too many args for {f.target_id}")
        for p, v in zip(params, allargs):
            locs[p] = v
        if a.vararg:
            locs[a.vararg.arg] = tuple(allargs[len(params):])
        defaults = a.defaults
        dstart = len(params) - len(defaults)
        for i, p in enumerate(params):
            if p in locs:
                continue
            if p in kwargs:
                locs[p] = kwargs[p]
            elif i >= dstart:
                locs[p] = self.eval(defaults[i - dstart], Frame(f.mod, {}))
            else:
                raise NotInFragment(f"missing arg {p} for {f.target_id}")
        for p, d in zip(a.kwonlyargs, a.kw_defaults):
            if p.arg in kwargs:
                locs[p.arg] = kwargs[p.arg]
            elif d is not None:
                locs[p.arg] = self.eval(d, Frame(f.mod, {}))
        extra = {k: v for k, v in kwargs.items() if k not in locs}
        if a.kwarg:
            locs[a.kwarg.arg] = extra
        elif extra:
            raise NotInFragment(f"unexpected kwargs {list(extra)} for {f.target_id}")
        self.depth += 1
        try:
            if isinstance(node, ast.Lambda):
                return self.eval(node.body, fr)
            try:
                self.exec_block(node.body, fr)
            except _Return as r:
                return r.v
            return None
        finally:
            self.depth -= 1

    def instantiate(self, c: ClassV, args, kwargs, node=None):
        tid = f"{c.mod.rel}:{c.node.name}"
        stub = self.stubs.get(tid)
        if stub is not None:
            self.event("call", tid, tuple(args))
            return stub(self, args, kwargs)
        # exception classes
        if self._is_exception_class(c):
            return ExcV(c.node.name, list(args))
        obj = Obj(c.node.name, c.mod, c.node)
        init = self.repo.find_method(c.mod, c.node, "__init__")
        self.event("new", tid, tuple(args))
        if init is not None:
            m, cn, fn = init
            self.call_function(FuncV(fn, m, self_obj=obj, cls=cn, qual=f"{cn.name}.__init__"), args, kwargs)
        return obj

    def _is_exception_class(self, c: ClassV) -> bool:
        for m, cn in self.repo.mro(c.mod, c.node):
            for b in cn.bases:
                if isinstance(b, ast.Name) and b.id in ("Exception", "ValueError", "BaseException", "TypeError"):
                    return True
        return c.mod.rel == "jesse/exceptions/__init__.py"

    # ---------------------------------------------------------------- attributes
    def _literal_init(self, v, attr):
        for m, cn in self.repo.mro(v.mod, v.node):
            for b in cn.body:
                if isinstance(b, ast.FunctionDef) and b.name == "__init__" and b.args.args:
                    me = b.args.args[0].arg
                    for st in b.body:
                        tgt = val = None
                        if isinstance(st, ast.Assign) and len(st.targets) == 1:
                            tgt, val = st.targets[0], st.value
                        elif isinstance(st, ast.AnnAssign) and st.value is not None:
                            tgt, val = st.target, st.value
                        if not (isinstance(tgt, ast.Attribute) and isinstance(tgt.value, ast.Name) and tgt.value.id == me and tgt.attr == attr):
                            continue
                        if isinstance(val, ast.Constant) and (val.value is None or isinstance(val.value, (bool, int, float, str))):
                            return (self.e_Constant(val, None),)
                        if isinstance(val, ast.Dict) and not val.keys:
                            return ({},)
                        if isinstance(val, (ast.List, ast.Tuple)) and not val.elts:
                            return ([],)
                        if isinstance(val, ast.Call) and isinstance(val.func, ast.Name) and val.func.id in ("dict", "list", "set") and not val.args and not val.keywords:
                            return ({} if val.func.id == "dict" else [] if val.func.id == "list" else set(),)
                        # an initialiser computed from the object's other fields alone (self._capacity = len(self.array)): evaluated on
                        # the object as it stands; anything that needs a constructor argument or leaves the fragment -> unknown field
                        params = {a.arg for a in b.args.args[1:]} | {a.arg for a in b.args.kwonlyargs}
                        if not any(isinstance(y, ast.Name) and y.id in params for y in ast.walk(val)):
                            try:
                                return (self.eval(val, Frame(m, {me: v})),)
                            except (NotInFragment, _Raise):
                                return None
                        return None
                    return None
        return None

    def getattr(self, v, attr: str, node=None, frame: Frame = None):
        if isinstance(v, (BoundBuiltin, FuncV)) and attr in ("__name__", "__qualname__"):
            return getattr(v, "qual", None) or "function"
        if isinstance(v, Obj):
            if attr in v.attrs:
                return v.attrs[attr]
            if v.node is not None:
                hit = self.repo.find_method(v.mod, v.node, attr)
                if hit is not None:
                    m, cn, fn = hit
                    fv = FuncV(fn, m, self_obj=v, cls=cn, qual=f"{cn.name}.{attr}")
                    if is_property(fn):
                        stub = self.stubs.get(fv.target_id)
                        if stub is not None:
                            return stub(self, [v], {})
                        return self.call_function(fv, [], {})
                    return fv
                # class-level attribute
                for m, cn in self.repo.mro(v.mod, v.node):
                    for b in cn.body:
                        if isinstance(b, ast.Assign):
                            for t in b.targets:
                                if isinstance(t, ast.Name) and t.id == attr:
                                    try:
                                        return self.eval(b.value, Frame(m, {}))
                                    except NotInFragment:
                                        return Unknown(f"{v.name}.{attr}")
            if v.open_world:
                return Unknown(f"{v.name}.{attr}")
            if v.node is not None:
                # a field the abstract world does not know (added since the world was written - a cache, a memo): its value on a
                # fresh object, when __init__ sets it unconditionally to a literal that does not depend on the constructor arguments
                init = self._literal_init(v, attr)
                if init is not None:
                    v.attrs[attr] = init[0]
                    return init[0]
            raise NotInFragment(f"unknown attribute {v.name}.{attr}")
        if isinstance(v, ModV):
            ov = self.overrides.get(f"{v.mod.rel}:{attr}")
            if ov is not None:
                return ov
            if attr in v.mod.defs:
                return self._wrap(("def", v.mod, v.mod.defs[attr], attr))
            r = self.repo.resolve_import(v.mod, attr)
            if r is not None:
                return self._wrap(r)
            sub = self.repo.resolve_module(f"{v.mod.name}.{attr}")
            if sub is not None:
                return ModV(sub)
            if attr in v.mod.imports:
                d, a = v.mod.imports[attr]
                return ExtV(d if a is None else f"{d}.{a}")
            raise NotInFragment(f"unknown module attribute {v.mod.rel}:{attr}")
        if isinstance(v, ClassV):
            for b in v.node.body:
                if isinstance(b, ast.Assign):
                    for t in b.targets:
                        if isinstance(t, ast.Name) and t.id == attr:
                            return self.eval(b.value, Frame(v.mod, {}))
                if isinstance(b, ast.FunctionDef) and b.name == attr:
                    return FuncV(b, v.mod, cls=v.node, qual=f"{v.node.name}.{attr}")
            if attr == "__name__":
                return v.node.name
            raise NotInFragment(f"unknown class attribute {v.node.name}.{attr}")
        if isinstance(v, ExtV):
            d = f"{v.dotted}.{attr}"
            if d in ("numpy.nan", "math.nan", "numpy.NaN"):
                return NAN
            if d in ("numpy.inf", "math.inf", "numpy.Inf"):
                return Unknown("inf")
            return ExtV(d)
        if isinstance(v, Unknown):
            return Unknown(f"{v.tag}.{attr}")
        if isinstance(v, list):
            return list_method(self, v, attr)
        if isinstance(v, dict):
            return dict_method(self, v, attr)
        if isinstance(v, Arr):
            return arr_method(self, v, attr)
        if isinstance(v, SliceV):
            if attr in ("start", "stop", "step"):
                return getattr(v, attr)
            if attr == "indices":
                def indices(i, a, k, sv=v):
                    n = a[0]
                    def nrm(x, dflt):
                        if x is None:
                            return dflt
                        if i.decide_num(x, ast.Lt(), num(0)):
                            x = x + n
                            if i.decide_num(x, ast.Lt(), num(0)):
                                x = num(0)
                        elif i.decide_num(x, ast.Gt(), n):
                            x = n
                        return x
                    return (nrm(sv.start, num(0)), nrm(sv.stop, n), num(1))
                return BoundBuiltin(indices)
        if isinstance(v, BoolMat):
            if attr in ("any", "all"):
                red = any if attr == "any" else all

                def bm(i, ar, k, red=red):
                    ax = k.get("axis", ar[0] if ar else None)
                    if ax is None:
                        return red(red(r) for r in v.rows)
                    if is_num(ax) and ax.is_const() and ax.const_value() == 1:
                        return BoolVec([red(r) for r in v.rows])
                    if is_num(ax) and ax.is_const() and ax.const_value() == 0:
                        return BoolVec([red(c) for c in zip(*v.rows)] if v.rows else [])
                    raise NotInFragment(f"BoolMat.{attr}(axis={ax!r})")
                return BoundBuiltin(bm)
        if isinstance(v, BoolVec):
            if attr == "any":
                return BoundBuiltin(lambda i, ar, k: any(v.items))
            if attr == "all":
                return BoundBuiltin(lambda i, ar, k: all(v.items))
            if attr == "argmax":
                return BoundBuiltin(lambda i, ar, k: num(next((j for j, x in enumerate(v.items) if x), 0)))
            if attr == "sum":
                return BoundBuiltin(lambda i, ar, k: num(sum(1 for x in v.items if x)))
        if isinstance(v, Col):
            if attr in ("max", "min", "sum"):
                return BoundBuiltin(lambda i, ar, k: {"max": _minmax("max"), "min": _minmax("min"), "sum": _b_sum}[attr](i, [v], {}))
        if isinstance(v, Arr2):
            if attr == "shape":
                return (num(len(v.rows)), num(len(v.rows[0].items) if v.rows else 0))
            if attr == "size":
                return num(sum(len(r.items) for r in v.rows))
            if attr == "copy":
                return BoundBuiltin(lambda i, ar, k: Arr2([Arr(list(r.items)) for r in v.rows]))
        if isinstance(v, str):
            return str_method(self, v, attr)
        if isinstance(v, tuple) and attr in ("count", "index"):
            return Unknown("tuple." + attr)
        if isinstance(v, ExcV):
            if attr == "args":
                return tuple(v.args)
            return Unknown(f"exc.{attr}")
        if isinstance(v, R):
            return Unknown(f"num.{attr}")
        raise NotInFragment(f"attribute {attr} on {type(v).__name__}" + (f" at {norm(node)}" if node is not None else ""))

    def setattr(self, v, attr, val):
        if isinstance(v, Obj):
            old = v.attrs.get(attr, MISSING)
            v.attrs[attr] = val
            self.event("store", v.name, attr, val, old)
            return
        if isinstance(v, Unknown):
            self.event("store", v.tag, attr, val, MISSING)
            return
        raise NotInFragment(f"attribute store {attr} on {type(v).__name__}")

    # ---------------------------------------------------------------- statements
    def exec_block(self, stmts, fr: Frame):
        for s in stmts:
            self.exec(s, fr)

    def exec(self, s, fr: Frame):
        self.steps += 1
        if self.steps > 200000:
            raise NotInFragment("step budget exceeded")
        m = getattr(self, "x_" + type(s).__name__, None)
        if m is None:
            raise NotInFragment(f"statement {type(s).__name__}: {norm(s)[:80]}")
        return m(s, fr)

    def x_Expr(self, s, fr):
        if isinstance(s.value, ast.Constant):
            return
        self.eval(s.value, fr)

    def x_Pass(self, s, fr):
        pass

    def x_Global(self, s, fr):
        pass

    def x_Nonlocal(self, s, fr):
        pass

    def x_Import(self, s, fr):
        fr.local_imports.update(import_bindings(s, fr.mod.name, fr.mod.is_pkg))

    def x_ImportFrom(self, s, fr):
        fr.local_imports.update(import_bindings(s, fr.mod.name, fr.mod.is_pkg))

    def x_FunctionDef(self, s, fr):
        fr.locals[s.name] = FuncV(s, fr.mod, closure=fr.locals, qual=s.name)

    def x_Assign(self, s, fr):
        v = self.eval(s.value, fr)
        for t in s.targets:
            self.assign(t, v, fr)

    def x_AnnAssign(self, s, fr):
        if s.value is not None:
            self.assign(s.target, self.eval(s.value, fr), fr)

    def x_AugAssign(self, s, fr):
        cur = self.eval(_load(s.target), fr)
        v = self.binop(cur, s.op, self.eval(s.value, fr), s)
        self.assign(s.target, v, fr)

    def assign(self, t, v, fr):
        if isinstance(t, ast.Name):
            fr.locals[t.id] = v
        elif isinstance(t, ast.Attribute):
            self.setattr(self.eval(t.value, fr), t.attr, v)
        elif isinstance(t, ast.Subscript):
            base = self.eval(t.value, fr)
            self.setitem(base, t.slice, v, fr, t)
        elif isinstance(t, (ast.Tuple, ast.List)):
            if isinstance(v, Arr):
                v = v.items
            if isinstance(v, Unknown):
                for e in t.elts:
                    self.assign(e, Unknown(v.tag + "[i]"), fr)
                return
            if not isinstance(v, (tuple, list)) or len(v) != len(t.elts):
                raise NotInFragment(f"unpack mismatch at {norm(t)}")
            for e, x in zip(t.elts, v):
                self.assign(e, x, fr)
        else:
            raise NotInFragment(f"assign target {norm(t)}")

    def setitem(self, base, sl, v, fr, node):
        if isinstance(base, Unknown):
            self.event("setitem", base.tag, norm(sl), v)
            return
        if isinstance(sl, ast.Slice):
            k = SliceV(self.eval(sl.lower, fr) if sl.lower is not None else None,
                       self.eval(sl.upper, fr) if sl.upper is not None else None)
        else:
            k = self.eval(sl, fr)
        if isinstance(base, Obj) and "__setitem__" in base.attrs:
            return self.call(base.attrs["__setitem__"], [k, v], {})
        if isinstance(k, SliceV):
            if isinstance(base, Obj) and base.node is not None:
                hit = self.repo.find_method(base.mod, base.node, "__setitem__")
                if hit:
                    m, cn, fn = hit
                    return self.call(FuncV(fn, m, self_obj=base, cls=cn, qual=f"{cn.name}.__setitem__"), [k, v], {})
            def ci(x, dflt):
                if x is None:
                    return dflt
                if isinstance(x, R) and x.is_const():
                    return int(x.const_value())
                raise NotInFragment(f"non-constant slice bound in store {norm(node)}")
            if isinstance(base, Arr2) and isinstance(v, Arr2):
                n = len(base.rows)
                lo, hi = ci(k.start, 0), ci(k.stop, n)
                idx = list(range(n))[lo:hi]
                if len(idx) != len(v.rows):
                    raise _Raise(ExcV("ValueError", ["could not broadcast"]))
                # numpy semantics: a store into a 2-D array writes the VALUES into the array's memory - every view of those rows
                # (a slice taken earlier, a row fetched earlier) sees them
                for i, r in zip(idx, v.rows):
                    base.rows[i].items[:] = list(r.items)
                return
            if isinstance(base, Arr2) and (is_num(v) or v is NAN):
                n = len(base.rows)
                lo, hi = ci(k.start, 0), ci(k.stop, n)
                for i in list(range(n))[lo:hi]:
                    base.rows[i].items[:] = [v] * len(base.rows[i].items)
                return
            if isinstance(base, Arr) and (is_num(v) or v is NAN or isinstance(v, Arr)):
                # a 1-D row: the values are written into the row's memory (every alias of the row sees them)
                n = len(base.items)
                lo, hi = ci(k.start, 0), ci(k.stop, n)
                idx = list(range(n))[lo:hi]
                if isinstance(v, Arr):
                    if len(v.items) != len(idx):
                        raise _Raise(ExcV("ValueError", ["could not broadcast"]))
                    vals = list(v.items)
                else:
                    vals = [v] * len(idx)
                for i, x in zip(idx, vals):
                    base.items[i] = x
                return
            raise NotInFragment(f"slice store {norm(node)}")
        if isinstance(base, dict):
            k = self._key(k)
            old = base.get(k, MISSING)
            base[k] = v
            self.event("setitem", id(base), k, v, old)
            return
        if isinstance(base, (list, Arr)):
            items = base if isinstance(base, list) else base.items
            i = self._index(k, len(items), node)
            items[i] = v
            return
        if isinstance(base, Arr2):
            i = self._index(k, len(base.rows), node)
            # in place (numpy): views of this row see the new values
            if isinstance(v, Arr):
                base.rows[i].items[:] = list(v.items)
            elif isinstance(v, (list, tuple)):
                base.rows[i].items[:] = list(v)
            else:
                raise NotInFragment(f"row store of {type(v).__name__}")
            return
        if isinstance(base, Obj):
            hit = self.repo.find_method(base.mod, base.node, "__setitem__") if base.node else None
            if hit:
                m, cn, fn = hit
                return self.call(FuncV(fn, m, self_obj=base, cls=cn, qual=f"{cn.name}.__setitem__"), [k, v], {})
        raise NotInFragment(f"item store on {type(base).__name__}: {norm(node)}")

    def _key(self, k):
        if isinstance(k, R) and k.is_const():
            c = k.const_value()
            return int(c) if c.denominator == 1 else c
        if isinstance(k, (str, int, tuple)) or k is None:
            return k
        if isinstance(k, R):
            return k
        raise NotInFragment(f"non-constant dict key {k!r}")

    def _index(self, k, n, node=None) -> int:
        if isinstance(k, R) and k.is_const() and k.const_value().denominator == 1:
            i = int(k.const_value())
        elif isinstance(k, int):
            i = k
        else:
            raise NotInFragment(f"non-constant index {k!r}" + (f" at {norm(node)}" if node is not None else ""))
        if i < 0:
            i += n
        if not (0 <= i < n):
            raise _Raise(ExcV("IndexError", []))
        return i

    def x_If(self, s, fr):
        if self.truth(self.eval(s.test, fr), s.test):
            self.exec_block(s.body, fr)
        else:
            self.exec_block(s.orelse, fr)

    def x_Return(self, s, fr):
        raise _Return(self.eval(s.value, fr) if s.value is not None else None)

    def x_Raise(self, s, fr):
        if s.exc is None:
            raise _Raise(ExcV("<reraise>", []))
        v = self.eval(s.exc, fr)
        if isinstance(v, ClassV):
            v = ExcV(v.node.name, [])
        if isinstance(v, ExtV):
            v = ExcV(v.dotted.split(".")[-1], [])
        if isinstance(v, Unknown):
            v = ExcV(v.tag.replace("call ", ""), [])
        if not isinstance(v, ExcV):
            raise NotInFragment(f"raise of {v!r}")
        raise _Raise(v)

    def x_Assert(self, s, fr):
        if not self.truth(self.eval(s.test, fr), s.test):
            raise _Raise(ExcV("AssertionError", []))

    def x_Break(self, s, fr):
        raise _Break()

    def x_Continue(self, s, fr):
        raise _Continue()

    def x_With(self, s, fr):
        for it in s.items:
            v = self.eval(it.context_expr, fr)
            if it.optional_vars is not None:
                self.assign(it.optional_vars, v, fr)
        self.exec_block(s.body, fr)

    def x_Try(self, s, fr):
        try:
            self.exec_block(s.body, fr)
        except _Raise as r:
            for h in s.handlers:
                names = []
                if h.type is None:
                    names = None
                elif isinstance(h.type, ast.Tuple):
                    names = [norm(e).split(".")[-1] for e in h.type.elts]
                else:
                    names = [norm(h.type).split(".")[-1]]
                if names is None or r.exc.name in names or "Exception" in names or "BaseException" in names:
                    if h.name:
                        fr.locals[h.name] = r.exc
                    try:
                        self.exec_block(h.body, fr)
                    except _Raise as r2:
                        if r2.exc.name == "<reraise>":
                            raise r
                        raise
                    break
            else:
                self._finally(s, fr)
                raise
        else:
            self.exec_block(s.orelse, fr)
        self._finally(s, fr)

    def _finally(self, s, fr):
        if s.finalbody:
            self.exec_block(s.finalbody, fr)

    def iterate(self, it, node=None):
        if isinstance(it, (list, tuple)):
            return list(it)
        if isinstance(it, Arr):
            return list(it.items)
        if isinstance(it, Arr2):
            return list(it.rows)
        if isinstance(it, dict):
            return list(it.keys())
        if isinstance(it, str):
            return list(it)
        if isinstance(it, IterV):
            # a generator / filter object is consumed by the first pass over it
            items, it.items = list(it.items), []
            return items
        if isinstance(it, set):
            return sorted(it, key=repr)
        raise NotInFragment(f"iteration over {type(it).__name__} {it!r}" + (f" at {norm(node)}" if node is not None else ""))

    def x_For(self, s, fr):
        it = self.eval(s.iter, fr)
        if isinstance(it, Unknown):
            # unknown iterable: body runs zero or one time with an opaque element
            if self.decide(f"nonempty({it.tag})"):
                items = [Unknown(it.tag + "[i]")]
            else:
                items = []
        elif isinstance(it, LazyFilter):
            items = it._walk()
        elif isinstance(it, list):
            # Python semantics: a list that grows while it is being iterated hands out the new elements too (the queue of pending
            # market orders is flushed this way)
            def live(lst):
                i = 0
                while i < len(lst):
                    if i > 100000:
                        raise NotInFragment(f"for loop over a list that keeps growing: {norm(s.iter)}")
                    yield lst[i]
                    i += 1
            items = live(it)
        else:
            items = self.iterate(it, s.iter)
        broke = False
        for x in items:
            self.assign(s.target, x, fr)
            try:
                self.exec_block(s.body, fr)
            except _Break:
                broke = True
                break
            except _Continue:
                continue
        if not broke:
            self.exec_block(s.orelse, fr)

    def x_While(self, s, fr):
        n = 0
        while True:
            if not self.truth(self.eval(s.test, fr), s.test):
                self.exec_block(s.orelse, fr)
                return
            n += 1
            if n > self.MAX_WHILE:
                raise NotInFragment(f"while loop exceeded {self.MAX_WHILE} iterations: {norm(s.test)}")
            try:
                self.exec_block(s.body, fr)
            except _Break:
                return
            except _Continue:
                continue

    # ---------------------------------------------------------------- expressions
    def eval(self, e, fr: Frame):
        m = getattr(self, "e_" + type(e).__name__, None)
        if m is None:
            raise NotInFragment(f"expression {type(e).__name__}: {norm(e)[:80]}")
        return m(e, fr)

    def e_Constant(self, e, fr):
        v = e.value
        if isinstance(v, bool) or v is None or isinstance(v, str):
            return v
        if isinstance(v, (int, float)):
            return num(v)
        if v is Ellipsis:
            return Unknown("...")
        raise NotInFragment(f"constant {v!r}")

    def e_Name(self, e, fr):
        if e.id in fr.locals:
            return fr.locals[e.id]
        c = fr.closure
        if c is not None and e.id in c:
            return c[e.id]
        return self.lookup_global(fr, e.id)

    def e_Attribute(self, e, fr):
        return self.getattr(self.eval(e.value, fr), e.attr, e, fr)

    def e_JoinedStr(self, e, fr):
        parts = []
        for v in e.values:
            if isinstance(v, ast.Constant):
                parts.append(v.value)
            else:
                try:
                    x = self.eval(v.value, fr)
                except (NotInFragment, _Raise):
                    return Unknown("fstr")
                if isinstance(x, str):
                    parts.append(x)
                elif isinstance(x, R) and x.is_const() and x.const_value().denominator == 1 and not v.format_spec:
                    parts.append(str(int(x.const_value())))
                else:
                    return Unknown("fstr")
        return "".join(parts)

    def e_Tuple(self, e, fr):
        return tuple(self._elts(e.elts, fr))

    def e_List(self, e, fr):
        return self._elts(e.elts, fr)

    def e_Set(self, e, fr):
        return self._elts(e.elts, fr)

    def _elts(self, elts, fr):
        out = []
        for x in elts:
            if isinstance(x, ast.Starred):
                out.extend(self.iterate(self.eval(x.value, fr)))
            else:
                out.append(self.eval(x, fr))
        return out

    def e_Dict(self, e, fr):
        d = {}
        for k, v in zip(e.keys, e.values):
            if k is None:
                d.update(self.eval(v, fr))
            else:
                d[self._key(self.eval(k, fr))] = self.eval(v, fr)
        return d

    def e_Lambda(self, e, fr):
        return FuncV(e, fr.mod, closure=fr.locals, qual="<lambda>")

    def e_IfExp(self, e, fr):
        return self.eval(e.body, fr) if self.truth(self.eval(e.test, fr), e.test) else self.eval(e.orelse, fr)

    def e_BoolOp(self, e, fr):
        if isinstance(e.op, ast.And):
            v = True
            for x in e.values:
                v = self.eval(x, fr)
                if not self.truth(v, x):
                    return v
            return v
        v = False
        for x in e.values:
            v = self.eval(x, fr)
            if self.truth(v, x):
                return v
        return v

    def e_UnaryOp(self, e, fr):
        v = self.eval(e.operand, fr)
        if isinstance(e.op, ast.Not):
            return not self.truth(v, e.operand)
        if isinstance(e.op, ast.USub):
            if isinstance(v, Arr):
                return Arr([-x if is_num(x) else Unknown("neg") for x in v.items])
            if isinstance(v, bool):
                return num(-int(v))
            if is_num(v):
                return -v
            if isinstance(v, Unknown):
                return v
        if isinstance(e.op, ast.UAdd):
            return v
        if isinstance(e.op, ast.Invert) and isinstance(v, (bool, Unknown)):
            return (not v) if isinstance(v, bool) else v
        raise NotInFragment(f"unary {norm(e)}")

    def e_Compare(self, e, fr):
        left = self.eval(e.left, fr)
        if len(e.ops) == 1 and isinstance(left, Obj) and "__compare__" in left.attrs:
            return self.call(left.attrs["__compare__"], [e.ops[0], self.eval(e.comparators[0], fr)], {})
        if len(e.ops) == 1 and isinstance(e.ops[0], (ast.Lt, ast.LtE, ast.Gt, ast.GtE)):
            right0 = self.eval(e.comparators[0], fr)
            if isinstance(left, Arr) and (is_num(right0) or isinstance(right0, Arr)):
                rs = right0.items if isinstance(right0, Arr) else [right0] * len(left.items)
                return BoolVec([self.compare(x, e.ops[0], y) for x, y in zip(left.items, rs)])
            if isinstance(left, ColT) and isinstance(right0, Arr):
                return BoolMat([[self.compare(x, e.ops[0], y) for y in right0.items] for x in left.items])
            if isinstance(left, Arr) and isinstance(right0, ColT):
                return BoolMat([[self.compare(y, e.ops[0], x) for y in left.items] for x in right0.items])
            if isinstance(left, ColT) and is_num(right0):
                return BoolMat([[self.compare(x, e.ops[0], right0)] for x in left.items])
            if not self.compare(left, e.ops[0], right0, e):
                return False
            return True
        if len(e.ops) == 1 and isinstance(e.ops[0], (ast.Eq, ast.NotEq)):
            right0 = self.eval(e.comparators[0], fr)
            if isinstance(left, (Arr, Arr2)) or isinstance(right0, (Arr, Arr2)):
                return self._array_eq(left, right0, isinstance(e.ops[0], ast.NotEq))
            if not self.compare(left, e.ops[0], right0, e):
                return False
            return True
        for op, c in zip(e.ops, e.comparators):
            right = self.eval(c, fr)
            if not self.compare(left, op, right, e):
                return False
            left = right
        return True

    def _array_eq(self, a, b, negate):
        """numpy elementwise (broadcast) equality"""
        def elem(x, y):
            r = self.compare(x, ast.Eq(), y)
            return (not r) if negate else r
        if isinstance(a, Arr) and isinstance(b, Arr):
            if len(a.items) != len(b.items):
                raise NotInFragment("array == with different lengths")
            return BoolVec([elem(x, y) for x, y in zip(a.items, b.items)])
        if isinstance(a, Arr2) and isinstance(b, Arr):
            return BoolMat([[elem(x, y) for x, y in zip(row.items, b.items)] for row in a.rows])
        if isinstance(b, Arr2) and isinstance(a, Arr):
            return self._array_eq(b, a, negate)
        if isinstance(a, Arr) and (is_num(b) or b is None):
            return BoolVec([elem(x, b) for x in a.items])
        raise NotInFragment(f"array comparison {type(a).__name__} == {type(b).__name__}")

    def e_BinOp(self, e, fr):
        return self.binop(self.eval(e.left, fr), e.op, self.eval(e.right, fr), e)

    def binop(self, a, op, b, node=None):
        if isinstance(a, bool):
            a = num(int(a))
        if isinstance(b, bool):
            b = num(int(b))
        if isinstance(op, (ast.BitAnd, ast.BitOr)) and isinstance(a, (BoolVec, BoolMat)) and type(a) is type(b):
            f = (lambda x, y: bool(x) and bool(y)) if isinstance(op, ast.BitAnd) else (lambda x, y: bool(x) or bool(y))
            if isinstance(a, BoolVec):
                if len(a.items) != len(b.items):
                    raise NotInFragment("boolean vectors of different lengths")
                return BoolVec([f(x, y) for x, y in zip(a.items, b.items)])
            if len(a.rows) != len(b.rows) or any(len(x) != len(y) for x, y in zip(a.rows, b.rows)):
                raise NotInFragment("boolean matrices of different shapes")
            return BoolMat([[f(x, y) for x, y in zip(r1, r2)] for r1, r2 in zip(a.rows, b.rows)])
        if a is NAN or b is NAN:
            return NAN
        # elementwise arithmetic of 1-D arrays with scalars / equal-length arrays (numpy broadcasting, 1-D only)
        if isinstance(a, Arr) and (is_num(b) or (isinstance(b, Arr) and len(b.items) == len(a.items))) and not isinstance(op, ast.MatMult):
            bs = b.items if isinstance(b, Arr) else [b] * len(a.items)
            return Arr([self.binop(x, op, y, node) for x, y in zip(a.items, bs)])
        if isinstance(b, Arr) and is_num(a) and not isinstance(op, ast.MatMult):
            return Arr([self.binop(a, op, y, node) for y in b.items])
        if is_num(a) and is_num(b):
            try:
                if isinstance(op, ast.Add):
                    return a + b
                if isinstance(op, ast.Sub):
                    return a - b
                if isinstance(op, ast.Mult):
                    return a * b
                if isinstance(op, ast.Div):
                    return a / b
                if isinstance(op, ast.Pow):
                    if b.is_const() and b.const_value().denominator == 1 and abs(b.const_value()) <= 12:
                        return a ** int(b.const_value())
                    return R.atom(Op("pow", (a, b)))
                if isinstance(op, ast.FloorDiv):
                    if a.is_const() and b.is_const():
                        return num(a.const_value() // b.const_value())
                    return R.atom(Op("floordiv", (a, b)))
                if isinstance(op, ast.Mod):
                    if a.is_const() and b.is_const():
                        return num(a.const_value() % b.const_value())
                    return R.atom(Op("mod", (a, b)))
            except ZeroDivisionError:
                raise _Raise(ExcV("ZeroDivisionError", []))
        if isinstance(op, ast.Add):
            if isinstance(a, list) and isinstance(b, list):
                return a + b
            if isinstance(a, tuple) and isinstance(b, tuple):
                return a + b
            if isinstance(a, str) and isinstance(b, str):
                return a + b
        if isinstance(op, ast.Mult) and isinstance(a, list) and is_num(b) and b.is_const():
            return a * int(b.const_value())
        if isinstance(op, ast.Mod) and isinstance(a, str):
            return Unknown("fstr")
        if a is None or b is None:
            raise _Raise(ExcV("TypeError", [f"unsupported operand type(s): {type(a).__name__} and {type(b).__name__}"]))
        if isinstance(a, Unknown) or isinstance(b, Unknown) or isinstance(a, str) or isinstance(b, str):
            return Unknown("arith")
        if isinstance(a, Col) and isinstance(b, Col) and len(a.items) == len(b.items):
            return Col([self.binop(x, op, y, node) for x, y in zip(a.items, b.items)])
        if isinstance(a, Col) and is_num(b):
            return Col([self.binop(x, op, b, node) for x in a.items])
        if is_num(a) and isinstance(b, Col):
            return Col([self.binop(a, op, y, node) for y in b.items])
        if isinstance(a, Obj) and "__binop__" in a.attrs:
            return self.call(a.attrs["__binop__"], [op, b, False], {})
        if isinstance(b, Obj) and "__binop__" in b.attrs:
            return self.call(b.attrs["__binop__"], [op, a, True], {})
        if isinstance(a, Arr) and isinstance(b, Arr) and len(a.items) == len(b.items):
            return Arr([self.binop(x, op, y, node) for x, y in zip(a.items, b.items)])
        if isinstance(a, Arr) and (is_num(b) or isinstance(b, bool)):
            return Arr([self.binop(x, op, b, node) for x in a.items])
        if isinstance(b, Arr) and (is_num(a) or isinstance(a, bool)):
            return Arr([self.binop(a, op, y, node) for y in b.items])
        if isinstance(a, Arr) or isinstance(b, Arr):
            return Unknown("arr-arith")
        raise NotInFragment(f"binop {type(op).__name__} on {type(a).__name__},{type(b).__name__}" + (f" at {norm(node)}" if node is not None else ""))

    def e_Call(self, e, fr):
        f = self.eval(e.func, fr)
        args = []
        for a in e.args:
            if isinstance(a, ast.Starred):
                args.extend(self.iterate(self.eval(a.value, fr)))
            else:
                args.append(self.eval(a, fr))
        kwargs = {}
        for k in e.keywords:
            if k.arg is None:
                kwargs.update(self.eval(k.value, fr))
            else:
                kwargs[k.arg] = self.eval(k.value, fr)
        return self.call(f, args, kwargs, e, fr)

    def e_Subscript(self, e, fr):
        base = self.eval(e.value, fr)
        if isinstance(base, Unknown):
            return Unknown(f"{base.tag}[{norm(e.slice)}]")
        if isinstance(e.slice, ast.Slice):
            lo = self.eval(e.slice.lower, fr) if e.slice.lower is not None else None
            hi = self.eval(e.slice.upper, fr) if e.slice.upper is not None else None
            if e.slice.step is not None:
                raise NotInFragment(f"slice step {norm(e)}")
            if isinstance(base, Obj) and "__getitem__" in base.attrs:
                return self.call(base.attrs["__getitem__"], [SliceV(lo, hi)], {})
            if isinstance(base, Obj) and base.node is not None:
                hit = self.repo.find_method(base.mod, base.node, "__getitem__")
                if hit:
                    m, cn, fn = hit
                    return self.call(FuncV(fn, m, self_obj=base, cls=cn, qual=f"{cn.name}.__getitem__"), [SliceV(lo, hi)], {})
            items = base.items if isinstance(base, Arr) else (base.rows if isinstance(base, Arr2) else base)
            if isinstance(items, (list, tuple, str)):
                def ci(x):
                    if x is None:
                        return None
                    if isinstance(x, R) and x.is_const():
                        return int(x.const_value())
                    raise NotInFragment(f"non-constant slice bound {norm(e)}")
                r = items[ci(lo):ci(hi)]
                if isinstance(base, Arr2):
                    return Arr2(list(r))
                return Arr(r) if isinstance(base, Arr) else r
            raise NotInFragment(f"slice of {type(base).__name__} at {norm(e)}")
        if isinstance(e.slice, ast.Tuple):
            # numpy 2-D indexing  a[i, j] / a[None, :] / a[:, k]
            return self._np_index(base, e, fr)
        k = self.eval(e.slice, fr)
        return self.getitem(base, k, e)

    def getitem(self, base, k, node=None):
        if isinstance(base, Unknown) or isinstance(k, Unknown):
            return Unknown("item")
        if isinstance(base, dict):
            kk = self._key(k)
            if kk not in base:
                raise _Raise(ExcV("KeyError", [kk]))
            return base[kk]
        if isinstance(base, (list, tuple)):
            return base[self._index(k, len(base), node)]
        if isinstance(base, Arr):
            return base.items[self._index(k, len(base.items), node)]
        if isinstance(base, Arr2):
            return base.rows[self._index(k, len(base.rows), node)]
        if isinstance(base, str):
            return base[self._index(k, len(base), node)]
        if isinstance(base, Obj) and "__getitem__" in base.attrs:
            return self.call(base.attrs["__getitem__"], [k], {})
        if isinstance(base, Obj) and base.node is not None:
            hit = self.repo.find_method(base.mod, base.node, "__getitem__")
            if hit:
                m, cn, fn = hit
                return self.call(FuncV(fn, m, self_obj=base, cls=cn, qual=f"{cn.name}.__getitem__"), [k], {})
        raise NotInFragment(f"subscript of {type(base).__name__}" + (f" at {norm(node)}" if node is not None else ""))

    def _np_index(self, base, e, fr):
        elts = e.slice.elts
        if isinstance(base, Arr) and len(elts) == 2:
            a, b = elts
            # candle[None, :]  -> list of one candle
            if isinstance(a, ast.Constant) and a.value is None and isinstance(b, ast.Slice) and b.lower is None and b.upper is None:
                return Arr2([base])
        if isinstance(base, Arr2) and len(elts) == 2:
            a, b = elts
            if isinstance(a, ast.Slice) and a.lower is None and a.upper is None:
                j = self._index(self.eval(b, fr), 6, e)
                return Col([row.items[j] for row in base.rows])
            if not isinstance(a, ast.Slice) and not isinstance(b, ast.Slice):
                i = self._index(self.eval(a, fr), len(base.rows), e)
                row = base.rows[i]
                return row.items[self._index(self.eval(b, fr), len(row.items), e)]
        if isinstance(base, Arr2) and len(elts) == 3:
            a, b, c = elts
            # candles[:, j, None]: the column as an (n, 1) array, to be broadcast against a vector
            if isinstance(a, ast.Slice) and a.lower is None and a.upper is None and isinstance(c, ast.Constant) and c.value is None:
                j = self._index(self.eval(b, fr), 6, e)
                return ColT([row.items[j] for row in base.rows])
        raise NotInFragment(f"numpy indexing {norm(e)}")

    def e_ListComp(self, e, fr):
        return self._comp(e, fr)

    def e_GeneratorExp(self, e, fr):
        return IterV(self._comp(e, fr))

    def e_SetComp(self, e, fr):
        return self._comp(e, fr)

    def _comp(self, e, fr):
        out = []
        sub = Frame(fr.mod, dict(fr.locals), closure=fr.closure)
        sub.local_imports = fr.local_imports

        def rec(gi):
            if gi == len(e.generators):
                out.append(self.eval(e.elt, sub))
                return
            g = e.generators[gi]
            it = self.eval(g.iter, sub)
            if isinstance(it, Unknown):
                raise NotInFragment(f"comprehension over unknown {it.tag}: {norm(e)[:60]}")
            for x in self.iterate(it, g.iter):
                self.assign(g.target, x, sub)
                if all(self.truth(self.eval(c, sub), c) for c in g.ifs):
                    rec(gi + 1)
        rec(0)
        return out

    def e_DictComp(self, e, fr):
        out = {}
        sub = Frame(fr.mod, dict(fr.locals), closure=fr.closure)
        g = e.generators[0]
        if len(e.generators) != 1:
            raise NotInFragment("nested dict comprehension")
        for x in self.iterate(self.eval(g.iter, sub), g.iter):
            self.assign(g.target, x, sub)
            if all(self.truth(self.eval(c, sub), c) for c in g.ifs):
                out[self._key(self.eval(e.key, sub))] = self.eval(e.value, sub)
        return out

    def e_Starred(self, e, fr):
        raise NotInFragment("starred")

    def e_NamedExpr(self, e, fr):
        v = self.eval(e.value, fr)
        self.assign(e.target, v, fr)
        return v


OPS = {ast.Lt: "<", ast.LtE: "<=", ast.Gt: ">", ast.GtE: ">=", ast.Eq: "==", ast.NotEq: "!=",
       ast.Is: "is", ast.IsNot: "is not", ast.In: "in", ast.NotIn: "not in"}

MISSING = object()


def _load(t):
    import copy
    t2 = copy.copy(t)
    t2.ctx = ast.Load()
    return t2


def repr_type(v):
    if isinstance(v, BoundBuiltin):
        for k, b in BUILTINS.items():
            if b is v:
                return k
    if isinstance(v, ClassV):
        return v.node.name
    if isinstance(v, ExtV):
        return v.dotted.split(".")[-1]
    return repr(v)


class SliceV:
    def __init__(self, start, stop):
        self.start, self.stop, self.step = start, stop, None


class IterV:
    def __init__(self, items):
        self.items = list(items)


class Arr2:
    """2-D array: list of candle rows."""

    def __init__(self, rows: List[Arr]):
        self.rows = rows


class Col:
    """A column of a 2-D array (supports max/min/sum reductions)."""

    def __init__(self, items):
        self.items = items


class ColT:
    """A column of a 2-D array kept as an (n, 1) array: comparing it with a vector of k numbers gives an (n, k) boolean matrix."""

    def __init__(self, items):
        self.items = list(items)


class BoolVec:
    def __init__(self, items):
        self.items = list(items)


class BoolMat:
    def __init__(self, rows):
        self.rows = [list(r) for r in rows]


class BoundBuiltin:
    def __init__(self, fn):
        self.fn = fn


# ---------------------------------------------------------------- builtin models
def _b_abs(it: Interp, args, kw):
    v = args[0]
    if is_num(v):
        if v.is_const():
            return num(abs(v.const_value()))
        r = abs_of(v, it.nonneg)
        if it.samples and any(isinstance(a, Op) and a.name == "abs" for a in r.atoms()):
            # the sign of a multi-term expression is a property of the abstract case: decide it on the
            # witnesses (forks when they disagree)
            return v if it.decide_num(v, ast.GtE(), num(0)) else -v
        return r
    if v is NAN:
        return NAN
    return Unknown("abs")


def _minmax(which):
    def f(it: Interp, args, kw):
        if len(args) == 1:
            if isinstance(args[0], Col):
                xs = list(args[0].items)
            else:
                xs = it.iterate(args[0])
        else:
            xs = list(args)
        if not xs:
            if "default" in kw:
                return kw["default"]
            raise _Raise(ExcV("ValueError", []))
        key = kw.get("key")
        best = xs[0]
        for x in xs[1:]:
            a = it.call(key, [x], {}) if key else x
            b = it.call(key, [best], {}) if key else best
            if not (is_num(a) and is_num(b)):
                return Unknown(which)
            if a.same(b):
                continue
            if not it.samples and not (a - b).is_const():
                # purely symbolic run: keep an opaque min/max atom
                if key:
                    return Unknown(which)
                return R.atom(Op(which, tuple(sorted(xs, key=repr))))
            better = it.decide_num(a, ast.Lt() if which == "min" else ast.Gt(), b)
            if better:
                best = x
        return best
    return f


def _b_len(it, args, kw):
    v = args[0]
    if isinstance(v, (list, tuple, dict, str, set)):
        return num(len(v))
    if isinstance(v, Arr):
        return num(len(v.items))
    if isinstance(v, Arr2):
        return num(len(v.rows))
    if isinstance(v, IterV):
        return num(len(v.items))
    if isinstance(v, Obj) and "__len__" in v.attrs:
        return it.call(v.attrs["__len__"], [], {})
    if isinstance(v, Obj) and v.node is not None:
        hit = it.repo.find_method(v.mod, v.node, "__len__")
        if hit:
            m, cn, fn = hit
            return it.call(FuncV(fn, m, self_obj=v, cls=cn, qual=f"{cn.name}.__len__"), [], {})
    if isinstance(v, Unknown):
        return R.atom(Op("len", (v.tag,)))
    raise NotInFragment(f"len of {type(v).__name__}")


def _b_sorted(it: Interp, args, kw):
    xs = it.iterate(args[0])
    key = kw.get("key")
    rev = kw.get("reverse", False)
    if not isinstance(rev, bool):
        rev = it.truth(rev)
    keyed = [(it.call(key, [x], {}) if key else x, x) for x in xs]
    # stable insertion sort using decided comparisons
    out: List[tuple] = []
    for k, x in keyed:
        pos = len(out)
        for j in range(len(out)):
            kj = out[j][0]
            if not (is_num(k) and is_num(kj)):
                raise NotInFragment("sorted() on non-numeric keys")
            s = it.sign_of(k - kj)
            if s is None:
                raise NotInFragment(f"sorted(): order of {k!r} and {kj!r} not decided by the abstract case")
            if (not rev and s < 0) or (rev and s > 0):
                pos = j
                break
        out.insert(pos, (k, x))
    return [x for _, x in out]


def _b_range(it, args, kw):
    vals = []
    for a in args:
        if not (is_num(a) and a.is_const() and a.const_value().denominator == 1):
            raise NotInFragment(f"range over symbolic bound {a!r}")
        vals.append(int(a.const_value()))
    return [num(i) for i in range(*vals)]


def _b_enumerate(it, args, kw):
    start = int(args[1].const_value()) if len(args) > 1 else 0
    return [(num(i + start), x) for i, x in enumerate(it.iterate(args[0]))]


def _b_zip(it, args, kw):
    return [tuple(t) for t in zip(*[it.iterate(a) for a in args])]


def _b_int(it, args, kw):
    v = args[0]
    if is_num(v):
        if v.is_const():
            c = v.const_value()
            import math
            return num(math.trunc(c))
        return R.atom(Op("int", (v,)))
    if isinstance(v, bool):
        return num(int(v))
    return Unknown("int")


def _b_float(it, args, kw):
    v = args[0]
    if is_num(v):
        return v
    if isinstance(v, str):
        try:
            return num(v)
        except Exception:
            return Unknown("float")
    return Unknown("float") if not isinstance(v, NaNType) else NAN


def _b_round(it, args, kw):
    v = args[0]
    if is_num(v) and v.is_const() and len(args) == 1:
        return num(round(v.const_value()))
    if is_num(v):
        return R.atom(Op("round", tuple(args)))
    return Unknown("round")


def _b_bool(it, args, kw):
    return it.truth(args[0]) if args else False


def _b_isinstance(it, args, kw):
    v, t = args
    ts = t if isinstance(t, tuple) else (t,)
    names = {repr_type(x) for x in ts}
    if isinstance(v, Unknown):
        return it.decide(f"isinstance({v.tag}, {sorted(names)})")
    if isinstance(v, (BoundBuiltin, FuncV, ClassV)):
        return bool(names & {"type", "object"})
    if v is NAN:
        return bool(names & {"float", "float64", "number", "Number", "floating"})
    if isinstance(v, str):
        return "str" in names
    if isinstance(v, bool):
        return bool(names & {"bool", "int"})
    if is_num(v):
        numeric = {"float", "np.float64", "float64", "number", "Number", "floating"}
        if names & numeric and "int" in names:
            return True
        if v.is_const():
            integral = v.const_value().denominator == 1
            if "int" in names and integral:
                return True
            if names & numeric:
                return True if not integral else it.decide(f"isinstance({v!r}, float)") if "int" not in names and False else bool(names & numeric)
            return False
        if names & numeric and "int" not in names:
            return True
        if "int" in names:
            return it.decide(f"isinstance({v!r}, int)")
        return False
    if isinstance(v, list):
        return "list" in names
    if isinstance(v, tuple):
        return "tuple" in names
    if isinstance(v, dict):
        return "dict" in names
    if isinstance(v, (Arr, Arr2)):
        return bool(names & {"ndarray", "numpy.ndarray", "np.ndarray"})
    if isinstance(v, SliceV):
        return "slice" in names
    if isinstance(v, Obj):
        if v.node is not None:
            mro_names = {cn.name for _, cn in it.repo.mro(v.mod, v.node)}
            return bool(mro_names & names) or v.cls in names
        return v.cls in names
    if v is None:
        return False
    return it.decide(f"isinstance({it._show(v)}, {sorted(names)})")


def _b_sum(it, args, kw):
    xs = args[0].items if isinstance(args[0], Col) else it.iterate(args[0])
    tot = args[1] if len(args) > 1 else num(0)
    for x in xs:
        if isinstance(x, bool):
            x = num(int(x))
        if not is_num(x):
            return Unknown("sum")
        tot = tot + x
    return tot


def _b_any(it, args, kw):
    xs = it.iterate(args[0])
    return any(it.truth(x) for x in xs)


def _b_all(it, args, kw):
    xs = it.iterate(args[0])
    return all(it.truth(x) for x in xs)


def _b_list(it, args, kw):
    return list(it.iterate(args[0])) if args else []


def _b_tuple(it, args, kw):
    return tuple(it.iterate(args[0])) if args else ()


def _b_dict(it, args, kw):
    d = dict(args[0]) if args else {}
    d.update(kw)
    return d


def _b_set(it, args, kw):
    return list(it.iterate(args[0])) if args else []


def _b_str(it, args, kw):
    v = args[0] if args else ""
    if isinstance(v, str):
        return v
    if is_num(v):
        return StrOf(v)
    return Unknown("str")


def _b_type(it, args, kw):
    v = args[0]
    if isinstance(v, list):
        return BUILTINS["list"]
    if isinstance(v, tuple):
        return BUILTINS["tuple"]
    if isinstance(v, dict):
        return BUILTINS["dict"]
    if isinstance(v, str):
        return BUILTINS["str"]
    if isinstance(v, bool):
        return BUILTINS["bool"]
    if is_num(v):
        return BUILTINS["float"]
    if isinstance(v, (Arr, Arr2)):
        return ExtV("numpy.ndarray")
    if isinstance(v, Obj):
        return ClassV(v.node, v.mod) if v.node is not None else ExtV(v.cls)
    return Unknown("type")


def _b_ord(it, args, kw):
    if isinstance(args[0], str) and len(args[0]) == 1:
        return num(ord(args[0]))
    return Unknown("ord")


def _b_chr(it, args, kw):
    if is_num(args[0]) and args[0].is_const():
        return chr(int(args[0].const_value()))
    return Unknown("chr")


class LazyFilter(IterV):
    """filter(pred, a_list): a one-shot iterator that walks the LIVE list by position and tests each element when it gets there -
    removing an element from the list while the iterator is being consumed shifts what it sees next (as in CPython)"""

    def __init__(self, it, pred, src):
        self.it, self.pred, self.src, self.pos = it, pred, src, 0
        self.done = False

    @property
    def items(self):
        # consuming view (used by len() / sum(): evaluates what is left)
        return list(self._walk())

    @items.setter
    def items(self, v):
        # iterate() empties the iterator after a pass
        if not v:
            self.done = True

    def _walk(self):
        while not self.done and self.pos < len(self.src):
            x = self.src[self.pos]
            self.pos += 1
            if self.it.truth(self.it.call(self.pred, [x], {}) if self.pred is not None else x):
                yield x
        self.done = True


def _b_vars(it, args, kw):
    v = args[0] if args else None
    if isinstance(v, ClassV):
        out = {}
        for b in v.node.body:
            if isinstance(b, ast.Assign):
                for t in b.targets:
                    if isinstance(t, ast.Name):
                        out[t.id] = it.eval(b.value, Frame(v.mod, {}))
            elif isinstance(b, ast.FunctionDef):
                out[b.name] = FuncV(b, v.mod, cls=v.node, qual=f"{v.node.name}.{b.name}")
        return out
    if isinstance(v, Obj):
        return v.attrs
    return Unknown("vars")


def _b_callable(it, args, kw):
    v = args[0]
    if isinstance(v, (FuncV, BoundBuiltin, ClassV)):
        return True
    if isinstance(v, (str, bool, list, tuple, dict)) or v is None or is_num(v):
        return False
    return it.decide(f"callable({it._show(v)})")


def _b_filter(it, args, kw):
    f, xs = args
    if isinstance(xs, list):
        return LazyFilter(it, f, xs)
    # (evaluated eagerly; what matters here is that the RESULT is a one-shot iterator, not a list)
    return IterV([x for x in it.iterate(xs) if it.truth(it.call(f, [x], {}) if f is not None else x)])


def _b_reversed(it, args, kw):
    return list(reversed(it.iterate(args[0])))


def _b_print(it, args, kw):
    return None


def _b_getattr(it, args, kw):
    if isinstance(args[1], str):
        try:
            return it.getattr(args[0], args[1])
        except NotInFragment:
            if len(args) > 2:
                return args[2]
            raise
    return Unknown("getattr")


def _b_setattr(it, args, kw):
    if isinstance(args[1], str):
        it.setattr(args[0], args[1], args[2])
        return None
    raise NotInFragment("setattr with non-constant name")


def _b_hasattr(it, args, kw):
    v, n = args
    if isinstance(v, Obj) and isinstance(n, str):
        if n in v.attrs:
            return True
        if v.node is not None and it.repo.find_method(v.mod, v.node, n):
            return True
        return False
    return it.decide(f"hasattr({it._show(v)}, {n})")


class StrOf:
    """str(number): only meaningful as an argument of Decimal()/float()."""

    def __init__(self, v):
        self.v = v


class Formatted:
    """format(number, spec) / '%.6f' % number: a decimal text with a FIXED number of digits - lossy"""

    def __init__(self, v, spec):
        self.v, self.spec = v, spec


def _b_format(it, args, kw):
    v = args[0] if args else ""
    spec = args[1] if len(args) > 1 else ""
    if is_num(v):
        return Formatted(v, spec)
    if isinstance(v, str) and not spec:
        return v
    return Unknown("format")


BUILTINS: Dict[str, Any] = {k: BoundBuiltin(v) for k, v in {
    "abs": _b_abs, "min": _minmax("min"), "max": _minmax("max"), "len": _b_len, "sorted": _b_sorted,
    "range": _b_range, "enumerate": _b_enumerate, "zip": _b_zip, "int": _b_int, "float": _b_float,
    "round": _b_round, "bool": _b_bool, "isinstance": _b_isinstance, "sum": _b_sum, "any": _b_any,
    "all": _b_all, "list": _b_list, "tuple": _b_tuple, "dict": _b_dict, "set": _b_set, "str": _b_str, "format": _b_format,
    "type": _b_type, "vars": _b_vars, "callable": _b_callable, "filter": _b_filter, "reversed": _b_reversed, "print": _b_print,
    "getattr": _b_getattr, "setattr": _b_setattr, "hasattr": _b_hasattr, "ord": _b_ord, "chr": _b_chr,
}.items()}
for _n in ("Exception", "ValueError", "TypeError", "IndexError", "KeyError", "NotImplementedError",
           "AttributeError", "ZeroDivisionError", "RuntimeError", "AssertionError", "StopIteration"):
    BUILTINS[_n] = BoundBuiltin((lambda n: (lambda it, args, kw: ExcV(n, list(args))))(_n))
BUILTINS["slice"] = BoundBuiltin(lambda it, a, k: SliceV(*( [None, a[0]] if len(a) == 1 else list(a[:2]) )))
BUILTINS["True"] = True
BUILTINS["False"] = False
BUILTINS["None"] = None


def list_method(it: Interp, lst: list, attr: str):
    def append(i, a, k):
        lst.append(a[0])
        i.event("append", id(lst), a[0])

    def extend(i, a, k):
        lst.extend(i.iterate(a[0]))

    def copy(i, a, k):
        return list(lst)

    def clear(i, a, k):
        lst.clear()
        i.event("clear", id(lst))

    def pop(i, a, k):
        idx = int(a[0].const_value()) if a else -1
        return lst.pop(idx)

    def insert(i, a, k):
        lst.insert(int(a[0].const_value()), a[1])

    def remove(i, a, k):
        for j, x in enumerate(lst):
            if i.compare(x, ast.Eq(), a[0]):
                del lst[j]
                return
        raise _Raise(ExcV("ValueError", []))

    def index(i, a, k):
        for j, x in enumerate(lst):
            if i.compare(x, ast.Eq(), a[0]):
                return num(j)
        raise _Raise(ExcV("ValueError", []))

    table = {"append": append, "extend": extend, "copy": copy, "clear": clear, "pop": pop, "insert": insert,
             "remove": remove, "index": index}
    if attr not in table:
        raise NotInFragment(f"list.{attr}")
    return BoundBuiltin(table[attr])


def dict_method(it: Interp, d: dict, attr: str):
    def get(i, a, k):
        key = i._key(a[0])
        return d.get(key, a[1] if len(a) > 1 else None)

    def items(i, a, k):
        return [(kk, vv) for kk, vv in d.items()]

    def keys(i, a, k):
        return list(d.keys())

    def values(i, a, k):
        return list(d.values())

    def copy(i, a, k):
        return dict(d)

    def update(i, a, k):
        d.update(a[0] if a else {})
        d.update(k)

    def pop(i, a, k):
        key = i._key(a[0])
        if key in d:
            return d.pop(key)
        if len(a) > 1:
            return a[1]
        raise _Raise(ExcV("KeyError", [key]))

    def setdefault(i, a, k):
        return d.setdefault(i._key(a[0]), a[1] if len(a) > 1 else None)

    def clear(i, a, k):
        d.clear()

    table = {"get": get, "items": items, "keys": keys, "values": values, "copy": copy, "update": update,
             "pop": pop, "setdefault": setdefault, "clear": clear}
    if attr not in table:
        raise NotInFragment(f"dict.{attr}")
    return BoundBuiltin(table[attr])


def arr_method(it: Interp, a: Arr, attr: str):
    if attr == "copy":
        return BoundBuiltin(lambda i, ar, k: Arr(list(a.items)))
    if attr == "size":
        return num(len(a.items))
    if attr == "shape":
        return (num(len(a.items)),)
    if attr in ("max", "min", "sum"):
        return BoundBuiltin(lambda i, ar, k: {"max": _minmax("max"), "min": _minmax("min"), "sum": _b_sum}[attr](i, [a.items], {}))
    if attr == "tolist":
        return BoundBuiltin(lambda i, ar, k: list(a.items))
    if attr == "astype":
        def astype(i, ar, k):
            t = repr_type(ar[0]) if ar else ""
            if "bool" in str(t):
                return Arr([i.truth(x) for x in a.items])
            return Arr(list(a.items))
        return BoundBuiltin(astype)
    if attr == "cumsum":
        def cumsum(i, ar, k):
            out, acc = [], num(0)
            for x in a.items:
                acc = acc + (num(int(x)) if isinstance(x, bool) else x)
                out.append(acc)
            return Arr(out)
        return BoundBuiltin(cumsum)
    if attr == "mean":
        return BoundBuiltin(lambda i, ar, k: (_b_sum(i, [a.items], {}) / num(len(a.items))) if a.items else NAN)
    raise NotInFragment(f"ndarray.{attr}")


def str_method(it: Interp, s: str, attr: str):
    if attr in ("lower", "upper", "strip", "split", "startswith", "endswith", "replace", "format", "join", "rstrip"):
        def f(i, a, k):
            try:
                if all(isinstance(x, str) for x in a):
                    return getattr(s, attr)(*a)
            except Exception:
                pass
            return Unknown(f"str.{attr}")
        return BoundBuiltin(f)
    raise NotInFragment(f"str.{attr}")


# ---------------------------------------------------------------- external (numpy / math / decimal) models
def _np_array(it: Interp, args, kw):
    v = args[0]
    if isinstance(v, Arr):
        return Arr(list(v.items))
    if isinstance(v, (list, tuple)):
        if v and all(isinstance(x, Arr) for x in v):
            return Arr2(list(v))
        return Arr(list(v))
    return Unknown("np.array")


def _decimal(it, args, kw):
    v = args[0]
    if isinstance(v, StrOf):
        it.event("decimal", "str", v.v)
        return v.v
    if isinstance(v, Formatted):
        it.event("decimal", f"format(., {v.spec!r})", v.v)
        return Unknown("Decimal(format)")
    if is_num(v):
        it.event("decimal", "binary-float", v)
        return v
    if isinstance(v, str):
        try:
            return num(v)
        except Exception:
            return Unknown("Decimal")
    return Unknown("Decimal")


def _math_floor(it, args, kw):
    v = args[0]
    if isinstance(v, Arr):
        return Arr([_math_floor(it, [x], {}) for x in v.items])
    if is_num(v):
        if v.is_const():
            import math
            return num(math.floor(v.const_value()))
        return R.atom(Op("floor", (v,)))
    return Unknown("floor")


def _math_gcd(it, args, kw):
    import math
    g = 0
    for v in args:
        if not (is_num(v) and v.is_const() and v.const_value().denominator == 1):
            return Unknown("gcd")
        g = math.gcd(g, int(v.const_value()))
    return num(g)


def _isnan(it, args, kw):
    v = args[0]
    if v is NAN:
        return True
    if is_num(v):
        return False
    return it.decide(f"isnan({it._show(v)})")


def _np_array_equal(it, args, kw):
    a, b = args
    if a is None or b is None:
        return False
    def rows(x):
        if isinstance(x, Arr2):
            return [list(r.items) for r in x.rows]
        if isinstance(x, (list, tuple)) and x and all(isinstance(r, (list, tuple, Arr)) for r in x):
            return [list(r.items) if isinstance(r, Arr) else list(r) for r in x]
        return None
    ra, rb = rows(a), rows(b)
    if ra is not None or rb is not None:
        if ra is None:
            ra = [] if (isinstance(a, (list, tuple)) and not a) else None
        if rb is None:
            rb = [] if (isinstance(b, (list, tuple)) and not b) else None
        if ra is None or rb is None:
            return False
        e = it._equal(ra, rb)
        return e if e is not None else it.decide("array_equal")
    e = it._equal(list(a.items) if isinstance(a, Arr) else a, list(b.items) if isinstance(b, Arr) else b)
    if e is None:
        return it.decide(f"array_equal({it._show(a)}, {it._show(b)})")
    return e


def _np_zeros(it, args, kw):
    shp = args[0]
    def ci(x):
        if is_num(x) and x.is_const():
            return int(x.const_value())
        raise NotInFragment("np.zeros with symbolic shape")
    if isinstance(shp, (tuple, list)):
        dims = [ci(x) for x in shp]
    else:
        dims = [ci(shp)]
    if len(dims) == 1:
        return Arr([num(0)] * dims[0])
    if len(dims) == 2:
        if dims[0] > 64:
            raise NotInFragment("np.zeros: table too large for the abstract heap")
        return Arr2([Arr([num(0)] * dims[1]) for _ in range(dims[0])])
    raise NotInFragment("np.zeros rank > 2")


def _np_concatenate(it, args, kw):
    parts = args[0]
    if all(isinstance(p, Arr2) for p in parts):
        rows = []
        for p in parts:
            rows += [Arr(list(r.items)) for r in p.rows]
        return Arr2(rows)
    if all(isinstance(p, Arr) for p in parts):
        out = []
        for p in parts:
            out += list(p.items)
        return Arr(out)
    return Unknown("np.concatenate")


def _np_delete(it, args, kw):
    a, idx = args[0], args[1]
    if isinstance(a, Arr2) and isinstance(idx, (Arr, list, tuple)):
        drop = {it._index(x, len(a.rows)) for x in (idx.items if isinstance(idx, Arr) else idx)}
        return Arr2([Arr(list(r.items)) for j, r in enumerate(a.rows) if j not in drop])
    if isinstance(a, Arr2):
        i = it._index(idx, len(a.rows))
        return Arr2([Arr(list(r.items)) for j, r in enumerate(a.rows) if j != i])
    if isinstance(a, Arr):
        i = it._index(idx, len(a.items))
        return Arr([x for j, x in enumerate(a.items) if j != i])
    return Unknown("np.delete")


def _np_all(it, args, kw):
    v = args[0]
    if isinstance(v, BoolVec):
        return all(v.items)
    if isinstance(v, BoolMat):
        ax = kw.get("axis", args[1] if len(args) > 1 else None)
        if is_num(ax) and ax.is_const() and ax.const_value() == 1:
            return BoolVec([all(r) for r in v.rows])
        if ax is None:
            return all(all(r) for r in v.rows)
    if isinstance(v, bool):
        return v
    return Unknown("np.all")


def _np_clip(it, args, kw):
    a, lo, hi = args[0], args[1], args[2]
    if not (isinstance(a, Arr) or is_num(a)):
        return Unknown("clip")
    def c1(x):
        if lo is not None and it.decide_num(x, ast.Lt(), lo):
            return lo
        if hi is not None and it.decide_num(x, ast.Gt(), hi):
            return hi
        return x
    if isinstance(a, Arr):
        return Arr([c1(x) for x in a.items])
    return c1(a)


def _np_max_accumulate(it, args, kw):
    a = args[0]
    if not isinstance(a, Arr):
        return Unknown("maximum.accumulate")
    out, best = [], None
    for x in a.items:
        x = num(int(x)) if isinstance(x, bool) else x
        if best is None or it.decide_num(x, ast.Gt(), best):
            best = x
        out.append(best)
    return Arr(out)


def _np_where(it, args, kw):
    if len(args) == 3:
        c, a, b = args
        cs = c.items if isinstance(c, (BoolVec, Arr)) else None
        if cs is None:
            return a if it.truth(c) else b
        n = len(cs)
        la = a.items if isinstance(a, Arr) else [a] * n
        lb = b.items if isinstance(b, Arr) else [b] * n
        return Arr([x if it.truth(cc) else y for cc, x, y in zip(cs, la, lb)])
    v = args[0]
    if isinstance(v, BoolVec) and len(args) == 1:
        return (Arr([num(i) for i, b in enumerate(v.items) if b]),)
    return Unknown("np.where")


def _fnc_find(it, args, kw):
    pred, xs = args[0], args[1]
    for x in it.iterate(xs):
        if it.truth(it.call(pred, [x], {})):
            return x
    return None


def _np_empty_like(it, args, kw):
    a = args[0]
    if isinstance(a, Arr2):
        return Arr2([Arr([num(0)] * len(r.items)) for r in a.rows])
    if isinstance(a, Arr):
        return Arr([num(0)] * len(a.items))
    return Unknown("empty_like")


DEFAULT_EXT: Dict[str, Callable] = {
    "numpy.empty_like": _np_empty_like,
    "numpy.zeros_like": _np_empty_like,
    "fnc.find": _fnc_find,
    "pydash.find": lambda it, a, k: _fnc_find(it, [a[1], a[0]], k),
    "numpy.zeros": _np_zeros,
    "numpy.concatenate": _np_concatenate,
    "numpy.delete": _np_delete,
    "numpy.all": _np_all,
    "numpy.where": _np_where,
    "numpy.clip": _np_clip,
    "numpy.maximum.accumulate": _np_max_accumulate,
    "numpy.array": _np_array,
    "numpy.abs": _b_abs,
    "numpy.nan": None,  # attribute, handled below
    "decimal.Decimal": _decimal,
    "math.floor": _math_floor,
    "math.gcd": _math_gcd,
    "numpy.gcd": _math_gcd,
    "numpy.floor": _math_floor,
    "math.isnan": _isnan,
    "numpy.isnan": _isnan,
    "numpy.array_equal": _np_array_equal,
    "time.time": lambda it, a, k: Unknown("time"),
    "time.sleep": lambda it, a, k: None,
    "copy.deepcopy": lambda it, a, k: a[0],
}
del DEFAULT_EXT["numpy.nan"]


# ---------------------------------------------------------------- driver: explore all forks
def explore(make_interp: Callable[[List[bool]], Tuple[Interp, Callable[[Interp], Any]]],
            max_paths: int = 4096) -> List[Outcome]:
    """make_interp(decisions) -> (interp, thunk).  thunk(interp) runs the code under analysis on a
    freshly built abstract state.  All fork decisions are explored depth-first by re-execution."""
    outcomes: List[Outcome] = []
    stack: List[List[bool]] = [[]]
    while stack:
        dec = stack.pop()
        it, thunk = make_interp(dec)
        try:
            v = thunk(it)
            outcomes.append(Outcome("return", v, it.events, it.conds, it))
        except NeedDecision:
            stack.append(dec + [False])
            stack.append(dec + [True])
        except _Raise as r:
            outcomes.append(Outcome("raise", r.exc, it.events, it.conds, it))
        except _Return as r:
            outcomes.append(Outcome("return", r.v, it.events, it.conds, it))
        if len(outcomes) + len(stack) > max_paths:
            raise NotInFragment("path explosion in abstract interpretation")
    return outcomes
