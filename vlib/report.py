"""Reporting: rule instances, violations, known findings, evidence JSON, exit codes."""
from __future__ import annotations

import json
import os
import time
from typing import Any, Dict, List, Optional

VERIF = os.path.dirname(os.path.dirname(os.path.abspath(__file__)))
EVIDENCE_DIR = os.environ.get("VERIF_EVIDENCE_DIR") or os.path.join(VERIF, "evidence")   # (override used by the self-test only)
KNOWN_FILE = os.path.join(VERIF, "known_findings.json")


def load_known() -> Dict[str, List[dict]]:
    try:
        with open(KNOWN_FILE) as f:
            data = json.load(f)
    except FileNotFoundError:
        return {}
    out: Dict[str, List[dict]] = {}
    for e in data.get("known", []):
        out.setdefault(e["property"], []).append(e)
    return out


class Report:
    def __init__(self, pid: str, tier: str, seed: int = 0):
        self.pid = pid
        self.tier = tier
        self.seed = seed
        self.t0 = time.time()
        self.rules: Dict[str, dict] = {}          # rule -> {instances, nontrivial keys, desc}
        self.samples: List[Any] = []
        self.violations: List[dict] = []
        self.known_hits: List[dict] = []
        self.undecided: List[str] = []
        self.assumptions: List[str] = []
        self.extra: Dict[str, Any] = {}
        self.explanation: List[str] = []
        self.exhaustive = False
        self.evaluations = 0
        self._distinct = set()
        self._known = load_known().get(pid, [])
        self.analysis_errors: List[str] = []

    def guarded(self, fn, *args, **kw):
        """Run one rule group; an analysis error in it is recorded (exit 2 at the end unless a
        violation was found elsewhere) and does not mask the other rule groups."""
        from .loader import AnalysisError
        try:
            return fn(*args, **kw)
        except AnalysisError as e:
            self.analysis_errors.append(f"{getattr(fn, '__name__', 'rule')}: {e}")
        except RecursionError as e:
            self.analysis_errors.append(f"{getattr(fn, '__name__', 'rule')}: recursion limit")

    # ---- bookkeeping -------------------------------------------------------
    def rule(self, rid: str, desc: str):
        self.rules.setdefault(rid, {"desc": desc, "instances": 0, "floor": 0})
        self.explanation.append(f"{rid}: {desc}")

    def instance(self, rid: str, key: str, sample: Any = None, n: int = 1):
        """Record that rule `rid` was evaluated on a concrete instance (site / case / path)."""
        r = self.rules.setdefault(rid, {"desc": "", "instances": 0, "floor": 0})
        r["instances"] += n
        self.evaluations += n
        self._distinct.add((rid, key))
        if sample is not None and len(self.samples) < 40:
            self.samples.append({"rule": rid, "instance": key, "detail": sample})

    def floor(self, rid: str, minimum: int):
        """Fail closed (analysis error) when a rule matched fewer instances than confirmed by hand."""
        self.rules.setdefault(rid, {"desc": "", "instances": 0, "floor": 0})["floor"] = minimum

    def violation(self, rid: str, key: str, msg: str, detail: Any = None):
        """key identifies the finding by rule + construct (never by line number)."""
        full_key = f"{rid}|{key}"
        if "Unknown(" in msg:
            # a value the interpreter could not model took part in the verdict: that is an analysis gap, not a finding
            self.analysis_errors.append(f"{full_key}: undecided (value outside the interpreted fragment): {msg[:300]}")
            return
        for k in self._known:
            if k["key"] == full_key:
                if not any(h["key"] == full_key for h in self.known_hits):
                    self.known_hits.append({"key": full_key, "what": k.get("what_fails", msg)})
                return
        if any(v["key"] == full_key for v in self.violations):
            return
        self.violations.append({"rule": rid, "key": full_key, "message": msg, "detail": detail})

    def undecided_item(self, text: str):
        if text not in self.undecided:
            self.undecided.append(text)

    def assume(self, text: str):
        if text not in self.assumptions:
            self.assumptions.append(text)

    # ---- finish ------------------------------------------------------------
    def check_floors(self):
        from .loader import AnalysisError
        for rid, r in self.rules.items():
            if r["instances"] < r.get("floor", 0):
                raise AnalysisError(
                    f"rule {rid} matched {r['instances']} instances, below the confirmed floor {r['floor']} "
                    f"(anchor moved or construct no longer recognised)")

    def finish(self, repo_stats: Optional[dict] = None) -> int:
        from .loader import AnalysisError
        try:
            self.check_floors()
        except AnalysisError as e:
            self.analysis_errors.append(str(e))
        os.makedirs(EVIDENCE_DIR, exist_ok=True)
        vdir = os.path.join(EVIDENCE_DIR, "violations")
        lines = []
        for h in self.known_hits:
            lines.append(f"KNOWN-FINDING: property={self.pid} {h['what']} [{h['key']}]")
        if self.violations:
            os.makedirs(vdir, exist_ok=True)
        for i, v in enumerate(self.violations):
            path = os.path.join(vdir, f"{self.pid}-{i}.json")
            with open(path, "w") as f:
                json.dump({"property": self.pid, **v}, f, indent=1, default=str)
            lines.append(f"VIOLATION property={self.pid} replay={path}")
            lines.append(f"  rule={v['rule']} {v['message']}")
        cov = {
            "explanation": " || ".join(self.explanation) or "static analysis",
            "evaluations": self.evaluations,
            "distinct_nontrivial": len(self._distinct),
            "rule": "one evaluation = one rule instance (call site, handler path, abstract case or table entry) decided "
                    "from the parsed source; distinct = distinct (rule, construct/case) pairs; all are non-vacuous "
                    "obligations (vacuous matches are not counted)",
            "samples": self.samples[:40] or [{"note": "no instances"}],
            "rule_instances": {rid: r["instances"] for rid, r in self.rules.items()},
            "exhaustive": bool(self.exhaustive),
            "undecided": self.undecided[:200],
            "known_findings_rederived": [h["key"] for h in self.known_hits],
            "violations": [v["key"] for v in self.violations],
            "analysis_errors": self.analysis_errors,
        }
        if repo_stats:
            cov.update(repo_stats)
        cov.update(self.extra)
        ev = {
            "property_id": self.pid,
            "tier": self.tier,
            "seed": int(self.seed),
            "level": "other",
            "coverage": cov,
            "assumptions": self.assumptions,
            "wall_s": round(time.time() - self.t0, 3),
            "violations": len(self.violations),
        }
        with open(os.path.join(EVIDENCE_DIR, f"{self.pid}.json"), "w") as f:
            json.dump(ev, f, indent=1, default=str)
        for ln in lines:
            print(ln)
        for e in self.analysis_errors:
            print(f"ANALYSIS-ERROR property={self.pid}: {e}")
        if self.analysis_errors and not self.violations:
            print(f"{self.pid} [{self.tier}] ANALYSIS-ERROR: {len(self.analysis_errors)} rule group(s) could not be decided")
            return 2
        status = "FAIL" if self.violations else "OK"
        print(f"{self.pid} [{self.tier}] {status}: {self.evaluations} rule instances "
              f"({len(self._distinct)} distinct), {len(self.violations)} violations, "
              f"{len(self.known_hits)} known findings, {len(self.undecided)} undecided, "
              f"{ev['wall_s']}s")
        return 1 if self.violations else 0
