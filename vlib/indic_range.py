"""Engine E7 add-on: value ranges, orderings and price-homogeneity of indicator expression DAGs.

Three small static analyses over the expression DAG of an output element (engine E7 extracts it from /repo's source by
interpreting the indicator on symbolic candles).  All three quantify over EVERY valid candle valuation of the analysed
shape: prices > 0, volume >= 0, low <= open, close <= high per candle.

  Prover.interval(d)   interval abstract interpretation: a closed interval [lo, hi] (bounds may be infinite) that contains
                       the value of d wherever it is a number.  Sums / differences are evaluated on their flattened
                       LINEAR FORM (sum of coefficient x non-linear atom), so shared terms cancel exactly; a quotient
                       whose numerator is bounded by its denominator is in [0, 1] / [-1, 1]; a guarded value
                       (x if x > 0 else 0) is evaluated under its guard.
  Prover.le(a, b)      order prover: a <= b from structural facts only - equal expressions, the candle axioms, x <= max(.., x, ..),
                       min(.., x, ..) <= x, all-arguments rules for max / min on the other side, both branches of a choice,
                       intervals that do not overlap, and non-negativity of the linear form b - a after pairing every
                       negative atom with a dominating positive atom.
  dimension(d)         dimensional analysis: the degree of d in (price, volume), or None when d is not a homogeneous
                       function (a price added to a pure number, a price compared with a constant, a logarithm of a
                       price ...).  An average of degree (1, 0) scales linearly with the price.

None of them ever evaluates anything on numbers; `refute_*` helpers in props/c15.py use witness valuations only to turn an
obligation that is NOT provable into a concrete counterexample (or leave it undecided).
"""
from __future__ import annotations

import math
import time
from fractions import Fraction
from typing import Dict, Optional, Tuple

from .indic_vals import D

INF = math.inf
TOL = 1e-11


class Budget(Exception):
    """the proof search ran out of its work budget: the obligation stays undecided"""

OPEN, CLOSE, HIGH, LOW, VOL = 1, 2, 3, 4, 5
_LINEAR = ("add", "sub", "neg", "mul", "div", "dep", "nan_to_num")


def _isnum(x):
    return isinstance(x, (int, float)) and not isinstance(x, bool) and x == x


def _mulb(a, b):
    """product of two interval bounds with 0 * inf = 0"""
    if a == 0 or b == 0:
        return 0.0
    return a * b


class Prover:
    def __init__(self, assume: Dict[int, bool] = None):
        self.assume = dict(assume or {})          # condition hash -> truth value: choices on that condition are resolved
        self.iv: Dict[int, Tuple[float, float]] = {}
        self.lin: Dict[int, Tuple[Dict[int, float], float]] = {}
        self.node: Dict[int, D] = {}
        self.le_memo: Dict[Tuple[int, int], bool] = {}
        self.budget = 400000
        self.work = 3_000_000
        self.deadline = time.time() + 20.0

    def _resolve(self, d):
        while isinstance(d, D) and d.op in ("phi", "phi1") and len(d.args) == 3 and isinstance(d.args[0], D) and d.args[0].h in self.assume:
            d = d.args[1] if self.assume[d.args[0].h] else d.args[2]
        return d

    def _args(self, d):
        return tuple(self._resolve(a) for a in d.args) if self.assume else d.args

    # ---------------------------------------------------------------- linear forms
    def linear(self, d):
        d = self._resolve(d)
        """(coefficients by atom hash, constant) of d over its non-linear atoms"""
        if not isinstance(d, D):
            return ({}, float(d)) if _isnum(d) else None
        if d.h in self.lin:
            return self.lin[d.h]
        self.work -= 1
        if self.work <= 0 or (self.work % 2000 == 0 and time.time() > self.deadline):
            raise Budget()
        r = self._linear(d)
        self.lin[d.h] = r
        return r

    def _atom(self, d):
        self.node[d.h] = d
        return ({d.h: 1.0}, 0.0)

    def _linear(self, d):
        op = d.op
        if op not in _LINEAR:
            return self._atom(d)
        if op in ("dep", "nan_to_num"):
            return self.linear(d.args[0]) if d.args else self._atom(d)
        if op == "neg":
            f = self.linear(d.args[0])
            return None if f is None else ({k: -v for k, v in f[0].items()}, -f[1])
        if op in ("add", "sub"):
            fa, fb = self.linear(d.args[0]), self.linear(d.args[1])
            if fa is None or fb is None:
                return self._atom(d)
            if len(fa[0]) + len(fb[0]) > 600:
                return self._atom(d)
            s = 1.0 if op == "add" else -1.0
            out = dict(fa[0])
            for k, v in fb[0].items():
                out[k] = out.get(k, 0.0) + s * v
            return (out, fa[1] + s * fb[1])
        if op == "mul":
            a, b = d.args
            for x, y in ((a, b), (b, a)):
                if _isnum(x) and abs(x) != INF:
                    f = self.linear(y)
                    if f is None:
                        break
                    return ({k: v * x for k, v in f[0].items()}, f[1] * x)
            return self._atom(d)
        if op == "div":
            a, b = d.args
            if _isnum(b) and b != 0 and abs(b) != INF:
                f = self.linear(a)
                if f is not None:
                    return ({k: v / b for k, v in f[0].items()}, f[1] / b)
            return self._atom(d)
        return self._atom(d)

    def _clean(self, form):
        co, c0 = form
        scale = max([abs(v) for v in co.values()] + [1e-300])
        return ({k: v for k, v in co.items() if abs(v) > TOL * scale}, c0)

    # ---------------------------------------------------------------- intervals
    def interval(self, d) -> Tuple[float, float]:
        d = self._resolve(d)
        if not isinstance(d, D):
            if isinstance(d, bool):
                return (0.0, 1.0)
            if _isnum(d):
                return (float(d), float(d))
            if isinstance(d, float) and d != d:
                return (INF, -INF)          # the constant NaN: "not a number here" - the empty interval (ignored by the hull of a choice)
            return (-INF, INF)
        # iterative post-order (DAGs are deep)
        stack = [d]
        while stack:
            x = stack[-1]
            if x.h in self.iv:
                stack.pop()
                continue
            pend = [a for a in self._children(x) if isinstance(a, D) and a.h not in self.iv]
            if pend:
                stack.extend(pend)
                continue
            self.iv[x.h] = self._interval(x)
            stack.pop()
        return self.iv[d.h]

    def _children(self, x):
        if x.op == "in":
            return ()
        if x.op in _LINEAR:
            f = self.linear(x)
            if f is not None and not (len(f[0]) == 1 and x.h in f[0]):
                return [self.node[k] for k in f[0]]
        return self._args(x)

    def _iv(self, a):
        a = self._resolve(a)
        if isinstance(a, D):
            return self.iv.get(a.h) or self.interval(a)
        return self.interval(a)

    def _interval(self, d) -> Tuple[float, float]:
        self.work -= 1
        if self.work <= 0:
            raise Budget()
        op = d.op
        if op == "in":
            col = d.args[2] if len(d.args) > 2 else None
            if col in (OPEN, CLOSE, HIGH, LOW):
                return (0.0, INF)
            if col == VOL:
                return (0.0, INF)
            return (-INF, INF)
        if op in _LINEAR:
            f = self.linear(d)
            if f is not None and not (len(f[0]) == 1 and d.h in f[0]):
                return self._form_interval(self._clean(f))
        args = self._args(d)
        A = [self._iv(a) for a in args]
        if op == "mul":
            (la, ha), (lb, hb) = A
            if isinstance(args[0], D) and isinstance(args[1], D) and args[0].h == args[1].h:
                m = max(abs(la), abs(ha))
                lo = 0.0 if la <= 0 <= ha else min(abs(la), abs(ha)) ** 2
                return (lo, _mulb(m, m))
            c = [_mulb(la, lb), _mulb(la, hb), _mulb(ha, lb), _mulb(ha, hb)]
            return (min(c), max(c))
        if op == "div":
            return self._div_interval(d, A)
        if op in ("max", "fmax"):
            return (max(a[0] for a in A), max(a[1] for a in A))
        if op in ("min", "fmin"):
            return (min(a[0] for a in A), min(a[1] for a in A))
        if op in ("abs", "fabs"):
            lo, hi = A[0]
            return (0.0 if lo <= 0 <= hi else min(abs(lo), abs(hi)), max(abs(lo), abs(hi)))
        if op == "sqrt":
            lo, hi = A[0]
            return (math.sqrt(max(lo, 0.0)), math.sqrt(hi) if hi > 0 else 0.0)
        if op == "pow":
            (lo, hi), ex = A[0], d.args[1]
            if _isnum(ex):
                if ex == 0.5:
                    return (math.sqrt(max(lo, 0.0)), math.sqrt(hi) if hi > 0 else 0.0)
                if ex == int(ex) and int(ex) % 2 == 0 and ex > 0:
                    m = max(abs(lo), abs(hi))
                    return (0.0 if lo <= 0 <= hi else min(abs(lo), abs(hi)) ** ex, m ** ex if m != INF else INF)
                if lo >= 0 and ex > 0:
                    return (lo ** ex, hi ** ex if hi != INF else INF)
                if lo >= 0:
                    return (0.0, INF)
            return (-INF, INF)
        if op in ("std", "nanstd", "var"):
            return (0.0, INF)
        if op in ("argmax", "argmin"):
            return (0.0, float(max(len(d.args) - 1, 0)))
        if op in ("lt", "le", "gt", "ge", "eq", "ne", "and", "or", "not", "invert", "isnan", "isinf", "isfinite", "bitand", "bitor", "bitxor"):
            return (0.0, 1.0)
        if op in ("nan_to_num", "round", "roundn", "float", "copy"):
            return A[0] if A else (-INF, INF)
        if op == "exp":
            lo, hi = A[0]
            return (0.0 if lo == -INF else math.exp(min(lo, 700)), INF if hi > 700 else math.exp(hi))
        if op in ("sin", "cos"):
            return (-1.0, 1.0)
        if op == "tanh":
            return (-1.0, 1.0)
        if op in ("arctan", "atan"):
            return (-math.pi / 2, math.pi / 2)
        if op in ("median", "mean", "nanmean"):
            return (min(a[0] for a in A), max(a[1] for a in A)) if A else (-INF, INF)
        if op in ("phi", "phi1"):
            return self._phi_interval(d, A)
        if op == "phi_none":
            return A[1] if len(A) > 1 else (-INF, INF)
        return (-INF, INF)

    def _form_interval(self, form):
        co, c0 = form
        lo = hi = c0
        for k, c in co.items():
            l, h = self._iv(self.node[k])
            if c > 0:
                lo += _mulb(c, l)
                hi += _mulb(c, h)
            else:
                lo += _mulb(c, h)
                hi += _mulb(c, l)
        if lo != lo:
            lo = -INF
        if hi != hi:
            hi = INF
        if lo < 0 and self._form_nonneg(co, c0):
            lo = 0.0
        if hi > 0 and self._form_nonneg({k: -v for k, v in co.items()}, -c0):
            hi = 0.0
        return (lo, hi)

    def _div_interval(self, d, A):
        (la, ha), (lb, hb) = A
        a, b = self._args(d)
        if lb < 0 < hb or (lb == 0 == hb):
            if lb < 0:
                return (-INF, INF)
        if hb <= 0 and lb < 0:            # negative denominator: flip
            la, ha, lb, hb = -ha, -la, -hb, -lb
        # now the denominator is >= 0 (the value is looked at only where it is a number)
        if hb <= 0 or hb != hb or lb != lb or lb > hb:
            return (-INF, INF)          # a denominator that is identically zero / empty: nothing to say
        inv_lo = 0.0 if hb == INF else 1.0 / hb
        inv_hi = INF if lb <= 0 else 1.0 / lb
        c = [_mulb(la, inv_lo), _mulb(la, inv_hi), _mulb(ha, inv_lo), _mulb(ha, inv_hi)]
        lo, hi = min(c), max(c)
        if isinstance(a, D) and isinstance(b, D) and lb >= 0 and (hi > 0 or lo < 0):
            # relational: m * b <= a <= M * b for constants m, M read off the two linear forms
            fa, fb = self.linear(a), self.linear(b)
            if fa is not None and fb is not None:
                ca, cb = self._clean(fa), self._clean(fb)
                cands = {1.0}
                for k, v in cb[0].items():
                    if k in ca[0] and v != 0:
                        cands.add(abs(ca[0][k] / v))
                if len(cands) == 1 and ca[0] and cb[0]:
                    # numerator and denominator share no atom (smoothed +DM over smoothed TR): the most frequent ratios of their weights
                    from collections import Counter
                    cnt = Counter(round(abs(x / y), 9) for x in ca[0].values() for y in cb[0].values() if y != 0)
                    cands.update(r for r, _ in cnt.most_common(3))
                cands = sorted(c for c in cands if c == c and c != INF)

                def scaled_minus(K, sign):          # K*b - sign*a
                    co = {k: K * v for k, v in cb[0].items()}
                    for k, v in ca[0].items():
                        co[k] = co.get(k, 0.0) - sign * v
                    return self._clean((co, K * cb[1] - sign * ca[1]))
                if lo < 0 and la >= 0:
                    lo = 0.0
                if hi > 0 and ha <= 0:
                    hi = 0.0
                for K in cands:
                    if K < hi and self._form_nonneg(*scaled_minus(K, 1.0)):
                        hi = K
                        break
                for K in cands:
                    if -K > lo and self._form_nonneg(*scaled_minus(K, -1.0)):
                        lo = -K
                        break
        return (lo, hi)

    def _neg_le(self, a, b):
        """-b <= a, i.e. 0 <= a + b"""
        fa, fb = self.linear(a), self.linear(b)
        if fa is None or fb is None:
            return False
        co = dict(fa[0])
        for k, v in fb[0].items():
            co[k] = co.get(k, 0.0) + v
        co, c0 = self._clean((co, fa[1] + fb[1]))
        return self._form_nonneg(co, c0)

    def _mentions(self, d, h, memo):
        """does the sub-DAG of d contain a choice on the condition h?"""
        st = [d]
        while st:
            x = st.pop()
            if not isinstance(x, D) or x.op == "in" or x.h in memo:
                continue
            memo.add(x.h)
            if x.op in ("phi", "phi1") and x.args and isinstance(x.args[0], D) and x.args[0].h == h:
                return True
            st.extend(x.args)
        return False

    def _phi_interval(self, d, A):
        cond = d.args[0]
        br = self._args(d)[1:]
        bi = list(A[1:])
        if len(br) == 2 and isinstance(cond, D) and cond.h not in self.assume and len(self.assume) < 3:
            # the same test guards a choice further inside (np.where(den == 0, 0, num / np.where(den == 0, 1, den))): evaluate each
            # branch in the context of its own outcome
            for idx, truth in ((0, True), (1, False)):
                if isinstance(br[idx], D) and self._mentions(br[idx], cond.h, set()):
                    sub = Prover({**self.assume, cond.h: truth})
                    sub.budget = self.budget // 4
                    bi[idx] = sub.interval(br[idx])
        if len(br) == 2 and isinstance(cond, D):
            # a constant condition is folded by the interpreter; refine each branch under what the test says
            for idx, truth in ((0, True), (1, False)):
                r = self._refine(cond, truth, br[idx])
                if r is not None:
                    bi[idx] = (max(bi[idx][0], r[0]), min(bi[idx][1], r[1]))
        return (min(b[0] for b in bi), max(b[1] for b in bi)) if bi else (-INF, INF)

    def _refine(self, cond, truth, branch):
        """interval of `branch` given that `cond` is `truth` - for a comparison of x with a constant, or of x with y, when the branch is a
        linear function of x (or of x - y)"""
        if cond.op in ("and", "bitand") and truth:
            out = None
            for c in cond.args:
                if isinstance(c, D):
                    r = self._refine(c, True, branch)
                    if r is not None:
                        out = r if out is None else (max(out[0], r[0]), min(out[1], r[1]))
            return out
        if cond.op in ("or", "bitor") and not truth:
            out = None
            for c in cond.args:
                if isinstance(c, D):
                    r = self._refine(c, False, branch)
                    if r is not None:
                        out = r if out is None else (max(out[0], r[0]), min(out[1], r[1]))
            return out
        if cond.op not in ("gt", "ge", "lt", "le") or len(cond.args) != 2:
            return None
        a, b = cond.args
        op = cond.op
        if not truth:
            op = {"gt": "le", "ge": "lt", "lt": "ge", "le": "gt"}[op]
        # cond: a op b  <=>  (a - b) op 0
        fa, fb = self.linear(a), self.linear(b)
        fx = self.linear(branch)
        if fa is None or fb is None or fx is None:
            return None
        diff = dict(fa[0])
        for k, v in fb[0].items():
            diff[k] = diff.get(k, 0.0) - v
        diff, d0 = self._clean((diff, fa[1] - fb[1]))
        bx, b0 = self._clean(fx)
        if not bx or not diff:
            return None
        # branch = s * diff + rest (rest: what is left of the branch's linear form): find s
        if not set(diff) <= set(bx):
            return None
        k0 = next(iter(diff))
        s = bx[k0] / diff[k0]
        if s == 0 or any(abs(bx[k] - s * diff[k]) > 1e-9 * max(abs(bx[k]), 1e-300) for k in diff):
            return None
        rest = {k: v for k, v in bx.items() if k not in diff}
        rlo, rhi = self._form_interval((rest, b0 - s * d0))
        # diff (op) 0  ->  s*diff + rest bounds
        pos = op in ("gt", "ge")
        if (s > 0) == pos:
            return (rlo, INF)
        return (-INF, rhi)

    # ---------------------------------------------------------------- order prover
    def _form_nonneg(self, co, c0) -> bool:
        self.work -= len(co) + 1
        if self.work <= 0 or time.time() > self.deadline:
            raise Budget()
        return self._form_nonneg2(co, c0)

    def _form_nonneg2(self, co, c0) -> bool:
        """sum(co[k] * atom_k) + c0 >= 0 for every valid valuation: every negative atom is paired with a dominating positive
        atom of at least the same weight, what remains has the right sign"""
        co = {k: v for k, v in co.items() if v != 0.0}
        if not co:
            return c0 >= -TOL
        # a negative |x| atom: -w|x| = min(-w x, w x), so the form is >= 0 iff it is with |x| replaced by x and by -x
        for k, v in co.items():
            nd = self.node[k]
            if v < 0 and nd.op in ("abs", "fabs") and isinstance(nd.args[0], D) and getattr(self, "_abs_depth", 0) < 3:
                fx = self.linear(nd.args[0])
                if fx is None or (len(fx[0]) == 1 and nd.args[0].h in fx[0] and nd.args[0].op in ("abs", "fabs")):
                    continue
                self._abs_depth = getattr(self, "_abs_depth", 0) + 1
                try:
                    ok = True
                    for sgn in (1.0, -1.0):
                        c2 = {kk: vv for kk, vv in co.items() if kk != k}
                        for kk, vv in fx[0].items():
                            c2[kk] = c2.get(kk, 0.0) + sgn * v * vv
                        c2, k0 = self._clean((c2, c0 + sgn * v * fx[1]))
                        if not self._form_nonneg(c2, k0):
                            ok = False
                            break
                finally:
                    self._abs_depth -= 1
                if ok:
                    return True
                break
        pos = {k: v for k, v in co.items() if v > 0}
        neg = {k: -v for k, v in co.items() if v < 0}
        const = c0
        ws = list(pos.values()) + list(neg.values())
        if neg and pos and max(ws) - min(ws) <= 1e-9 * max(ws) and len(neg) <= len(pos) and len(neg) <= 200:
            # equal weights: a perfect matching of the negative atoms into dominating positive atoms (augmenting paths) - the greedy
            # pairing below fails when one positive atom dominates two negative ones (max(h[i], c[i-1]) dominates c[i] and c[i-1])
            adj = {q: [p_ for p_ in pos if self.le(self.node[q], self.node[p_])] for q in neg if self._iv(self.node[q])[1] > 0}
            match = {}

            def aug(q, seen):
                for p_ in adj[q]:
                    if p_ in seen:
                        continue
                    seen.add(p_)
                    if p_ not in match or aug(match[p_], seen):
                        match[p_] = q
                        return True
                return False
            if all(aug(q, set()) for q in adj):
                rest = [p_ for p_ in pos if p_ not in match]
                if all(self._iv(self.node[p_])[0] >= 0 for p_ in rest) and const >= -TOL * max(1.0, abs(c0)):
                    return True
        for q in list(neg):
            need = neg[q]
            lq, hq = self._iv(self.node[q])
            if hq <= 0:
                neg.pop(q)
                continue           # -c * (non-positive) >= 0
            for p in list(pos):
                if need <= TOL:
                    break
                if pos[p] <= 0:
                    continue
                if self.le(self.node[q], self.node[p]):
                    t = min(need, pos[p])
                    pos[p] -= t
                    need -= t
            if need > TOL * max(1.0, neg[q]):
                # bounded above by a constant?  -need * q >= -need * hq
                if hq != INF:
                    const -= need * hq
                else:
                    return False
            neg.pop(q)
        for p, w in pos.items():
            if w <= 0:
                continue
            lp, _ = self._iv(self.node[p])
            if lp < 0:
                if lp == -INF:
                    return False
                const += w * lp
        return const >= -TOL * max(1.0, abs(c0))

    def le(self, a, b, depth: int = 6) -> bool:
        """a <= b on every valid valuation (where both are numbers)"""
        a, b = self._resolve(a), self._resolve(b)
        if not isinstance(a, D) and not isinstance(b, D):
            return _isnum(a) and _isnum(b) and a <= b
        ka = a.h if isinstance(a, D) else ("n", a)
        kb = b.h if isinstance(b, D) else ("n", b)
        if ka == kb:
            return True
        key = (ka, kb)
        if key in self.le_memo:
            return self.le_memo[key]
        self.budget -= 1
        if depth <= 0 or self.budget <= 0:
            return False
        self.le_memo[key] = False          # cycle guard
        r = self._le(a, b, depth)
        self.le_memo[key] = r
        return r

    def _flat(self, d, ops):
        out, st = [], [d]
        while st:
            x = st.pop()
            x = self._resolve(x)
            if isinstance(x, D) and x.op in ops:
                st.extend(x.args)
            else:
                out.append(x)
        return out

    def _le(self, a, b, depth) -> bool:
        ia, ib = self._iv(a), self._iv(b)
        if ia[1] <= ib[0]:
            return True
        if isinstance(a, D) and isinstance(b, D) and a.op == "in" and b.op == "in":
            if a.args[:2] == b.args[:2]:
                ca, cb = a.args[2], b.args[2]
                if ca == LOW and cb in (OPEN, CLOSE, HIGH):
                    return True
                if cb == HIGH and ca in (OPEN, CLOSE, LOW):
                    return True
            return False
        # structural rules
        if isinstance(b, D) and b.op in ("max", "fmax"):
            if any(self.le(a, x, depth - 1) for x in self._flat(b, ("max", "fmax"))):
                return True
        if isinstance(a, D) and a.op in ("min", "fmin"):
            if any(self.le(x, b, depth - 1) for x in self._flat(a, ("min", "fmin"))):
                return True
        if isinstance(a, D) and a.op in ("max", "fmax"):
            if all(self.le(x, b, depth - 1) for x in self._flat(a, ("max", "fmax"))):
                return True
        if isinstance(b, D) and b.op in ("min", "fmin"):
            if all(self.le(a, x, depth - 1) for x in self._flat(b, ("min", "fmin"))):
                return True
        if isinstance(b, D) and b.op in ("abs", "fabs"):
            x = b.args[0]
            if self.le(a, x, depth - 1):
                return True
            fa_, fx_ = self.linear(a), self.linear(x)
            if fa_ is not None and fx_ is not None:
                # a <= -x  (|x| >= -x)
                co = {k: -v for k, v in fx_[0].items()}
                for k, v in fa_[0].items():
                    co[k] = co.get(k, 0.0) - v
                co, c0 = self._clean((co, -fx_[1] - fa_[1]))
                if self._form_nonneg(co, c0):
                    return True
            if isinstance(x, D) and x.op == "sub" and isinstance(a, D) and a.op == "sub":
                # a = p - q, |r - s| with (p, q) = (s, r)
                if all(isinstance(t, D) for t in (a.args + x.args)) and a.args[0].h == x.args[1].h and a.args[1].h == x.args[0].h:
                    return True
        if isinstance(a, D) and a.op in ("abs", "fabs") and isinstance(a.args[0], D):
            # |x| <= b  <=>  x <= b and -x <= b
            x = a.args[0]
            fx_, fb_ = self.linear(x), self.linear(b)
            if fx_ is not None and fb_ is not None and self.le(x, b, depth - 1):
                co = dict(fb_[0])
                for k, v in fx_[0].items():
                    co[k] = co.get(k, 0.0) + v
                co, c0 = self._clean((co, fb_[1] + fx_[1]))
                if self._form_nonneg(co, c0):
                    return True
        if isinstance(a, D) and a.op in ("phi", "phi1") and len(a.args) == 3:
            if all(self.le(x, b, depth - 1) for x in a.args[1:]):
                return True
        if isinstance(b, D) and b.op in ("phi", "phi1") and len(b.args) == 3:
            if all(self.le(a, x, depth - 1) for x in b.args[1:]):
                return True
        # linear difference b - a >= 0
        fa, fb = self.linear(a), self.linear(b)
        if fa is None or fb is None:
            return False
        trivial_a = isinstance(a, D) and len(fa[0]) == 1 and a.h in fa[0]
        trivial_b = isinstance(b, D) and len(fb[0]) == 1 and b.h in fb[0]
        if trivial_a and trivial_b:
            return False           # both are atoms: nothing the linear view adds (and it would recurse into this very question)
        co = dict(fb[0])
        for k, v in fa[0].items():
            co[k] = co.get(k, 0.0) - v
        co, c0 = self._clean((co, fb[1] - fa[1]))
        return self._form_nonneg(co, c0)


# -------------------------------------------------------------------- dimensional analysis
ZERO = "zero"           # the literal 0 / NaN filler: compatible with every dimension
Dim = Optional[Tuple[Fraction, Fraction]]
PURE = (Fraction(0), Fraction(0))


def _join(dims):
    out = ZERO
    for x in dims:
        if x is None:
            return None
        if x == ZERO:
            continue
        if out == ZERO:
            out = x
        elif out != x:
            return None
    return out


def dimension(root, memo: Dict[int, object] = None):
    """degree of the expression in (price, volume); ZERO for the literal zero; None when it is not homogeneous"""
    memo = {} if memo is None else memo

    def num(x):
        if isinstance(x, bool):
            return PURE
        if isinstance(x, (int, float)):
            if x != x or x == 0:
                return ZERO
            return PURE
        return None
    if not isinstance(root, D):
        return num(root)
    stack = [root]
    while stack:
        d = stack[-1]
        if d.h in memo:
            stack.pop()
            continue
        pend = [a for a in d.args if isinstance(a, D) and a.h not in memo] if d.op != "in" else []
        if pend:
            stack.extend(pend)
            continue
        A = [memo[a.h] if isinstance(a, D) else num(a) for a in d.args] if d.op != "in" else []
        memo[d.h] = _dim_node(d, A)
        stack.pop()
    return memo[root.h]


def _dim_node(d, A):
    op = d.op
    if op == "in":
        col = d.args[2] if len(d.args) > 2 else None
        if col in (OPEN, CLOSE, HIGH, LOW):
            return (Fraction(1), Fraction(0))
        if col == VOL:
            return (Fraction(0), Fraction(1))
        return None
    if any(a is None for a in A):
        return None
    if op in ("add", "sub", "max", "min", "fmax", "fmin", "median", "mean", "nanmean"):
        return _join(A)
    if op in ("neg", "abs", "fabs", "dep", "std", "nanstd", "round", "roundn", "nan_to_num", "float", "copy"):
        return A[0] if A else None
    if op == "var":
        j = _join(A)
        return j if j in (None, ZERO) else (j[0] * 2, j[1] * 2)
    if op == "mul":
        if ZERO in A:
            return ZERO
        return (A[0][0] + A[1][0], A[0][1] + A[1][1])
    if op == "div":
        if A[0] == ZERO:
            return ZERO
        if A[1] == ZERO:
            return None
        return (A[0][0] - A[1][0], A[0][1] - A[1][1])
    if op == "sqrt":
        return A[0] if A[0] == ZERO else (A[0][0] / 2, A[0][1] / 2)
    if op == "pow":
        ex = d.args[1]
        if isinstance(ex, (int, float)) and not isinstance(ex, bool) and ex == ex:
            if A[0] == ZERO:
                return ZERO
            try:
                q = Fraction(ex).limit_denominator(64)
            except (ValueError, OverflowError):
                return None
            return (A[0][0] * q, A[0][1] * q)
        return PURE if (A[0] == PURE and A[1] == PURE) else None
    if op in ("lt", "le", "gt", "ge", "eq", "ne"):
        j = _join(A)
        return None if j is None else PURE          # a comparison of like quantities (or with zero) is scale invariant
    if op in ("and", "or", "not", "invert", "bitand", "bitor", "isnan", "isinf", "isfinite"):
        return PURE
    if op in ("argmax", "argmin"):
        return None if _join(A) is None else PURE
    if op in ("phi", "phi1"):
        if A[0] is None:
            return None
        return _join(A[1:])
    if op == "phi_none":
        return A[1] if len(A) > 1 else None
    if op in ("log", "log10", "log2", "log1p", "exp", "sin", "cos", "tan", "arctan", "atan", "tanh", "sign", "floor", "ceil"):
        return PURE if A[0] in (PURE, ZERO) else None
    if op == "atan2":
        return None if _join(A) is None else PURE
    return None


def explain(P: "Prover", d, depth=3, ind=0, out=None):
    """debugging aid: the tree of d with the interval of every node"""
    out = [] if out is None else out
    if not isinstance(d, D):
        out.append(" " * ind + repr(d))
        return out
    out.append(" " * ind + (f"in{d.args}" if d.op == "in" else d.op) + f"  {P.interval(d)}")
    if depth > 0 and d.op != "in":
        for a in d.args:
            explain(P, a, depth - 1, ind + 2, out)
    return out
