"""Engine E1: parse /repo's working tree with `ast`, index modules / classes /
functions, resolve imports and aliases.  Nothing under /repo is imported or executed.
"""
from __future__ import annotations

import ast
import os
import hashlib
from typing import Dict, List, Optional, Tuple

REPO = os.environ.get("VERIF_REPO", "/repo")

EXCLUDE_PREFIXES = (
    "jesse/static/",
    "jesse/modes/import_candles_mode/drivers/Apex/omni_files/",
)


class AnalysisError(Exception):
    """The analysis cannot be carried out (vanished anchor, construct outside the
    analysable fragment, instance count below floor).  Exit code 2, never a violation."""


class Module:
    def __init__(self, rel: str, src: str, tree: ast.Module):
        self.rel = rel
        self.src = src
        self.tree = tree
        self.name = rel[:-3].replace("/", ".")
        if self.name.endswith(".__init__"):
            self.name = self.name[: -len(".__init__")]
        self.is_pkg = rel.endswith("__init__.py")
        self.defs: Dict[str, ast.AST] = {}      # top-level name -> FunctionDef / ClassDef / Assign value
        self.imports: Dict[str, Tuple[str, Optional[str]]] = {}  # local name -> (module dotted, attr or None)
        self._index()

    def _index(self):
        for node in self.tree.body:
            self._index_stmt(node)

    def _index_stmt(self, node):
        if isinstance(node, (ast.FunctionDef, ast.AsyncFunctionDef, ast.ClassDef)):
            self.defs[node.name] = node
        elif isinstance(node, ast.Assign):
            for t in node.targets:
                if isinstance(t, ast.Name):
                    self.defs[t.id] = node.value
        elif isinstance(node, ast.AnnAssign) and isinstance(node.target, ast.Name) and node.value is not None:
            self.defs[node.target.id] = node.value
        elif isinstance(node, (ast.Import, ast.ImportFrom)):
            for k, v in import_bindings(node, self.name, self.is_pkg).items():
                self.imports[k] = v
        elif isinstance(node, (ast.If, ast.Try)):
            for sub in ast.iter_child_nodes(node):
                if isinstance(sub, ast.stmt):
                    self._index_stmt(sub)


def import_bindings(node, modname: str, is_pkg: bool) -> Dict[str, Tuple[str, Optional[str]]]:
    out = {}
    if isinstance(node, ast.Import):
        for a in node.names:
            if a.asname:
                out[a.asname] = (a.name, None)
            else:
                out[a.name.split(".")[0]] = (a.name.split(".")[0], None)
    elif isinstance(node, ast.ImportFrom):
        base = node.module or ""
        if node.level:
            parts = modname.split(".")
            if not is_pkg:
                parts = parts[:-1]
            if node.level > 1:
                parts = parts[: len(parts) - (node.level - 1)]
            base = ".".join(parts + ([node.module] if node.module else []))
        for a in node.names:
            out[a.asname or a.name] = (base, a.name)
    return out


class Repo:
    def __init__(self, root: str = None):
        self.root = root or REPO
        self._mods: Dict[str, Optional[Module]] = {}     # rel path -> Module (parsed lazily)
        self.paths: Dict[str, str] = {}          # rel path -> dotted name
        self.name_to_rel: Dict[str, str] = {}
        self.parse_errors: List[str] = []
        self._scan()

    def _scan(self):
        base = os.path.join(self.root, "jesse")
        if not os.path.isdir(base):
            raise AnalysisError(f"repository not found at {self.root}")
        for dp, dns, fns in os.walk(base):
            dns.sort()
            for fn in sorted(fns):
                if not fn.endswith(".py"):
                    continue
                full = os.path.join(dp, fn)
                rel = os.path.relpath(full, self.root)
                if rel.startswith(EXCLUDE_PREFIXES):
                    continue
                # fixture strategies: keep only Strategy.py and the package init
                if rel.startswith("jesse/strategies/") and rel.count("/") > 2:
                    continue
                name = rel[:-3].replace("/", ".")
                if name.endswith(".__init__"):
                    name = name[: -len(".__init__")]
                self.paths[rel] = name
                self.name_to_rel[name] = rel

    def _get(self, rel: str) -> Optional[Module]:
        if rel in self._mods:
            return self._mods[rel]
        if rel not in self.paths:
            return None
        try:
            with open(os.path.join(self.root, rel), "r", encoding="utf-8") as f:
                src = f.read()
            import warnings
            with warnings.catch_warnings():
                warnings.simplefilter("ignore")
                tree = ast.parse(src, filename=rel)
            m = Module(rel, src, tree)
        except (SyntaxError, UnicodeDecodeError, OSError) as e:
            self.parse_errors.append(f"{rel}: {e}")
            m = None
        self._mods[rel] = m
        return m

    @property
    def modules(self) -> Dict[str, Module]:
        """All modules (forces a full parse)."""
        return {rel: m for rel in self.paths if (m := self._get(rel)) is not None}

    @property
    def by_name(self) -> Dict[str, Module]:
        return {m.name: m for m in self.modules.values()}

    # -- lookups ---------------------------------------------------------------
    def module(self, rel: str) -> Module:
        m = self._get(rel)
        if m is None:
            raise AnalysisError(f"anchor vanished: module {rel} not found/parsable")
        return m

    def func(self, rel: str, qual: str) -> ast.FunctionDef:
        """qual: 'fname' or 'Class.method'."""
        m = self.module(rel)
        parts = qual.split(".")
        node = m.defs.get(parts[0])
        if node is None:
            raise AnalysisError(f"anchor vanished: {rel}:{qual}")
        for p in parts[1:]:
            if not isinstance(node, ast.ClassDef):
                raise AnalysisError(f"anchor vanished: {rel}:{qual}")
            nxt = None
            for b in node.body:
                if isinstance(b, (ast.FunctionDef, ast.ClassDef)) and b.name == p:
                    nxt = b
            if nxt is None:
                raise AnalysisError(f"anchor vanished: {rel}:{qual}")
            node = nxt
        if not isinstance(node, ast.FunctionDef):
            raise AnalysisError(f"anchor is not a function: {rel}:{qual}")
        return node

    def cls(self, rel: str, name: str) -> ast.ClassDef:
        m = self.module(rel)
        node = m.defs.get(name)
        if not isinstance(node, ast.ClassDef):
            raise AnalysisError(f"anchor vanished: class {rel}:{name}")
        return node

    def has_func(self, rel: str, qual: str) -> bool:
        try:
            self.func(rel, qual)
            return True
        except AnalysisError:
            return False

    def resolve_module(self, dotted: str) -> Optional[Module]:
        rel = self.name_to_rel.get(dotted)
        return self._get(rel) if rel else None

    def resolve_import(self, mod: Module, name: str, _depth=0):
        """Resolve a name bound by an import in `mod`.
        Returns ('module', Module) | ('def', Module, node, defname) | None."""
        if name not in mod.imports or _depth > 6:
            return None
        dotted, attr = mod.imports[name]
        if attr is None:
            m = self.resolve_module(dotted)
            return ("module", m) if m else None
        # from X import attr : attr may be a submodule or a definition in X
        sub = self.resolve_module(f"{dotted}.{attr}")
        target = self.resolve_module(dotted)
        if target is not None:
            if attr in target.defs:
                return ("def", target, target.defs[attr], attr)
            if attr in target.imports:
                r = self.resolve_import(target, attr, _depth + 1)
                if r is not None:
                    return r
        if sub is not None:
            return ("module", sub)
        return None

    def lookup(self, mod: Module, name: str):
        """Resolve a global name used inside `mod`."""
        if name in mod.defs:
            return ("def", mod, mod.defs[name], name)
        return self.resolve_import(mod, name)

    def class_methods(self, cls: ast.ClassDef) -> Dict[str, ast.FunctionDef]:
        return {b.name: b for b in cls.body if isinstance(b, ast.FunctionDef)}

    def find_class(self, name: str) -> Optional[Tuple[Module, ast.ClassDef]]:
        hits = []
        for m in self.modules.values():
            n = m.defs.get(name)
            if isinstance(n, ast.ClassDef):
                hits.append((m, n))
        return hits[0] if len(hits) >= 1 else None

    def mro(self, mod: Module, cls: ast.ClassDef, _depth=0) -> List[Tuple[Module, ast.ClassDef]]:
        out = [(mod, cls)]
        if _depth > 5:
            return out
        for b in cls.bases:
            if isinstance(b, ast.Name):
                r = self.lookup(mod, b.id)
                if r and r[0] == "def" and isinstance(r[2], ast.ClassDef):
                    out += self.mro(r[1], r[2], _depth + 1)
        return out

    def find_method(self, mod: Module, cls: ast.ClassDef, name: str):
        for m, c in self.mro(mod, cls):
            for b in c.body:
                if isinstance(b, ast.FunctionDef) and b.name == name:
                    return m, c, b
        return None

    def stats(self) -> dict:
        nfun = 0
        for m in [x for x in self._mods.values() if x is not None]:
            for n in ast.walk(m.tree):
                if isinstance(n, (ast.FunctionDef, ast.AsyncFunctionDef)):
                    nfun += 1
        return {"modules_parsed": len(self._mods), "functions": nfun, "parse_errors": len(self.parse_errors)}

    def digest(self, rels: List[str]) -> str:
        h = hashlib.sha256()
        for r in sorted(rels):
            m = self._get(r)
            h.update(r.encode())
            h.update((m.src if m else "<missing>").encode())
        return h.hexdigest()[:16]


def is_property(fn: ast.FunctionDef) -> bool:
    for d in fn.decorator_list:
        if isinstance(d, ast.Name) and d.id == "property":
            return True
    return False


def is_staticmethod(fn: ast.FunctionDef) -> bool:
    return any(isinstance(d, ast.Name) and d.id == "staticmethod" for d in fn.decorator_list)


def unparse(node) -> str:
    try:
        return ast.unparse(node)
    except Exception:
        return "<?>"


def norm(node) -> str:
    """Normalised source text of a construct (whitespace/quote independent)."""
    return " ".join(unparse(node).split())
