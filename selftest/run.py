#!/venv/bin/python
"""Self-test of the checkers (not a registered check): every FIRING variant must make the named checks exit 1 with a
VIOLATION line, every SILENT (behaviour-preserving) variant must leave them at exit 0; seeded changes under
/verif/seeded/*/patch.diff must be caught by the check of their property.  Variants are applied to scratch copies of
the python sources under a fresh temp dir (removed afterwards); /repo itself is never touched."""
import json
import os
import shutil
import subprocess
import sys
import tempfile
from concurrent.futures import ThreadPoolExecutor

HERE = os.path.dirname(os.path.abspath(__file__))
VERIF = os.path.dirname(HERE)
sys.path.insert(0, HERE)
from variants import FIRING, SILENT   # noqa


def scratch():
    d = tempfile.mkdtemp(prefix="jesse-selftest-")
    subprocess.run(["rsync", "-a", "--include=*/", "--include=*.py", "--exclude=*", "/repo/jesse", d + "/"], check=True)
    return d


def run_check(root, pid):
    env = dict(os.environ, VERIF_REPO=root, VERIF_EVIDENCE_DIR=os.path.join(root, "_evidence"))
    p = subprocess.run(["/venv/bin/python", os.path.join(VERIF, "check.py"), pid], capture_output=True, text=True, env=env)
    viol = [l for l in p.stdout.splitlines() if l.startswith("  rule=")]
    return p.returncode, viol


def do_variant(v, expect_fire):
    name, rel, old, new, pids = v
    d = scratch()
    try:
        path = os.path.join(d, rel)
        src = open(path).read()
        if callable(old):
            # a refactoring written as a function source -> source (returns None when its anchors are gone)
            src2 = old(src)
            if src2 is None or src2 == src:
                return name, "STALE", f"refactoring does not apply to {rel}"
        elif isinstance(old, list):
            src2 = src
            for o, n in old:
                if src2.count(o) < 1:
                    return name, "STALE", f"pattern not found in {rel}: {o[:50]!r}"
                src2 = src2.replace(o, n, 1)
        else:
            if src.count(old) < 1:
                return name, "STALE", f"pattern not found in {rel}"
            src2 = src.replace(old, new, 1)
        try:
            compile(src2, rel, "exec")
        except SyntaxError as e:
            return name, "BROKEN-VARIANT", str(e)
        open(path, "w").write(src2)
        res = []
        ok = True
        for pid in pids:
            rc, viol = run_check(d, pid)
            if expect_fire:
                good = rc == 1
            else:
                good = rc == 0
            ok = ok and good
            res.append(f"{pid}:exit{rc}" + (f" [{viol[0][:90]}]" if viol and expect_fire else ""))
        return name, "ok" if ok else "FAILED", "; ".join(res)
    finally:
        shutil.rmtree(d, ignore_errors=True)


def do_seed(sdir):
    name = os.path.basename(sdir)
    pid = name.split("-")[0].upper()
    d = scratch()
    try:
        p = subprocess.run(["patch", "-p1", "-s", "-d", d, "-i", os.path.join(sdir, "patch.diff")], capture_output=True, text=True)
        if p.returncode != 0:
            return name, "STALE", p.stdout[:100] + p.stderr[:100]
        rc, viol = run_check(d, pid)
        return name, "ok" if rc == 1 else "MISSED", f"{pid}:exit{rc}" + (f" [{viol[0][:100]}]" if viol else "")
    finally:
        shutil.rmtree(d, ignore_errors=True)


def main():
    jobs = int(os.environ.get("SELFTEST_JOBS", "6"))
    out = []
    with ThreadPoolExecutor(max_workers=jobs) as ex:
        fut = [(ex.submit(do_variant, v, True), "firing") for v in FIRING] + [(ex.submit(do_variant, v, False), "silent") for v in SILENT]
        seeds = sorted(os.path.join(VERIF, "seeded", s) for s in os.listdir(os.path.join(VERIF, "seeded")) if os.path.isfile(os.path.join(VERIF, "seeded", s, "patch.diff")))
        fut += [(ex.submit(do_seed, s), "seeded") for s in seeds]
        for f, kind in fut:
            name, status, detail = f.result()
            out.append({"kind": kind, "name": name, "status": status, "detail": detail})
            print(f"{kind:7s} {status:8s} {name:40s} {detail[:150]}")
    bad = [o for o in out if o["status"] != "ok"]
    json.dump(out, open(os.path.join(HERE, "last_result.json"), "w"), indent=1)
    print(f"{len(out)} variants, {len(bad)} not ok")
    return 1 if bad else 0


if __name__ == "__main__":
    sys.exit(main())
