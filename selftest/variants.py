"""Self-test variants: textual edits of /repo sources applied to a scratch copy.

FIRING: (name, file, old, new, [property ids that must report a VIOLATION])
SILENT: (name, file, old, new, [property ids that must stay at exit 0])   - behaviour-preserving edits
Every variant must still parse; `old` must occur exactly in today's tree (else the variant is reported as stale).
"""

BT = "jesse/modes/backtest_mode.py"

FIRING = [
    ("sort-reverse-flipped", BT,
     "sorted_orders += sorted(below_open, key=lambda o: o.price, reverse=True) + sorted(above_open, key=lambda o: o.price)",
     "sorted_orders += sorted(below_open, key=lambda o: o.price) + sorted(above_open, key=lambda o: o.price)", ["C08"]),
    ("split-later-low", "jesse/services/candle.py", "timestamp, price, c, h, c, v", "timestamp, price, c, h, l, v", ["C08"]),
    ("includes-price-open-interval", "jesse/services/candle.py", "return (price >= candle[4]) and (price <= candle[3])",
     "return (price > candle[4]) and (price <= candle[3])", ["C02"]),
    ("jump-fix-prev-index", BT, 'previous_short_candles = candles[j]["candles"][i - 1]', 'previous_short_candles = candles[j]["candles"][i - 2]', ["C02"]),
    ("jump-fix-wrong-low", BT, "candle[4] = min(previous_candle[2], candle[4])", "candle[4] = max(previous_candle[2], candle[4])", ["C02"]),
    ("execute-guard-dropped", "jesse/models/Order.py",
     "    def execute(self, silent=False) -> None:\n        if self.is_canceled or self.is_executed:\n            return",
     "    def execute(self, silent=False) -> None:\n        if self.is_executed:\n            return", ["C05"]),
    ("active-filter-weakened", "jesse/store/state_orders.py", "if not order.is_canceled and not order.is_executed", "if not order.is_canceled", ["C05"]),
    ("margin-ge", "jesse/models/FuturesExchange.py", "if effective_order_size > self.available_margin:", "if effective_order_size >= self.available_margin:", ["C03", "C17"]),
    ("fee-sign", "jesse/models/FuturesExchange.py", "fee_amount = abs(amount) * self.fee_rate", "fee_amount = amount * self.fee_rate", ["C03"]),
    ("cancel-wrong-condition", "jesse/models/FuturesExchange.py",
     "        self.available_assets[base_asset] -= order.qty\n        if not order.reduce_only:",
     "        self.available_assets[base_asset] -= order.qty\n        if order.reduce_only:", ["C03"]),
    ("spot-double-release-again", "jesse/models/SpotExchange.py",
     "        # sell order: the reserved amount has already been released from stop_orders_sum/limit_orders_sum above\n",
     "        else:\n            if order.type == order_types.STOP:\n                self.stop_orders_sum[order.symbol] = subtract_floats(self.stop_orders_sum[order.symbol], abs(order.qty))\n", ["C04"]),
    ("spot-fee-on-base-dropped", "jesse/models/SpotExchange.py",
     "self.assets[base_asset] = sum_floats(self.assets[base_asset], abs(order.qty) * (1 - self.fee_rate))",
     "self.assets[base_asset] = sum_floats(self.assets[base_asset], abs(order.qty))", ["C04"]),
    ("spot-market-sell-ignores-limits", "jesse/models/SpotExchange.py",
     "order_qty = sum_floats(abs(order.qty), self.limit_orders_sum.get(order.symbol, 0))", "order_qty = abs(order.qty)", ["C04"]),
    ("effect-classification-ge", "jesse/strategies/Strategy.py",
     "        elif abs(after_qty) > abs(before_qty):\n            effect = 'increased_position'",
     "        elif abs(after_qty) >= abs(before_qty):\n            effect = 'increased_position'", ["C06"]),
    ("trade-entry-price-unweighted", "jesse/models/ClosedTrade.py",
     "        return (orders[:, 0] * orders[:, 1]).sum() / orders[:, 0].sum()\n\n    @property\n    def exit_price",
     "        return (orders[:, 0] * orders[:, 1]).sum() / len(orders)\n\n    @property\n    def exit_price", ["C06"]),
    ("agg-window-off-by-one", BT, "candles[j]['candles'][(i - (count - 1)):(i + 1)]", "candles[j]['candles'][(i - count):(i + 1)]", ["C07"]),
    ("agg-low-last", "jesse/services/candle.py", "        candles[:, 4].min(),", "        candles[-1][4],", ["C07"]),
    ("table-6h", "jesse/utils.py", "timeframes.HOUR_6: 60 * 6,", "timeframes.HOUR_6: 60 * 8,", ["C07", "C17"]),
    ("partial-count", BT, "number_of_needed_candles = (count_1m - 1) % tf_minutes + 1",
     "number_of_needed_candles = count_1m % tf_minutes + 1", ["C07"]),
    ("partial-on-epoch-grid", BT, "number_of_needed_candles = (count_1m - 1) % tf_minutes + 1",
     "number_of_needed_candles = int(storable_temp_candle[0] % (tf_minutes * 60_000) // 60000) + 1", ["C07"]),
    ("liq-constant", "jesse/models/Position.py", "return self.entry_price * (1 - self._initial_margin_rate + 0.004)",
     "return self.entry_price * (1 - self._initial_margin_rate + 0.04)", ["C09"]),
    ("liq-price-not-bankruptcy", BT, "'price': p.bankruptcy_price", "'price': p.liquidation_price", ["C09"]),
    ("near-threshold-strict", "jesse/helpers.py", "return abs(1 - (order_price / price_to_compare)) <= percentage_threshold",
     "return abs(1 - (order_price / price_to_compare)) < percentage_threshold", ["C10"]),
    ("cancel-wrong-kind", "jesse/strategies/Strategy.py", "                        if o.is_stop_loss and (o.is_active or o.is_queued):",
     "                        if o.is_take_profit and (o.is_active or o.is_queued):", ["C10"]),
    ("stop-entry-price", "jesse/strategies/Strategy.py",
     "            elif o[1] > price_to_compare:\n                self.broker.start_profit_at(sides.BUY, o[0], o[1])",
     "            elif o[1] > price_to_compare:\n                self.broker.start_profit_at(sides.BUY, o[0], price_to_compare)", ["C10"]),
    ("store-reset-misses-positions", "jesse/store/__init__.py", "        self.positions = PositionsState()\n        self.tickers", "        self.tickers", ["C11"]),
    ("fast-time-not-set", BT, "                            store.app.time = storable_temp_candle[0] + 60_000\n                            order.execute()",
     "                            order.execute()", ["C12"]),
    ("step-min", BT, "return np.gcd.reduce(consider_time_frames + [1440])", "return min(consider_time_frames)", ["C12"]),
    ("ema-wraparound", "jesse/indicators/ema.py", "    for i in range(period, n):\n        current = alpha * source[i] + (1 - alpha) * prev",
     "    for i in range(period, n):\n        current = alpha * source[i - period - 1] + (1 - alpha) * prev", ["C13"]),
    ("sma-centered", "jesse/indicators/sma.py", "res[period-1:] = np.convolve(source, np.ones(period, dtype=float)/period, mode='valid')",
     "res[:len(source)-period+1] = np.convolve(source, np.ones(period, dtype=float)/period, mode='valid')", ["C13", "C15"]),
    ("willr-last-minus-two", "jesse/indicators/willr.py", "    res[period-1:] = willr_values\n    return res if sequential else res[-1]",
     "    res[period-1:] = willr_values\n    return res if sequential else res[-2]", ["C14"]),
    ("wma-weights-reversed", "jesse/indicators/wma.py", "weights = np.arange(1, period + 1)", "weights = np.arange(period, 0, -1)", ["C15"]),
    ("ema-alpha", "jesse/indicators/ema.py", "alpha = 2 / (period + 1)", "alpha = 2 / (period + 2)", ["C15"]),
    ("win-rate-over-total", "jesse/services/metrics.py", "win_rate = len(winning_trades) / (len(losing_trades) + len(winning_trades))",
     "win_rate = len(winning_trades) / total_completed", ["C16"]),
    ("gross-loss-all", "jesse/services/metrics.py", "gross_loss = losing_trades['PNL'].sum()", "gross_loss = df['PNL'].sum()", ["C16"]),
    ("size-fee-factor", "jesse/utils.py", "        position_size *= 1 - fee_rate * 3", "        position_size *= 1 - fee_rate * 2", ["C17"]),
    ("floor-to-round", "jesse/helpers.py", "    return math.floor(num * temp) / temp", "    return round(num * temp) / temp", ["C17"]),
    ("limit-stop-max", "jesse/utils.py", "    risk = min(risk, max_allowed_risk)", "    risk = max(risk, max_allowed_risk)", ["C17"]),
    ("dna-bounds", "jesse/helpers.py", "convert_number(119, 40, h['max'], h['min'], ord(gene))\n                )\n            )",
     "convert_number(120, 40, h['max'], h['min'], ord(gene))\n                )\n            )", ["C19"]),
    ("defaults-override", "jesse/strategies/Strategy.py", "        if self.hp is None and len(self.hyperparameters()) > 0:", "        if len(self.hyperparameters()) > 0:", ["C19"]),
    ("dna-neg-index", "jesse/libs/dynamic_numpy_array/__init__.py", "            if i < 0:\n                i = (self.index + 1) - abs(i)\n\n            # validation\n            if self.index == -1",
     "            if i < 0:\n                i = self.index - abs(i)\n\n            # validation\n            if self.index == -1", ["C18"]),
    ("fill-high-from-open", "jesse/modes/import_candles_mode/__init__.py", "                    'open': last_close,\n                    'high': last_close,",
     "                    'open': last_close,\n                    'high': first_candle['open'],", ["C20"]),
    ("add-candle-ge", "jesse/store/state_candles.py", "        elif candle[0] > arr[-1][0]:", "        elif candle[0] >= arr[-1][0]:", ["C20"]),
    ("peek-next-candle", BT, "            short_candle = candles[j]['candles'][i]\n", "            short_candle = candles[j]['candles'][min(i + 1, length - 1)]\n", ["C01"]),
    ("agg-look-ahead", BT, "candles[j]['candles'][(i - (count - 1)):(i + 1)]", "candles[j]['candles'][(i - (count - 2)):(i + 2)]", ["C01", "C07"]),
    # ---- round-2 additions
    ("stale-partial-served", "jesse/store/state_candles.py",
     "        if dif == 0 or (jh.is_live() and long_count != 0 and",
     "        if dif == 0 or (long_count != 0 and", ["C07"]),
    ("fast-tail-full-step", BT, "        step = min(candles_step, length - i)\n", "        step = candles_step\n", ["C07", "C12"]),
    ("chunk-step-max", BT, "    return np.gcd.reduce(consider_time_frames + [1440])", "    return max(consider_time_frames)", ["C07", "C12"]),
    ("cci-constant", "jesse/indicators/cci.py", "(0.015 * md)", "(0.15 * md)", ["C15"]),
    ("stochf-range", "jesse/indicators/stochf.py", "k = 100 * (candles_close - ll) / (hh - ll)", "k = 100 * (candles_close - ll) / (hh - candles_close)", ["C15"]),
    ("keltner-lower-band", "jesse/indicators/keltner.py", "low = ma_values - atr_vals * multiplier", "low = ma_values - atr_vals", ["C15"]),
    ("dema-combination", "jesse/indicators/dema.py", "res = 2 * ema - ema_of_ema", "res = 2 * ema - ema", ["C15"]),
    ("tema-combination", "jesse/indicators/tema.py", "res = 3 * ema1 - 3 * ema2 + ema3", "res = 3 * ema1 - 3 * ema2 + ema2", ["C15"]),
    ("macd-hist-sign", "jesse/indicators/macd.py", "hist = subtract_arrays(macd_line, signal_line)", "hist = subtract_arrays(signal_line, macd_line)", ["C15"]),
    ("dpo-mask-short", "jesse/indicators/dpo.py", "dpo[:period-1+shift] = np.nan", "dpo[:period-1] = np.nan", ["C13"]),
    # ---- defect-hunting round: reverting each repair must fire
    ("fee-on-nominal-qty", "jesse/models/Position.py", "self.exchange.charge_fee(filled_qty * price)", "self.exchange.charge_fee(qty * price)", ["C03"]),
    ("spot-equity-own-orders-only", "jesse/strategies/Strategy.py",
     "            for r in self.routes:\n                for o in r.strategy.entry_orders:\n                    if o.is_active:\n                        entry_orders_value += o.value\n",
     "            for o in self.entry_orders:\n                if o.is_active:\n                    entry_orders_value += o.value\n", ["C16"]),
    ("fast-gap-first-candle-only", BT, "        for k in range(1, len(short_candles)):\n            short_candles[k] = _get_fixed_jumped_candle(short_candles[k - 1], short_candles[k])\n", "", ["C02", "C12"]),
    ("fast-no-resort", BT, "                            if len(executing_orders) > 1:\n                                # sort again, along what is left of this candle and the rest of the chunk\n", "                            if False:\n", ["C02", "C12"]),
    ("open-exit-not-reduce-only", "jesse/strategies/Strategy.py",
     "                if self.is_long and o[1] >= self.position.entry_price:\n                    submitted_order: Order = self.broker.reduce_position_at(o[0], self.price, self.price)",
     "                if self.is_long and o[1] >= self.position.entry_price:\n                    submitted_order: Order = self.broker.sell_at_market(o[0])", ["C10"]),
    ("maxdd-start-not-a-peak", "jesse/services/metrics.py", "prices = (returns.fillna(0) + 1).cumprod()", "prices = (returns + 1).cumprod()", ["C16"]),
    ("sortino-len", "jesse/services/metrics.py", ".sum() / returns.count())", ".sum() / len(returns))", ["C16"]),
    ("fast-daily-sample-by-step", BT, "        for _ in range((i // 1440 + 1) * 1440, min(i + step, length - 1) + 1, 1440):\n            save_daily_portfolio_balance()",
     "        if i != 0 and i % 1440 == 0:\n            save_daily_portfolio_balance()", ["C16"]),
    ("add-candle-lookback", "jesse/store/state_candles.py", "            for i in range(1, len(arr) + 1):\n                if arr[-i][0] == candle[0]:",
     "            for i in range(max(20, len(arr) - 1)):\n                if arr[-i][0] == candle[0]:", ["C20"]),
    ("liquidation-without-partial", BT, "        _update_all_routes_a_partial_candle(exchange, symbol, candle if last_1m_candle is None else last_1m_candle)\n", "", ["C07"]),
    ("spot-flip", "jesse/models/Position.py", "if order.reduce_only or self.exchange_type == 'spot':", "if order.reduce_only:", ["C04"]),
    # ---- round-2 hunts: reverting each repair must fire
    ("at-open-whole-candle", BT, "                    if fills_at_open:\n                        storable_temp_candle = np.array([storable_temp_candle[0], order.price, order.price, order.price, order.price, storable_temp_candle[5]])\n", "", ["C07"]),
    ("partial-from-previous-fill", BT, "                    storable_temp_candle = np.array([real_candle[0], real_candle[1], order.price, traded_high, traded_low, storable_temp_candle[5]])\n", "", ["C07"]),
    ("fast-no-prune-per-minute", BT, "                store.orders.update_active_orders(exchange, symbol)\n                store.orders.execute_pending_market_orders()\n", "                store.orders.execute_pending_market_orders()\n", ["C12"]),
    ("fast-no-market-flush-per-minute", BT, "                store.orders.update_active_orders(exchange, symbol)\n                store.orders.execute_pending_market_orders()\n", "                store.orders.update_active_orders(exchange, symbol)\n", ["C12"]),
    ("normal-daily-sample-late", BT, "        if (i + 1) % 1440 == 0 and i + 1 < length:\n            save_daily_portfolio_balance()", "        if i != 0 and i % 1440 == 0:\n            save_daily_portfolio_balance()", ["C16"]),
    ("liquidate-keeps-remembered", "jesse/strategies/Strategy.py", "            self._take_profit = None\n            self.take_profit = self.position.qty, self.price", "            self.take_profit = self.position.qty, self.price", ["C10"]),
    ("margin-symbol-rebuilt", "jesse/models/FuturesExchange.py", "self.symbols.get(asset, f\"{asset}-{self.settlement_currency}\")", "f\"{asset}-{self.settlement_currency}\"", ["C03"]),
    ("mfi-short-input", "jesse/indicators/mfi.py", "    if len(candles) < period:\n        return np.full(len(candles), np.nan) if sequential else np.nan\n", "", ["C14"]),
    ("adx-short-input", "jesse/indicators/adx.py", "return np.full(len(candles), np.nan) if sequential else np.nan", "return np.nan if sequential else np.nan", ["C14"]),
    ("cleanup-order", "jesse/research/backtest.py", "    store.reset()\n\n    return result", "    reset_config()\n    store.reset()\n\n    return result", ["C11"]),
    ("reset-config-shallow", "jesse/config.py", "    config.update(copy.deepcopy(backup_config))", "    config.update(backup_config.copy())", ["C11"]),
    ("install-routes-sets", "jesse/store/__init__.py", "    trading_symbols = {}\n", "    trading_symbols = set()\n", ["C11"]),
    ("di-seed-sum", "jesse/indicators/di.py", "plus_smoothed[period - 1] = np.sum(plus_dm[:period]) / period", "plus_smoothed[period - 1] = np.sum(plus_dm[:period])", ["C15"]),
    ("dna-float-unclamped", "jesse/helpers.py", "            decoded_gene = float(min(max(decoded_gene, h['min']), h['max']))\n", "", ["C19"]),
    ("dna-float-clamp-returns-bound", "jesse/helpers.py", "decoded_gene = float(min(max(decoded_gene, h['min']), h['max']))", "decoded_gene = min(max(decoded_gene, h['min']), h['max'])", ["C19"]),
    ("fast-symbol-major-chunk", BT, "    if len(candles) > 1 and candles_step > 1:\n", "    if False and len(candles) > 1 and candles_step > 1:\n", ["C02", "C03", "C07"]),
    ("fast-symbol-major-chunk-range", BT, "        for k in range(candles_step):\n            if k > 0:", "        for k in range(candles_step - 1):\n            if k > 0:", ["C02", "C07"]),
    ("liquidate-keeps-consumed-other-kind", "jesse/strategies/Strategy.py", "        if submitted is not None and np.array_equal(getattr(self, other), submitted) and not any(", "        if False and not any(", ["C10"]),
    ("fast-multi-symbol-no-minute-end", BT, "            if k > 0:\n", "            if False and k > 0:\n", ["C02"]),
    ("fast-multi-symbol-flush-before-prune", BT, "                for r in router.routes:\n                    store.orders.update_active_orders(r.exchange, r.symbol)\n                _execute_market_orders()\n", "                _execute_market_orders()\n                for r in router.routes:\n                    store.orders.update_active_orders(r.exchange, r.symbol)\n", ["C02"]),
    ("gauss-strips-inner-nans", "jesse/indicators/gauss.py", "    source = source[valid[0]:] if valid.size > 0 else source[N:]\n", "    source = source[~np.isnan(source)]\n", ["C13"]),
    ("maaq-strips-inner-nans", "jesse/indicators/maaq.py", "    source = source[valid[0]:] if valid.size > 0 else source[len(source):]\n", "    source = source[~np.isnan(source)]\n", ["C13"]),
    ("rsmk-zero-weight-times-inf", "jesse/indicators/rsmk.py", "np.sum(np.where(lag < 0, 0.0, weights * segment.reshape(1, -1)), axis=1)", "np.sum(weights * segment.reshape(1, -1), axis=1)", ["C13"]),
    ("sar-one-candle-bare-number", "jesse/indicators/sar.py", "        return low.copy() if sequential else low[-1]\n", "        return low[-1]\n", ["C14"]),
    ("srsi-empty-stochastic-indexed", "jesse/indicators/srsi.py", "        if len(fast_k) == 0:\n            return StochasticRSI(np.nan, np.nan)\n", "", ["C14"]),
    ("hma-zero-warm-up", "jesse/indicators/hma.py", "    wma = np.full(arr.shape, np.nan)\n", "    wma = np.zeros_like(arr)\n", ["C15"]),
    ("smma-length-dependent-scale", "jesse/indicators/smma.py", "        out[t] = num / den\n", "        out[t] = num / den * (1 + 0.001 * n)\n", ["C13"]),
    ("fast-fill-before-clock", BT, "                            store.app.time = storable_temp_candle[0] + 60_000\n                            order.execute()\n", "                            order.execute()\n                            store.app.time = storable_temp_candle[0] + 60_000\n", ["C01", "C12"]),
    ("ma-slices-1d-series", "jesse/indicators/ma.py", "    if len(candles.shape) != 1:\n        candles = slice_candles(candles, sequential)\n", "    candles = slice_candles(candles, sequential)\n", ["C15"]),
    ("mab-scalar-deviation", "jesse/indicators/mab.py", "        dev[fast_period - 1:] = np.sqrt(np.lib.stride_tricks.sliding_window_view(sq, fast_period).sum(axis=1) / fast_period)\n", "        dev[:] = np.sqrt(np.sum(sq[-fast_period:]) / fast_period)\n", ["C13"]),
    ("lrsi-loop-from-zero", "jesse/indicators/lrsi.py", "    for i in range(1, l0.shape[0]):\n", "    for i in range(l0.shape[0]):\n", ["C13"]),
    ("alligator-seed-at-zero", "jesse/indicators/alligator.py", "    result[length - 1] = init_val\n    for i in range(length, N):", "    result[0] = init_val\n    for i in range(1, N):", ["C13"]),
    ("sar-first-value-kept", "jesse/indicators/sar.py", "    sar_values[0] = np.nan\n", "", ["C13"]),
    ("emd-tracker-from-zero", "jesse/indicators/emd.py", "    for i in range(1, price.shape[0]):\n        peak[i] = peak[i - 1]", "    for i in range(price.shape[0]):\n        peak[i] = peak[i - 1]", ["C13"]),
    ("squeeze-signal-short", "jesse/indicators/squeeze_momentum.py", "    for i in range(len(momentum)):\n        previous = momentum[i - 1] if i > 0 else np.nan\n", "    for i in range(1, len(momentum)):\n        previous = momentum[i - 1]\n", ["C14"]),
    ("stoch-ma-on-nan-warm-up", "jesse/indicators/stochastic.py", "    k = _ma_after_warmup(stoch_val, slowk_period, slowk_matype)\n", "    k = ma(stoch_val, period=slowk_period, matype=slowk_matype, sequential=True)\n", ["C15"]),
    ("tsf-period-one", "jesse/indicators/tsf.py", "        if len(source) < period or period < 2:\n", "        if len(source) < period:\n", ["C14"]),
    ("add-multiple-inner-chunk-refused", "jesse/store/state_candles.py", "        elif candles[0, 0] >= arr[0][0] and candles[-1, 0] < arr[-1][0]:\n", "        elif False and candles[0, 0] >= arr[0][0] and candles[-1, 0] < arr[-1][0]:\n", ["C20"]),
    ("research-candles-in-caller-order", "jesse/research/backtest.py", "    trading_candles_dict = {k: copied_candles[k] for k in ordered_keys}\n", "    trading_candles_dict = {k: v for k, v in copied_candles.items()}\n", ["C11"]),
    ("fast-chunk-longer-than-a-day", BT, "    return np.gcd.reduce(consider_time_frames + [1440])\n", "    return np.gcd.reduce(consider_time_frames)\n", ["C16", "C12", "C07"]),
    ("cancel-clears-store-after-hooks", "jesse/strategies/Strategy.py", "        if not jh.is_unit_testing() and not jh.is_live():\n            store.orders.storage[f'{self.exchange}-{self.symbol}'].clear()\n\n        self._broadcast('route-canceled')\n\n        self.on_cancel()\n", "        self._broadcast('route-canceled')\n\n        self.on_cancel()\n\n        if not jh.is_unit_testing() and not jh.is_live():\n            store.orders.storage[f'{self.exchange}-{self.symbol}'].clear()\n", ["C05"]),
    ("flip-close-not-reported", "jesse/models/Position.py", "                        if self.strategy:\n                            self.strategy._on_updated_position(order)\n                        if held is not None:", "                        if held is not None:", ["C06", "C03"]),
    ("oversize-exit-booked-whole", "jesse/store/state_completed_trades.py", "        if p is not None and p.qty != 0 and p.qty * qty < 0 and abs(qty) > abs(p.qty):\n            qty = abs(p.qty)\n", "", ["C06"]),
    ("normal-simulator-clock-not-advanced", BT, "        store.app.time = first_candles_set[i][0] + 60_000\n\n        # add candles", "        # add candles", ["C01", "C02"]),
    ("flip-rest-not-held-during-close", "jesse/models/Position.py", "                            held.append(np.array([diff_qty, price]))\n", "                            pass\n", ["C03"]),
    ("flip-new-trade-without-entry-order", "jesse/models/Position.py", "                        store.completed_trades._get_current_trade(self.exchange_name, self.symbol).orders.append(order)\n", "", ["C06"]),
    ("reset-trade-orders-drops-live-orders", "jesse/store/state_orders.py", "        self.storage[key] = [o for o in self.storage[key] if o.is_active or o.is_queued]\n        self.active_storage[key] = [o for o in self.active_storage[key] if o.is_active or o.is_queued]\n", "        self.storage[key] = []\n        self.active_storage[key] = []\n", ["C05"]),
    ("dna-append-multiple-empty", "jesse/libs/dynamic_numpy_array/__init__.py", "        if len(items) == 0:\n            return\n", "", ["C18"]),
    ("dna-delete-raw-index", "jesse/libs/dynamic_numpy_array/__init__.py", "        if index < 0:\n            index = (self.index + 1) - abs(index)\n        if index > self.index or index < 0:\n            raise IndexError('list assignment index out of range')\n\n        self.array = np.delete", "        self.array = np.delete", ["C18"]),
]

SILENT = [
    ("rename-local-in-split", "jesse/services/candle.py", "    o = candle[1]\n    c = candle[2]\n    h = candle[3]\n    l = candle[4]\n    v = candle[5]",
     "    o = candle[1]\n    c = candle[2]\n    h = candle[3]\n    l = candle[4]\n    v = candle[5]\n    _unused_marker = None", ["C08", "C02"]),
    ("includes-price-chained", "jesse/services/candle.py", "return (price >= candle[4]) and (price <= candle[3])", "return candle[4] <= price <= candle[3]", ["C02", "C08", "C09"]),
    ("margin-test-swapped", "jesse/models/FuturesExchange.py", "if effective_order_size > self.available_margin:", "if self.available_margin < effective_order_size:", ["C03"]),
    ("spot-temp-variable", "jesse/models/SpotExchange.py",
     "            self.assets[base_asset] = sum_floats(self.assets[base_asset], abs(order.qty) * (1 - self.fee_rate))",
     "            net_qty = abs(order.qty) * (1 - self.fee_rate)\n            self.assets[base_asset] = sum_floats(self.assets[base_asset], net_qty)", ["C04"]),
    ("order-guard-reordered", "jesse/models/Order.py",
     "    def execute(self, silent=False) -> None:\n        if self.is_canceled or self.is_executed:\n            return",
     "    def execute(self, silent=False) -> None:\n        if self.is_executed or self.is_canceled:\n            return", ["C05"]),
    ("logging-added-in-loop", BT, "            _simulate_price_change_effect(short_candle, exchange, symbol)\n",
     "            _simulate_price_change_effect(short_candle, exchange, symbol)\n            logger.info('matched')\n", ["C01", "C02", "C05", "C12", "C16"]),
    ("agg-slice-rewritten", BT, "candles[j]['candles'][(i - (count - 1)):(i + 1)]", "candles[j]['candles'][(i + 1 - count):(i + 1)]", ["C01", "C07"]),
    ("liq-formula-rearranged", "jesse/models/Position.py", "return self.entry_price * (1 - self._initial_margin_rate + 0.004)",
     "return self.entry_price * (1 + 0.004 - self._initial_margin_rate)", ["C09"]),
    ("near-rewritten", "jesse/helpers.py", "return abs(1 - (order_price / price_to_compare)) <= percentage_threshold",
     "return abs((price_to_compare - order_price) / price_to_compare) <= percentage_threshold", ["C10"]),
    ("sma-cumsum-free-rewrite", "jesse/indicators/sma.py", "np.convolve(source, np.ones(period, dtype=float)/period, mode='valid')",
     "np.convolve(source, np.ones(period, dtype=float), mode='valid') / period", ["C13", "C14", "C15"]),
    ("ema-step-rearranged", "jesse/indicators/ema.py", "        current = alpha * source[i] + (1 - alpha) * prev", "        current = prev + alpha * (source[i] - prev)", ["C13", "C14", "C15"]),
    ("metrics-winrate-variables", "jesse/services/metrics.py", "win_rate = len(winning_trades) / (len(losing_trades) + len(winning_trades))",
     "win_rate = total_winning_trades / (total_winning_trades + total_losing_trades)", ["C16"]),
    ("size-to-qty-rearranged", "jesse/utils.py", "        position_size *= 1 - fee_rate * 3", "        position_size = position_size - position_size * fee_rate * 3", ["C17"]),
    ("convert-number-inline", "jesse/helpers.py", "    return (((old_value - old_min) * new_range) / old_range) + new_min",
     "    return new_min + (old_value - old_min) * new_range / old_range", ["C19"]),
    ("fill-loop-variable", "jesse/modes/import_candles_mode/__init__.py", "                last_close = candles[-1]['close']", "                last_close = candles[len(candles) - 1]['close']", ["C20"]),
    # ---- round-2 additions
    ("fast-tail-explicit-if", BT, "        step = min(candles_step, length - i)\n",
     "        step = candles_step\n        if i + step > length:\n            step = length - i\n", ["C07", "C12", "C01"]),
    ("chunk-step-math-gcd", BT, "    return np.gcd.reduce(consider_time_frames + [1440])",
     "    import math\n    g = 1440\n    for m in consider_time_frames:\n        g = math.gcd(g, m)\n    return g", ["C01", "C07", "C12"]),
    ("cci-constant-rewritten", "jesse/indicators/cci.py", "(0.015 * md)", "(md * 0.015)", ["C15"]),
    # ---- defect-hunting round
    ("fee-filled-qty-rewritten", "jesse/models/Position.py", "                    elif abs(qty) > abs(self.qty):\n                        filled_qty = -self.qty",
     "                    elif abs(self.qty) < abs(qty):\n                        filled_qty = 0 - self.qty", ["C03"]),
    ("maxdd-fillna-rewritten", "jesse/services/metrics.py", "prices = (returns.fillna(0) + 1).cumprod()", "prices = (1 + returns.fillna(0)).cumprod()", ["C16"]),
    ("fast-gap-loop-rewritten", BT, "        for k in range(1, len(short_candles)):\n            short_candles[k] = _get_fixed_jumped_candle(short_candles[k - 1], short_candles[k])\n",
     "        k = 1\n        while k < len(short_candles):\n            short_candles[k] = _get_fixed_jumped_candle(short_candles[k - 1], short_candles[k])\n            k += 1\n", ["C02", "C12", "C01", "C07"]),
    # ---- round-2 hunts
    ("liquidate-del-remembered", "jesse/strategies/Strategy.py", "            self._take_profit = None\n            self.take_profit = self.position.qty, self.price", "            self._take_profit = np.array([])\n            self.take_profit = self.position.qty, self.price", ["C10"]),
    ("dna-float-clip", "jesse/helpers.py", "            decoded_gene = float(min(max(decoded_gene, h['min']), h['max']))\n", "            decoded_gene = float(np.clip(decoded_gene, h['min'], h['max']))\n", ["C19"]),
    ("daily-sample-rewritten", BT, "        if (i + 1) % 1440 == 0 and i + 1 < length:\n            save_daily_portfolio_balance()", "        minute = i + 1\n        if minute < length and minute % 1440 == 0:\n            save_daily_portfolio_balance()", ["C16", "C12", "C01"]),
]


# ---- behaviour-preserving REFACTORINGS of the simulators (helper extraction, renamed loop variable, items() iteration): the rules
# ---- that look at the simulators must not depend on names or on how the code is cut into functions
def _rename_time_loop_variable(src):
    import re
    a = src.find("    for i in range(length):")
    b = src.find("    _finish_progress_bar(progressbar, run_silently)", a)
    if a < 0 or b < 0:
        return None
    return src[:a] + re.sub(r"\bi\b", "minute", src[a:b]) + src[b:]


_R_PIECE = [("""    if len(candles) > 1 and candles_step > 1:
        for k in range(candles_step):
            if k > 0:
                # the end of the previous minute, as in the normal simulator: orders that got executed or canceled
                # during it are no longer listed as active, and the MARKET orders submitted during it are executed
                for r in router.routes:
                    store.orders.update_active_orders(r.exchange, r.symbol)
                _execute_market_orders()
            _simulate_new_candles(candles, candle_index + k, 1)
        return

    i = candle_index
""", """    if len(candles) > 1 and candles_step > 1:
        for k in range(candles_step):
            if k > 0:
                _end_of_minute()
            _simulate_new_candles_piece(candles, candle_index + k, 1)
    else:
        _simulate_new_candles_piece(candles, candle_index, candles_step)


def _end_of_minute() -> None:
    for r in router.routes:
        store.orders.update_active_orders(r.exchange, r.symbol)
    _execute_market_orders()


def _simulate_new_candles_piece(candles: dict, candle_index: int, candles_step: int) -> None:
    i = candle_index
""")]
_R_ITEMS = [("""        for j in candles:
            short_candle = candles[j]['candles'][i]
            if i != 0:
                previous_short_candle = candles[j]['candles'][i - 1]
                short_candle = _get_fixed_jumped_candle(previous_short_candle, short_candle)
            exchange = candles[j]['exchange']
            symbol = candles[j]['symbol']
""", """        for j, entry in candles.items():
            one_minutes = entry['candles']
            short_candle = one_minutes[i]
            if i != 0:
                previous_short_candle = one_minutes[i - 1]
                short_candle = _get_fixed_jumped_candle(previous_short_candle, short_candle)
            exchange = entry['exchange']
            symbol = entry['symbol']
""")]
_GEN_BODY = """            # generate and add candles for bigger timeframes
            for timeframe in config['app']['considering_timeframes']:
                # for 1m, no work is needed
                if timeframe == '1m':
                    continue

                count = timeframe_to_one_minutes[timeframe]
                # until = count - ((i + 1) % count)

                if (i + 1) % count == 0:
                    generated_candle = generate_candle_from_one_minutes(
                        timeframe,
                        candles[j]['candles'][(i - (count - 1)):(i + 1)]
                    )

                    store.candles.add_candle(generated_candle, exchange, symbol, timeframe, with_execution=False,
                                             with_generation=False)
"""
_R_SYMHELPER = [(_GEN_BODY, "            _generate_bigger_timeframes(candles[j]['candles'], i, exchange, symbol)\n"),
                ("def _step_simulator(", """def _generate_bigger_timeframes(one_minutes, i: int, exchange: str, symbol: str) -> None:
    for timeframe in config['app']['considering_timeframes']:
        if timeframe == '1m':
            continue

        count = timeframe_to_one_minutes[timeframe]

        if (i + 1) % count == 0:
            generated_candle = generate_candle_from_one_minutes(
                timeframe,
                one_minutes[(i - (count - 1)):(i + 1)]
            )

            store.candles.add_candle(generated_candle, exchange, symbol, timeframe, with_execution=False,
                                     with_generation=False)


def _step_simulator(""")]
_ROUTES_BODY = """        for r in router.routes:
            count = timeframe_to_one_minutes[r.timeframe]
            # 1m timeframe
            if r.timeframe == timeframes.MINUTE_1:
                r.strategy._execute()
            elif (i + 1) % count == 0:
                # print candle
                if jh.is_debuggable('trading_candles'):
                    print_candle(store.candles.get_current_candle(r.exchange, r.symbol, r.timeframe), False,
                                 r.symbol)
                r.strategy._execute()

            store.orders.update_active_orders(r.exchange, r.symbol)
"""
_R_ROUTESHELPER = [(_ROUTES_BODY, "        _execute_routes_of_minute(i)\n"),
                   ("def _step_simulator(", "def _execute_routes_of_minute(i: int) -> None:\n" + "\n".join(l[4:] if l.startswith("    ") else l for l in _ROUTES_BODY.split("\n")) + "\n\ndef _step_simulator(")]
_SIM_IDS = ["C01", "C02", "C03", "C05", "C07", "C12", "C16"]
SILENT += [
    ("refactor-rename-time-loop-variable", BT, _rename_time_loop_variable, None, _SIM_IDS),
    ("refactor-multi-symbol-replay-into-helpers", BT, _R_PIECE, None, _SIM_IDS),
    ("refactor-symbol-loop-over-items", BT, _R_ITEMS, None, _SIM_IDS),
    ("refactor-window-generation-into-helper", BT, _R_SYMHELPER, None, _SIM_IDS),
    ("refactor-route-execution-into-helper", BT, _R_ROUTESHELPER, None, _SIM_IDS),
]


# ---- second batch: local variables renamed inside one function (the rules must follow values, not names)
def _rename_in_function(fname, mapping):
    def f(src):
        import ast as _ast
        import re as _re
        tree = _ast.parse(src)
        target = next((n for n in _ast.walk(tree) if isinstance(n, (_ast.FunctionDef, _ast.AsyncFunctionDef)) and n.name == fname), None)
        if target is None:
            return None
        lines = src.split("\n")
        a, b = target.lineno - 1, target.end_lineno
        body = "\n".join(lines[a:b])
        for old, new in mapping.items():
            if not _re.search(rf"\b{old}\b", body):
                return None
            body = _re.sub(rf"(?<![\.\w'\"]){old}\b(?!['\"])", new, body)
        return "\n".join(lines[:a]) + "\n" + body + "\n" + "\n".join(lines[b:])
    return f


SILENT += [
    ("refactor-skip-simulator-locals", BT, _rename_in_function("_skip_simulator", {"candles_step": "chunk", "length": "n_minutes", "step": "this_chunk"}), None, ["C01", "C02", "C07", "C12", "C16"]),
    ("refactor-step-simulator-length", BT, _rename_in_function("_step_simulator", {"length": "n_minutes"}), None, ["C01", "C02", "C07", "C12", "C16"]),
    ("refactor-partial-candle-locals", BT, _rename_in_function("_update_all_routes_a_partial_candle", {"number_of_needed_candles": "needed"}), None, ["C01", "C07"]),
    ("refactor-get-candles-locals", "jesse/store/state_candles.py", _rename_in_function("get_candles", {"short_count": "n_1m"}), None, ["C01", "C07", "C20"]),
    ("refactor-matcher-locals", BT, _rename_in_function("_simulate_price_change_effect", {"executed_order": "filled", "current_temp_candle": "rest"}), None, ["C02", "C07", "C08", "C09", "C12"]),
    ("refactor-fast-matcher-locals", BT, _rename_in_function("_simulate_price_change_effect_multiple_candles", {"is_executed_order": "filled", "current_temp_candle": "rest", "executing_orders": "candidates"}), None, ["C02", "C07", "C08", "C09", "C12"]),
    ("refactor-liquidation-locals", BT, _rename_in_function("_check_for_liquidations", {"closing_order_side": "side", "order": "liq"}), None, ["C07", "C09"]),
    ("refactor-fill-absent-locals", "jesse/modes/import_candles_mode/__init__.py", _rename_in_function("_fill_absent_candles", {"loop_length": "n_loops"}), None, ["C20"]),
    ("refactor-dna-locals", "jesse/helpers.py", _rename_in_function("dna_to_hp", {"decoded_gene": "value", "hp": "out"}), None, ["C19"]),
    ("refactor-isolated-backtest-locals", "jesse/research/backtest.py", _rename_in_function("_isolated_backtest", {"trading_candles_dict": "copied", "backtest_result": "outcome"}), None, ["C11", "C20"]),
    ("refactor-position-locals", "jesse/models/Position.py", _rename_in_function("_on_executed_order", {"qty": "amount", "price": "px"}), None, ["C03", "C04", "C06", "C09"]),
]


# ---- third batch: helper extraction around trace rules
SILENT += [
    ("refactor-liquidation-execution-into-helper", BT, [("""        # the hooks that this execution triggers read the other timeframes' candles too,
        # so (as for any other execution) update them up to the last stored 1m candle
        _update_all_routes_a_partial_candle(exchange, symbol, candle if last_1m_candle is None else last_1m_candle)

        order.execute()
""", """        _execute_liquidation(order, exchange, symbol, candle if last_1m_candle is None else last_1m_candle)
"""), ("def _generate_outputs(", """def _execute_liquidation(order, exchange: str, symbol: str, last_candle: np.ndarray) -> None:
    _update_all_routes_a_partial_candle(exchange, symbol, last_candle)

    order.execute()


def _generate_outputs(""")], None, ["C07", "C09", "C01"]),
    ("refactor-fast-fill-into-helper", BT, [("""                            store.app.time = storable_temp_candle[0] + 60_000
                            order.execute()
                            executing_orders = _get_executing_orders(
                                exchange, symbol, real_candle
                            )""", """                            _fill_at(order, storable_temp_candle)
                            executing_orders = _get_executing_orders(
                                exchange, symbol, real_candle
                            )"""), ("def _update_all_routes_a_partial_candle(", """def _fill_at(order, storable_temp_candle: np.ndarray) -> None:
    store.app.time = storable_temp_candle[0] + 60_000
    order.execute()


def _update_all_routes_a_partial_candle(""")], None, ["C02", "C05", "C07", "C12", "C01"]),
    ("refactor-session-cleanup-into-helper", "jesse/research/backtest.py", [("""    store.reset()

    return result


def _format_config(config):""", """    _forget_session()

    return result


def _forget_session() -> None:
    store.reset()


def _format_config(config):""")], None, ["C11", "C20"]),
]


# ---- a NEW module-level cell: accepted when a function that runs on entry empties it, reported when nothing does
_NEW_CELL = [("def set_config(conf: dict) -> None:\n    global config\n", "_sessions_seen = []\n\n\ndef set_config(conf: dict) -> None:\n    global config\n    _sessions_seen.append(len(conf))\n")]
SILENT += [
    ("new-global-cell-cleared-on-entry", "jesse/config.py", _NEW_CELL + [("    config.clear()\n    config.update(copy.deepcopy(backup_config))\n", "    config.clear()\n    _sessions_seen.clear()\n    config.update(copy.deepcopy(backup_config))\n")], None, ["C11"]),
]
FIRING += [
    ("new-global-cell-never-cleared", "jesse/config.py", _NEW_CELL, None, ["C11"]),
]


# ---- harmless surplus in the end-of-minute protocol (every candle set pruned as well): accepted
SILENT += [
    ("multi-symbol-replay-prunes-every-candle-set-too", BT, [("""                for r in router.routes:
                    store.orders.update_active_orders(r.exchange, r.symbol)
                _execute_market_orders()
""", """                for r in router.routes:
                    store.orders.update_active_orders(r.exchange, r.symbol)
                for jj in candles:
                    store.orders.update_active_orders(candles[jj]['exchange'], candles[jj]['symbol'])
                _execute_market_orders()
""")], None, ["C02", "C05", "C12", "C01"]),
]

# ---- the dict handed to the simulator ordered by sorted keys instead of route order: still independent of the caller's order
SILENT += [
    ("research-candles-sorted-keys", "jesse/research/backtest.py", [("    trading_candles_dict = {k: copied_candles[k] for k in ordered_keys}\n", "    trading_candles_dict = {k: copied_candles[k] for k in sorted(copied_candles)}\n")], None, ["C11", "C20"]),
]


# ---- fourth batch: behaviour-preserving rewrites outside the simulators (container, sizing helpers, spot ledger, metrics, indicators)
_DNA = "jesse/libs/dynamic_numpy_array/__init__.py"
SILENT += [
    ("refactor-dna-getitem-len-local", _DNA, [("""            start, stop, _ = slice(i.start, i.stop).indices(self.index + 1)
            return self.array[start:stop]""", """            n = self.index + 1
            start, stop, _ = slice(i.start, i.stop).indices(n)
            return self.array[start:stop]""")], None, ["C18", "C01", "C07"]),
    ("refactor-dna-negative-index-form", _DNA, [("""            if i < 0:
                i = (self.index + 1) - abs(i)

            # validation
            if self.index == -1""", """            if i < 0:
                i = self.index + 1 + i

            # validation
            if self.index == -1""")], None, ["C18"]),
    ("refactor-dna-past-item-test-form", _DNA, [("        if (self.index - past_index) < 0:", "        if past_index > self.index:")], None, ["C18"]),
    ("refactor-dna-drop-into-helper", _DNA, [("""            new_bucket = np.zeros(self.shape)
            self.array = np.concatenate((self.array, new_bucket), axis=0)

        # drop N% of the beginning values to free memory
        if (
            self.drop_at is not None
            and self.index != 0
            and (self.index + 1) % self.drop_at == 0
        ):
            shift_num = int(self.drop_at / 2)
            self.index -= shift_num
            self.array = np_shift(self.array, -shift_num)

        self.array[self.index] = item
""", """            new_bucket = np.zeros(self.shape)
            self.array = np.concatenate((self.array, new_bucket), axis=0)

        self._drop_oldest_if_due()

        self.array[self.index] = item

    def _drop_oldest_if_due(self) -> None:
        # drop N% of the beginning values to free memory
        if (
            self.drop_at is not None
            and self.index != 0
            and (self.index + 1) % self.drop_at == 0
        ):
            shift_num = int(self.drop_at / 2)
            self.index -= shift_num
            self.array = np_shift(self.array, -shift_num)
""")], None, ["C18", "C01"]),
    ("refactor-size-to-qty-local", "jesse/utils.py", [("    return jh.floor_with_precision(position_size / entry_price, precision)\n",
                                                        "    qty = position_size / entry_price\n    return jh.floor_with_precision(qty, precision)\n")], None, ["C17"]),
    ("refactor-floor-with-precision-names", "jesse/helpers.py", [("    temp = 10 ** precision\n    return math.floor(num * temp) / temp\n",
                                                                 "    scale = 10 ** precision\n    floored = math.floor(num * scale)\n    return floored / scale\n")], None, ["C17"]),
    ("refactor-risk-to-size-no-augassign", "jesse/utils.py", [("    risk_percentage /= 100\n    temp_size = ((risk_percentage * capital_size) / risk_per_qty) * entry_price\n",
                                                               "    fraction = risk_percentage / 100\n    temp_size = ((fraction * capital_size) / risk_per_qty) * entry_price\n")], None, ["C17"]),
    ("refactor-spot-execution-symbol-local", "jesse/models/SpotExchange.py", [("""        if order.side == sides.SELL:
            if order.type == order_types.STOP:
                self.stop_orders_sum[order.symbol] = subtract_floats(self.stop_orders_sum[order.symbol], abs(order.qty))
            elif order.type == order_types.LIMIT:
                self.limit_orders_sum[order.symbol] = subtract_floats(self.limit_orders_sum[order.symbol], abs(order.qty))

        base_asset = jh.base_asset(order.symbol)

        # buy order
        if order.side == sides.BUY:
            # asset's balance""", """        sym = order.symbol
        size = abs(order.qty)
        if order.side == sides.SELL:
            if order.type == order_types.STOP:
                self.stop_orders_sum[sym] = subtract_floats(self.stop_orders_sum[sym], size)
            elif order.type == order_types.LIMIT:
                self.limit_orders_sum[sym] = subtract_floats(self.limit_orders_sum[sym], size)

        base_asset = jh.base_asset(sym)

        # buy order
        if order.side == sides.BUY:
            # asset's balance""")], None, ["C04"]),
    ("refactor-spot-cancellation-early-return", "jesse/models/SpotExchange.py", [("""        # buy order
        if order.side == sides.BUY:
            self.assets[self.settlement_currency] = sum_floats(self.assets[self.settlement_currency], abs(order.qty) * order.price)
        # sell order: the reserved""", """        if order.side != sides.BUY:
            return
        self.assets[self.settlement_currency] = sum_floats(self.assets[self.settlement_currency], abs(order.qty) * order.price)
        # sell order: the reserved""")], None, ["C04"]),
]
SILENT += [
    ("refactor-position-close-test-commuted", "jesse/models/Position.py", [("            elif (sum_floats(self.qty, qty)) == 0:\n", "            elif sum_floats(qty, self.qty) == 0:\n")], None, ["C03", "C04", "C06", "C09"]),
    ("refactor-wma-weights-form", "jesse/indicators/wma.py", [("    weights = np.arange(1, period + 1)\n    weight_sum = weights.sum()\n", "    weights = np.arange(period) + 1\n    weight_sum = np.sum(weights)\n")], None, ["C13", "C14", "C15"]),
    ("refactor-mfi-typical-price-form", "jesse/indicators/mfi.py", [("    typical_prices = (high + low + close) / 3.0\n", "    hlc3 = high + low + close\n    typical_prices = hlc3 / 3.0\n")], None, ["C13", "C14", "C15"]),
    ("refactor-mfi-strict-tests-swapped", "jesse/indicators/mfi.py", [("np.where(typical_prices[1:] > typical_prices[:-1], raw_mf[1:], 0)", "np.where(typical_prices[:-1] < typical_prices[1:], raw_mf[1:], 0)")], None, ["C13", "C14", "C15"]),
    ("refactor-wma-locals", "jesse/indicators/wma.py", _rename_in_function("weighted_moving_average_custom", {"windowed": "views", "result": "out"}), None, ["C13", "C14", "C15"]),
]


# ---- fifth batch: whole files re-printed from their syntax tree (comments gone, layout and quoting normalised, parentheses minimal):
# nothing a rule decides may depend on the text of the source
def _reprint(src):
    import ast as _ast
    return _ast.unparse(_ast.parse(src)) + "\n"


_ALL = ["C%02d" % i for i in range(1, 21)]
SILENT += [
    ("reprint-backtest-mode", BT, _reprint, None, ["C01", "C02", "C05", "C07", "C08", "C09", "C11", "C12", "C16", "C20"]),
    ("reprint-position", "jesse/models/Position.py", _reprint, None, ["C03", "C04", "C06", "C09"]),
    ("reprint-spot-exchange", "jesse/models/SpotExchange.py", _reprint, None, ["C04", "C17"]),
    ("reprint-futures-exchange", "jesse/models/FuturesExchange.py", _reprint, None, ["C03", "C17", "C09"]),
    ("reprint-strategy", "jesse/strategies/Strategy.py", _reprint, None, ["C05", "C06", "C10", "C19", "C11"]),
    ("reprint-order", "jesse/models/Order.py", _reprint, None, ["C05", "C03", "C11"]),
    ("reprint-closed-trade", "jesse/models/ClosedTrade.py", _reprint, None, ["C06"]),
    ("reprint-state-candles", "jesse/store/state_candles.py", _reprint, None, ["C01", "C07", "C20"]),
    ("reprint-state-orders", "jesse/store/state_orders.py", _reprint, None, ["C05", "C02"]),
    ("reprint-helpers", "jesse/helpers.py", _reprint, None, ["C17", "C19", "C10", "C07", "C13"]),
    ("reprint-utils", "jesse/utils.py", _reprint, None, ["C17", "C07", "C04"]),
    ("reprint-candle-service", "jesse/services/candle.py", _reprint, None, ["C02", "C07", "C08", "C20"]),
    ("reprint-metrics", "jesse/services/metrics.py", _reprint, None, ["C16"]),
    ("reprint-research-backtest", "jesse/research/backtest.py", _reprint, None, ["C11", "C20"]),
    ("reprint-dna", _DNA, _reprint, None, ["C18"]),
    ("reprint-ma", "jesse/indicators/ma.py", _reprint, None, ["C13", "C14", "C15"]),
    ("reprint-stochastic", "jesse/indicators/stochastic.py", _reprint, None, ["C13", "C14", "C15"]),
]
SILENT += [
    ("reprint-rsi", "jesse/indicators/rsi.py", _reprint, None, ["C13", "C14", "C15"]),
    ("reprint-atr", "jesse/indicators/atr.py", _reprint, None, ["C13", "C14", "C15"]),
    ("reprint-kdj", "jesse/indicators/kdj.py", _reprint, None, ["C13", "C14", "C15"]),
]


# ---- round 5: the behaviour-preserving twin of each seeded idea (the refactoring done right), and the seeds' reversals that have no
# seed directory of their own
SILENT += [
    ("r5-market-flush-as-pop-loop", "jesse/store/state_orders.py",
     "        for o in self.to_execute:\n            o.execute()\n\n        self.to_execute = []",
     "        while self.to_execute:\n            o = self.to_execute.pop(0)\n            o.execute()", ["C02", "C05", "C12"]),
    ("r5-max-drawdown-cummax", "jesse/services/metrics.py", "prices.expanding(min_periods=0).max()", "prices.cummax()", ["C16"]),
    ("r5-charset-generated-inclusive", "jesse/modes/optimize_mode/Optimize.py",
     "charset: str = r'()*+,-./0123456789:;<=>?@ABCDEFGHIJKLMNOPQRSTUVWXYZ[\\]^_`abcdefghijklmnopqrstuvw',",
     "charset: str = ''.join(map(chr, range(40, 120))),", ["C19"]),
    ("r5-risk-to-qty-augmented-assign", "jesse/utils.py", "        size = size * (1 - fee_rate * 3)", "        size *= (1 - 3 * fee_rate)", ["C17"]),
    ("r5-cancel-guard-reordered", "jesse/models/Order.py",
     "    def cancel(self, silent=False, source='') -> None:\n        if self.is_canceled or self.is_executed:\n            return",
     "    def cancel(self, silent=False, source='') -> None:\n        if self.is_executed or self.is_canceled:\n            return", ["C04", "C05"]),
    ("r5-tsi-ema-as-recursion", "jesse/indicators/tsi.py",
     "    t_arr = np.arange(n)\n    # Calculate the contribution from the first element\n    ema_vals = series[0] * ((1 - alpha) ** t_arr)\n    if n > 1:\n"
     "        # For t>=1, add the convolution of the rest of the series with the weights alpha*(1-alpha)^(t)\n"
     "        conv = np.convolve(series[1:], alpha * ((1 - alpha) ** np.arange(n - 1)), mode='full')[:n-1]\n        ema_vals[1:] += conv\n    return ema_vals",
     "    ema_vals = np.empty(n)\n    ema_vals[0] = series[0]\n    for i in range(1, n):\n        ema_vals[i] = alpha * series[i] + (1 - alpha) * ema_vals[i - 1]\n    return ema_vals",
     ["C13", "C14"]),
    ("r5-liquidation-price-cache-reset-everywhere", "jesse/models/Position.py",
     [("        self._liquidation_price = None\n", "        self._liquidation_price = None\n        self._isolated_liq = None\n"),
      ("            if self.type == 'long':\n                return self.entry_price * (1 - self._initial_margin_rate + 0.004)\n"
       "            elif self.type == 'short':\n                return self.entry_price * (1 + self._initial_margin_rate - 0.004)\n"
       "            else:\n                return np.nan\n",
       "            if self._isolated_liq is not None and self._isolated_liq[0] == self.entry_price and self._isolated_liq[1] == self.type:\n"
       "                return self._isolated_liq[2]\n"
       "            if self.type == 'long':\n                value = self.entry_price * (1 - self._initial_margin_rate + 0.004)\n"
       "            elif self.type == 'short':\n                value = self.entry_price * (1 + self._initial_margin_rate - 0.004)\n"
       "            else:\n                return np.nan\n"
       "            self._isolated_liq = (self.entry_price, self.type, value)\n            return value\n")],
     None, ["C09"]),
]

SILENT += [
    ("r5-fast-skip-ahead-inclusive", BT,
     "        for i in range(len(short_timeframes_candles)):\n            current_temp_candle = short_timeframes_candles[i].copy()\n            if i > 0:",
     "        prices = np.array([o.price for o in executing_orders])\n"
     "        reached = ((short_timeframes_candles[:, 4, None] <= prices) & (prices <= short_timeframes_candles[:, 3, None])).any(axis=1)\n"
     "        first_minute = int(reached.argmax()) if reached.any() else len(short_timeframes_candles)\n"
     "        if first_minute > 0:\n            store.candles.add_multiple_1m_candles(short_timeframes_candles[:first_minute], exchange, symbol)\n"
     "        for i in range(first_minute, len(short_timeframes_candles)):\n            current_temp_candle = short_timeframes_candles[i].copy()\n            if i > 0:",
     ["C12", "C02", "C07", "C01"]),
]
# skipping ahead to the first touched minute WITHOUT storing the minutes before it: the hook of that fill finds a hole in the 1m store
FIRING += [
    ("r5-fast-skip-ahead-without-storing", BT,
     "        for i in range(len(short_timeframes_candles)):\n            current_temp_candle = short_timeframes_candles[i].copy()\n            if i > 0:",
     "        prices = np.array([o.price for o in executing_orders])\n"
     "        reached = ((short_timeframes_candles[:, 4, None] <= prices) & (prices <= short_timeframes_candles[:, 3, None])).any(axis=1)\n"
     "        first_minute = int(reached.argmax()) if reached.any() else len(short_timeframes_candles)\n"
     "        for i in range(first_minute, len(short_timeframes_candles)):\n            current_temp_candle = short_timeframes_candles[i].copy()\n            if i > 0:",
     ["C12"]),
]

# ---- C15-R6 / R7: ranges, orderings, homogeneity (indicators outside the definition tables)
FIRING += [
    ("r6-ultosc-weights-over-6", "jesse/indicators/ultosc.py", "    ult = 100 * (4 * avg1 + 2 * avg2 + avg3) / 7", "    ult = 100 * (4 * avg1 + 2 * avg2 + avg3) / 6", ["C15"]),
    ("r6-cmo-denominator-gains-only", "jesse/indicators/cmo.py", "                result[i] = 100.0 * (pos_sum - neg_sum) / denom",
     "                result[i] = 100.0 * (pos_sum - neg_sum) / max(pos_sum, 1e-12)", ["C15"]),
    ("r6-aroon-window-off-by-one", "jesse/indicators/aroon.py", "            aroon_up[period:] = 100 * (np.argmax(windows_high, axis=1) / period)",
     "            aroon_up[period:] = 100 * (np.argmax(windows_high, axis=1) / (period - 1))", ["C15"]),
    ("r7-swma-offset", "jesse/indicators/swma.py", "    res = np.average(swv, weights=triangle, axis=-1)", "    res = np.average(swv, weights=triangle, axis=-1) + 0.5", ["C15"]),
]
SILENT += [
    ("r6-ultosc-rearranged", "jesse/indicators/ultosc.py", "    ult = 100 * (4 * avg1 + 2 * avg2 + avg3) / 7", "    ult = (400 * avg1 + 200 * avg2 + 100 * avg3) / 7.0", ["C15"]),
    ("r6-cmo-rearranged", "jesse/indicators/cmo.py", "                result[i] = 100.0 * (pos_sum - neg_sum) / denom",
     "                result[i] = (pos_sum - neg_sum) / denom * 100.0", ["C15"]),
]

SILENT += [
    ("r6-decimal-helper-extracted", "jesse/utils.py",
     [("def subtract_floats(float1: float, float2: float) -> float:", "def _to_decimal(value: float) -> Decimal:\n    return Decimal(str(value))\n\n\ndef subtract_floats(float1: float, float2: float) -> float:"),
      ("    return float(Decimal(str(float1)) - Decimal(str(float2)))", "    return float(_to_decimal(float1) - _to_decimal(float2))"),
      ("    return float(Decimal(str(float1)) + Decimal(str(float2)))", "    a, b = _to_decimal(float1), _to_decimal(float2)\n    return float(a + b)")],
     None, ["C17", "C04", "C03"]),
]

# ---- round 6 twins
SILENT += [
    # the seeded idea done right: centre the series on a COPY (a fresh array), the variance does not change
    ("r6-var-centred-on-a-copy", "jesse/indicators/var.py",
     "    source = get_candle_source(candles, source_type=source_type)\n    n = len(source)",
     "    source = get_candle_source(candles, source_type=source_type)\n    source = source - source[0]\n    n = len(source)", ["C15", "C14", "C13"]),
    # a memo of the derived sources keyed by the whole content of the window
    ("r6-derived-source-memo-by-content", "jesse/helpers.py",
     [("def get_candle_source(candles: np.ndarray, source_type: str = \"close\") -> np.ndarray:",
       "_SOURCE_MEMO = {}\n\n\ndef _hl2(candles: np.ndarray) -> np.ndarray:\n    key = candles.tobytes()\n    if key not in _SOURCE_MEMO:\n"
       "        if len(_SOURCE_MEMO) > 64:\n            _SOURCE_MEMO.clear()\n        _SOURCE_MEMO[key] = (candles[:, 3] + candles[:, 4]) / 2\n    return _SOURCE_MEMO[key].copy()\n\n\n"
       "def get_candle_source(candles: np.ndarray, source_type: str = \"close\") -> np.ndarray:"),
      ("    elif source_type == \"hl2\":\n        return (candles[:, 3] + candles[:, 4]) / 2", "    elif source_type == \"hl2\":\n        return _hl2(candles)")],
     None, ["C14", "C13"]),
]

SILENT += [
    # the 1m count hoisted out of the route loop - AFTER the partial 1m candle is stored (the seeded version read it before)
    ("r6-partial-count-hoisted-after-store", BT,
     [("        with_generation=False,\n    )\n\n    for route in router.all_formatted_routes:\n        timeframe = route['timeframe']\n        if route['exchange'] != exchange or route['symbol'] != symbol:",
       "        with_generation=False,\n    )\n    stored_1m = len(store.candles.get_storage(exchange, symbol, '1m'))\n\n    for route in router.all_formatted_routes:\n        timeframe = route['timeframe']\n        if route['exchange'] != exchange or route['symbol'] != symbol:"),
      ("        count_1m = len(store.candles.get_storage(exchange, symbol, '1m'))\n", "        count_1m = stored_1m\n")],
     None, ["C07", "C12", "C01"]),
]

SILENT += [
    # the early return of the fill function done right: the batch is complete only if it also ENDS at the requested end
    ("r6-fill-absent-early-return-complete-batch", "jesse/modes/import_candles_mode/__init__.py",
     "    loop_length = ((end_timestamp - start_timestamp) / 60000) + 1\n\n    for _ in range(int(loop_length)):",
     "    loop_length = ((end_timestamp - start_timestamp) / 60000) + 1\n\n"
     "    if len(temp_candles) == int(loop_length) and first_candle['timestamp'] == start_timestamp and temp_candles[-1]['timestamp'] == end_timestamp \\\n"
     "            and all(b['timestamp'] - a['timestamp'] == 60000 for a, b in zip(temp_candles, temp_candles[1:])):\n        return temp_candles\n\n"
     "    for _ in range(int(loop_length)):", ["C20"]),
    # the duplicate-delivery guard of the position hook keyed by the order AND the size it leaves (a flip delivers one order twice with two sizes)
    ("r6-duplicate-delivery-guard-with-size", "jesse/strategies/Strategy.py",
     [("    def _on_updated_position(self, order: Order) -> None:", "    def _on_updated_position(self, order: Order) -> None:\n        marker = (order.id, self.position.qty)\n"
       "        if getattr(self, '_last_delivery', None) == marker:\n            return\n        self._last_delivery = marker")],
     None, ["C06", "C03"]),
]


# ---- round 7 twins
def _max_timeframe_by_key(src):
    """max_timeframe rewritten as max(.., key=minutes) over a TUPLE of the supported timeframes (the seeded version tested membership
    in a one-shot generator)"""
    import ast as _ast
    t = _ast.parse(src)
    fn = [n for n in t.body if isinstance(n, _ast.FunctionDef) and n.name == "max_timeframe"]
    if not fn:
        return None
    fn = fn[0]
    lines = src.split("\n")
    first = fn.body[0]
    start = first.lineno - 1
    if isinstance(first, _ast.Expr) and isinstance(first.value, _ast.Constant) and isinstance(first.value.value, str):
        start = fn.body[1].lineno - 1
    end = fn.end_lineno
    body = ["    from jesse.enums import timeframes", "    from jesse.utils import timeframe_to_one_minutes as _minutes",
            "    supported = tuple(class_iter(timeframes))",
            "    candidates = [t for t in timeframes_list if t in supported]",
            "    if not candidates:",
            "        return timeframes.MINUTE_1",
            "    return max(candidates, key=_minutes)"]
    return "\n".join(lines[:start] + body + lines[end:])


SILENT += [
    ("r7-max-timeframe-by-key-over-a-tuple", "jesse/helpers.py", _max_timeframe_by_key, None, ["C17"]),
    # growing into a NEW array with np.resize (the function, not the in-place method)
    ("r7-grow-with-np-resize-function", "jesse/libs/dynamic_numpy_array/__init__.py",
     "            new_bucket = np.zeros(self.shape)\n            self.array = np.concatenate((self.array, new_bucket), axis=0)",
     "            grown = np.zeros((len(self.array) + self.shape[0],) + self.array.shape[1:])\n            grown[:len(self.array)] = self.array\n            self.array = grown", ["C18"]),
]
