"""C05 - order lifecycle: one terminal transition, idempotent execute/cancel, active registry, one trade record."""
from __future__ import annotations

import ast
from fractions import Fraction

from vlib.absint import Interp, Obj, FuncV, explore, R, num, Unknown, NotInFragment
from vlib.loader import Repo, AnalysisError, norm
from vlib import world as W
from vlib import simloops as SL

ORDER = W.ORDER_PY
ORDERS_STATE = "jesse/store/state_orders.py"
TRADES_STATE = "jesse/store/state_completed_trades.py"
SANDBOX = "jesse/exchanges/sandbox/Sandbox.py"

SAMPLES = [{"q": Fraction(2), "p": Fraction(10), "now": Fraction(1000), "t_created": Fraction(0)}]


def _world(repo, it: Interp, reentrant: str = None):
    """exchange / position / trade store as event sinks; optional re-entrant hook that calls
    execute() or cancel() on the same order from inside the position hook."""
    exch = Obj("Exchange", name="exchange", attrs={}, open_world=True)
    for h in ("on_order_execution", "on_order_cancellation", "on_order_submission"):
        W.bind(exch, h, (lambda hh: (lambda i, a, k: i.event("ledger", hh, a[0].name)))(h))
    trades = Obj("ClosedTrades", name="store.completed_trades", attrs={})
    W.bind(trades, "add_executed_order", lambda i, a, k: i.event("trade_record", a[0].name))
    pos = Obj("Position", name="position", attrs={}, open_world=True)

    def hook(i, a, k):
        i.event("position_hook", a[0].name, a[0].attrs.get("status"))
        if reentrant:
            i.call(i.getattr(a[0], reentrant), [], {})
    W.bind(pos, "_on_executed_order", hook)
    store = Obj("StoreClass", name="store", attrs={"completed_trades": trades}, open_world=True)
    it.overrides[f"{W.STORE}:store"] = store
    it.stubs[f"{W.SELECTORS}:get_exchange"] = lambda i, a, k: exch
    it.stubs[f"{W.SELECTORS}:get_position"] = lambda i, a, k: pos


def _effects(events, name="O"):
    return [e for e in events if e[0] in ("ledger", "trade_record", "position_hook")]


def check_transitions(repo, rep):
    rid = "C05-R1"
    rep.rule(rid, "Order.execute / Order.cancel interpreted on an order in every status, singly and in all two-call "
                  "sequences (also re-entrantly from the position hook): an ACTIVE order makes exactly one transition with "
                  "exactly one ledger posting, one trade record (execute) and one position update; a final order changes "
                  "nothing; the status is final before any side effect runs")
    st = {k: W.enum_value(repo, "order_statuses", k) for k in ("ACTIVE", "EXECUTED", "CANCELED")}
    buy = W.enum_value(repo, "sides", "BUY")
    limit = W.enum_value(repo, "order_types", "LIMIT")
    mod = repo.module(ORDER)
    for start in ("ACTIVE", "EXECUTED", "CANCELED"):
        for seq in (("execute",), ("cancel",), ("execute", "execute"), ("execute", "cancel"),
                    ("cancel", "execute"), ("cancel", "cancel")):
            for reentrant in (None, "execute", "cancel"):
                if reentrant and seq[0] != "execute":
                    continue
                key = f"{start}:{'+'.join(seq)}" + (f":hook-calls-{reentrant}" if reentrant else "")

                def mk(dec):
                    it = Interp(repo, stubs=W.base_stubs(), overrides={}, samples=[dict(s) for s in SAMPLES], decisions=dec)
                    _world(repo, it, reentrant)
                    o = W.make_order(repo, "O", buy, limit, R.atom("q"), R.atom("p"), status=st[start])
                    it.order = o

                    def thunk(it):
                        marks = []
                        for m in seq:
                            it.event("begin", m)
                            it.call(it.getattr(o, m), [], {})
                        return o
                    return it, thunk
                try:
                    outs = explore(mk, 32)
                except NotInFragment as e:
                    if reentrant and "call depth exceeded" in str(e):
                        # the hook re-enters the transition without bound: the order was not final when side effects ran
                        rep.violation(rid, f"{seq[0]}-status-before-effects",
                                      f"{key}: {seq[0]}() re-entered from the position hook recurses without bound - the status is not final before side effects run")
                        continue
                    raise
                for out in outs:
                    if out.kind != "return":
                        rep.violation(rid, key, f"{key}: raises {out.value}")
                        continue
                    o = out.interp.order
                    final = o.attrs["status"]
                    # split events per call
                    calls = []
                    for e in out.events:
                        if e[0] == "begin":
                            calls.append((e[1], []))
                        elif calls:
                            calls[-1][1].append(e)
                    status = st[start]
                    for idx, (m, evs) in enumerate(calls):
                        eff = _effects(evs)
                        stores = [e for e in evs if e[0] == "store" and e[1] == "O" and e[2] == "status"]
                        if status != st["ACTIVE"]:
                            if eff or stores or o.attrs["status"] != final:
                                pass
                            if eff:
                                rep.violation(rid, f"{m}-on-final", f"{key}: {m}() on a {status} order has effects {[(e[0], e[1]) for e in eff]}")
                            if stores:
                                rep.violation(rid, f"{m}-on-final", f"{key}: {m}() on a {status} order rewrites its status to {stores[-1][3]!r}")
                        else:
                            want = st["EXECUTED"] if m == "execute" else st["CANCELED"]
                            if not stores or stores[-1][3] != want:
                                rep.violation(rid, f"{m}-transition", f"{key}: {m}() on an ACTIVE order does not set status {want}")
                            if len(stores) > 1:
                                rep.violation(rid, f"{m}-transition", f"{key}: {m}() writes the status {len(stores)} times")
                            led = [e for e in eff if e[0] == "ledger"]
                            rec = [e for e in eff if e[0] == "trade_record"]
                            hk = [e for e in eff if e[0] == "position_hook"]
                            exp_led = "on_order_execution" if m == "execute" else "on_order_cancellation"
                            if [e[1] for e in led] != [exp_led]:
                                rep.violation(rid, f"{m}-ledger", f"{key}: {m}() posts to the exchange ledger {[e[1] for e in led]} (expected exactly [{exp_led}])")
                            if m == "execute" and (len(rec) != 1 or len(hk) != 1):
                                rep.violation(rid, "execute-records", f"{key}: execute() makes {len(rec)} trade records and {len(hk)} position updates (expected 1 and 1)")
                            if m == "cancel" and (rec or hk):
                                rep.violation(rid, "cancel-records", f"{key}: cancel() touches trade records / position")
                            # status is final before the first side effect (re-entrancy safety)
                            first_eff = next((i for i, e in enumerate(evs) if e in eff), None)
                            first_store = next((i for i, e in enumerate(evs) if e in stores), None)
                            if first_eff is not None and (first_store is None or first_store > first_eff):
                                rep.violation(rid, f"{m}-status-before-effects", f"{key}: {m}() runs side effects before the status is final")
                            if hk and hk[0][2] != want:
                                rep.violation(rid, f"{m}-status-before-effects", f"{key}: position hook sees status {hk[0][2]!r}")
                            status = want
                    rep.instance(rid, key, {"case": key, "final_status": final,
                                            "effects": [(e[0], e[1]) for e in _effects(out.events)]})
    rep.floor(rid, 20)


def check_status_writers(repo, rep):
    rid = "C05-R2"
    rep.rule(rid, "typestate: stores to an order's status occur only inside Order.{queue,resubmit,cancel,execute,"
                  "execute_partially}; the live-only transitions (queue/resubmit/execute_partially) are not called "
                  "from backtest modules")
    allowed = {"queue", "resubmit", "cancel", "execute", "execute_partially", "__init__"}
    from props.c02 import SCOPE
    n = 0
    for rel in sorted(set(SCOPE + ["jesse/services/candle.py", "jesse/store/state_positions.py"])):
        mod = repo.module(rel)
        for fn in [x for x in ast.walk(mod.tree) if isinstance(x, ast.FunctionDef)]:
            for node in ast.walk(fn):
                tg = []
                if isinstance(node, ast.Assign):
                    tg = node.targets
                elif isinstance(node, ast.AugAssign):
                    tg = [node.target]
                for t in tg:
                    if isinstance(t, ast.Attribute) and t.attr == "status":
                        n += 1
                        if not (rel == ORDER and fn.name in allowed):
                            rep.violation(rid, f"{rel}:{fn.name}|{norm(t)}", f"{rel}:{fn.name} writes an order status outside the Order transitions: {norm(node)[:90]}")
                if isinstance(node, ast.Call) and isinstance(node.func, ast.Attribute) and node.func.attr in ("queue", "resubmit", "execute_partially"):
                    if rel != ORDER:
                        rep.violation(rid, f"{rel}:{fn.name}|{node.func.attr}", f"{rel}:{fn.name} calls the live-only transition {norm(node.func)}()")
            rep.instance(rid, f"{rel}:{fn.name}")
    if n < 2:
        raise AnalysisError(f"C05-R2: only {n} status stores found in Order (expected >= 2): anchor moved")
    rep.extra["status_store_sites"] = n


def check_trade_record(repo, rep):
    rid = "C05-R3"
    rep.rule(rid, "ClosedTrades.add_executed_order appends a fully executed order to the current trade's order list "
                  "exactly once, stamps its trade_id, and records one (|qty|, price) row on the order's side")
    buy, sell = W.enum_value(repo, "sides", "BUY"), W.enum_value(repo, "sides", "SELL")
    limit = W.enum_value(repo, "order_types", "LIMIT")
    executed = W.enum_value(repo, "order_statuses", "EXECUTED")
    for side in (buy, sell):
        def selfobj(it):
            trade = Obj("ClosedTrade", name="trade", attrs={"id": "T1", "orders": [], "buy_orders": _rows("buy_rows"),
                                                           "sell_orders": _rows("sell_rows")}, open_world=True)
            ct = W.obj_of(repo, TRADES_STATE, "ClosedTrades", "completed_trades", {"trades": [], "tempt_trades": {"Sandbox-BTC-USDT": trade}})
            it.trade = trade
            return ct

        def args(it):
            o = W.make_order(repo, "O", side, limit, R.atom("q"), R.atom("p"), status=executed)
            it.order = o
            return [o], {}
        outs = W.run_function(repo, TRADES_STATE, "ClosedTrades.add_executed_order", args, self_obj_factory=selfobj,
                              samples=[{"q": Fraction(2), "p": Fraction(10)}, {"q": Fraction(-2), "p": Fraction(7)}])
        for out in outs:
            key = f"add_executed_order|{side}"
            if out.kind != "return":
                rep.violation(rid, key, f"add_executed_order raises {out.value} for a {side} order")
                continue
            t, o = out.interp.trade, out.interp.order
            if t.attrs["orders"].count(o) != 1:
                rep.violation(rid, key + "|orders", f"executed {side} order appears {t.attrs['orders'].count(o)} times in the trade's order list")
            if o.attrs.get("trade_id") != "T1":
                rep.violation(rid, key + "|trade_id", f"trade_id of the executed order is {o.attrs.get('trade_id')!r}, not the current trade's id")
            rows = {e[1]: e[2] for e in out.events if e[0] == "row"}
            want = "buy_rows" if side == buy else "sell_rows"
            allrows = [e for e in out.events if e[0] == "row"]
            if len(allrows) != 1 or allrows[0][1] != want:
                rep.violation(rid, key + "|rows", f"{side} fill recorded as rows {[(e[1]) for e in allrows]} (expected one row in {want})")
            else:
                r = allrows[0][2]
                s = out.interp.samples[0]
                q = s["q"]
                vals = [out.interp.numeric(x, s) for x in r.items] if hasattr(r, "items") else None
                if vals != [abs(q), s["p"]]:
                    rep.violation(rid, key + "|rowvalue", f"{side} fill recorded as {r!r}, expected (|qty|, price)")
            rep.instance(rid, key, {"side": side, "rows": [(e[1], repr(e[2])) for e in allrows]})
    rep.floor(rid, 2)


def _rows(name):
    o = Obj("DynamicNumpyArray", name=name, attrs={})
    W.bind(o, "append", lambda i, a, k: i.event("row", name, a[0]))
    return o


def check_registry(repo, rep):
    rid = "C05-R4"
    rep.rule(rid, "active registry: add_order registers in both lists; update_active_orders keeps exactly the orders "
                  "that are neither executed nor cancelled; count_active_orders, _get_executing_orders and "
                  "Sandbox.cancel_all_orders act on ACTIVE orders only; update_active_orders runs for every route in "
                  "every step of both simulators")
    st = {k: W.enum_value(repo, "order_statuses", k) for k in ("ACTIVE", "EXECUTED", "CANCELED")}
    buy = W.enum_value(repo, "sides", "BUY")
    limit = W.enum_value(repo, "order_types", "LIMIT")
    KEY = "Sandbox-BTC-USDT"

    # (the two non-final orders differ in type, side and reduce_only from each other: "active" is a matter of the status alone - a
    # queued MARKET order that is still ACTIVE is cancelled by cancel-all like a resting one)
    sell = W.enum_value(repo, "sides", "SELL")
    types = {k: W.enum_value(repo, "order_types", k) for k in ("LIMIT", "STOP", "MARKET")}

    def mk_orders():
        spec = (("ACTIVE", "STOP", buy, False), ("EXECUTED", "LIMIT", buy, False), ("CANCELED", "MARKET", sell, True), ("ACTIVE", "MARKET", sell, True))
        return [W.make_order(repo, f"O{i}", side, types[t], R.atom("q") if side is buy else -R.atom("q"), R.atom("p"), status=st[s], reduce_only=ro)
                for i, (s, t, side, ro) in enumerate(spec)]

    def state(it):
        os_ = mk_orders()
        it.orders = os_
        obj = W.obj_of(repo, ORDERS_STATE, "OrdersState", "store.orders",
                       {"storage": {KEY: list(os_)}, "active_storage": {KEY: list(os_)}, "to_execute": []})
        it.state = obj
        return obj

    smp = [{"q": Fraction(1), "p": Fraction(10), "l": Fraction(5), "h": Fraction(20), "o": Fraction(6), "c": Fraction(7),
            "ts": Fraction(0), "v": Fraction(1), "now": Fraction(5), "t_created": Fraction(0)}]
    # update_active_orders
    for out in W.run_function(repo, ORDERS_STATE, "OrdersState.update_active_orders", lambda it: (["Sandbox", "BTC-USDT"], {}),
                              self_obj_factory=state, samples=smp):
        left = [o.name for o in out.interp.state.attrs["active_storage"][KEY]] if out.kind == "return" else None
        if left != ["O0", "O3"]:
            rep.violation(rid, "update_active_orders", f"update_active_orders keeps {left}, expected exactly the non-final orders ['O0', 'O3']")
        rep.instance(rid, "update_active_orders", {"kept": left})
    # count_active_orders
    for out in W.run_function(repo, ORDERS_STATE, "OrdersState.count_active_orders", lambda it: (["Sandbox", "BTC-USDT"], {}),
                              self_obj_factory=state, samples=smp):
        v = out.value
        if not (out.kind == "return" and isinstance(v, R) and v.is_const() and v.const_value() == 2):
            rep.violation(rid, "count_active_orders", f"count_active_orders returns {v!r} for 2 active of 4 registered orders")
        rep.instance(rid, "count_active_orders", {"count": repr(v)})
    # add_order
    def add_args(it):
        it.new = W.make_order(repo, "N", buy, limit, R.atom("q"), R.atom("p"), status=st["ACTIVE"])
        return [it.new], {}
    for out in W.run_function(repo, ORDERS_STATE, "OrdersState.add_order", add_args, self_obj_factory=state, samples=smp):
        stt = out.interp.state
        ok = out.kind == "return" and stt.attrs["storage"][KEY].count(out.interp.new) == 1 and stt.attrs["active_storage"][KEY].count(out.interp.new) == 1
        if not ok:
            rep.violation(rid, "add_order", "add_order does not register the order exactly once in both storage and active_storage")
        rep.instance(rid, "add_order")
    # _get_executing_orders
    def ov():
        return {}
    def geo_args(it):
        stt = state(it)
        it.overrides[f"{W.STORE}:store"] = Obj("StoreClass", name="store", attrs={"orders": stt}, open_world=True)
        return ["Sandbox", "BTC-USDT", W.candle()], {}
    for out in W.run_function(repo, W.BT, "_get_executing_orders", geo_args, samples=smp, overrides=ov):
        got = [o.name for o in out.value] if out.kind == "return" and isinstance(out.value, list) else None
        if got != ["O0", "O3"]:
            rep.violation(rid, "_get_executing_orders", f"_get_executing_orders returns {got} for touched orders of which only O0,O3 are active")
        rep.instance(rid, "_get_executing_orders", {"candidates": got})
    # Sandbox.cancel_all_orders
    def sb_self(it):
        stt = state(it)
        for o in it.orders:
            W.bind(o, "cancel", (lambda oo: (lambda i, a, k: i.event("cancel", oo.name)))(o))
        it.overrides[f"{W.STORE}:store"] = Obj("StoreClass", name="store", attrs={"orders": stt}, open_world=True)
        return W.obj_of(repo, SANDBOX, "Sandbox", "sandbox", {"name": "Sandbox"})
    for out in W.run_function(repo, SANDBOX, "Sandbox.cancel_all_orders", lambda it: (["BTC-USDT"], {}), self_obj_factory=sb_self,
                              samples=smp, overrides=ov):
        got = [e[1] for e in out.events if e[0] == "cancel"]
        if out.kind != "return" or got != ["O0", "O3"]:
            rep.violation(rid, "Sandbox.cancel_all_orders", f"cancel_all_orders cancels {got}; expected every active order ['O0', 'O3']")
        rep.instance(rid, "Sandbox.cancel_all_orders", {"cancelled": got})
    # ... and with the repository's own Order.cancel (which may itself touch the registry): a MARKET order still queued for execution,
    # followed by a resting STOP and a LIMIT - a stop-and-reverse in one step; every one of them must end CANCELED
    sell = W.enum_value(repo, "sides", "SELL")
    market, stop = W.enum_value(repo, "order_types", "MARKET"), W.enum_value(repo, "order_types", "STOP")

    def mk_all(dec):
        it = Interp(repo, stubs=W.base_stubs(), samples=[dict(x) for x in smp] if smp else [], decisions=dec)
        _world(repo, it)
        os_ = [W.make_order(repo, "MKT", sell, market, -R.atom("q"), R.atom("p"), status=st["ACTIVE"]),
               W.make_order(repo, "STP", buy, stop, R.atom("q"), R.atom("p"), status=st["ACTIVE"]),
               W.make_order(repo, "LMT", buy, limit, R.atom("q"), R.atom("p"), status=st["ACTIVE"])]
        stt = W.obj_of(repo, ORDERS_STATE, "OrdersState", "store.orders", {"storage": {KEY: list(os_)}, "active_storage": {KEY: list(os_)}, "to_execute": [os_[0]]})
        store = it.overrides[f"{W.STORE}:store"]
        store.attrs["orders"] = stt
        sb = W.obj_of(repo, SANDBOX, "Sandbox", "sandbox", {"name": "Sandbox"})
        it.os_ = os_
        return it, lambda it: it.call(it.getattr(sb, "cancel_all_orders"), ["BTC-USDT"], {})
    for out in explore(mk_all, 32):
        left = [o.name for o in out.interp.os_ if o.attrs.get("status") != st["CANCELED"]]
        if out.kind != "return" or left:
            rep.violation(rid, "Sandbox.cancel_all_orders|queued-market-first", f"cancel_all_orders with a queued MARKET order followed by a STOP and a LIMIT (all ACTIVE): "
                          f"{left} not CANCELED afterwards" + (f" ({out.value})" if out.kind != "return" else ""))
        rep.instance(rid, "Sandbox.cancel_all_orders|queued-market-first", {"left_active": left})
    # pruning in every step for every route: both simulator functions interpreted on mini sessions (props/sessions.py)
    from props import sessions as S
    S.check_protocol(repo, rep, rid, what="prune")
    rep.floor(rid, 8)


def check_cancel_hook_submission(repo, rep, rid="C05-R4c"):
    rep.rule(rid, "an order submitted from a hook that runs inside Strategy._execute_cancel (on_cancel / on_route_canceled) stays reported: "
                  "_execute_cancel is interpreted in backtest mode (not unit testing) with an on_cancel hook that registers a new ACTIVE "
                  "order; afterwards that order must still be in OrdersState.storage and active_storage - otherwise it is an active "
                  "order nobody can see, execute or cancel")
    st = {k: W.enum_value(repo, "order_statuses", k) for k in ("ACTIVE", "EXECUTED", "CANCELED")}
    buy = W.enum_value(repo, "sides", "BUY")
    limit = W.enum_value(repo, "order_types", "LIMIT")
    KEY = "Sandbox-BTC-USDT"
    STRAT = "jesse/strategies/Strategy.py"

    def mk(dec):
        it = Interp(repo, stubs=W.base_stubs(), decisions=dec, samples=[{"q": Fraction(1), "p": Fraction(10), "now": Fraction(5), "t_created": Fraction(0)}])
        it.stubs[f"{W.HELPERS}:is_unit_testing"] = lambda i, a, k: False
        old = W.make_order(repo, "OLD", buy, limit, R.atom("q"), R.atom("p"), status=st["CANCELED"])
        orders = W.obj_of(repo, ORDERS_STATE, "OrdersState", "store.orders", {"storage": {KEY: [old]}, "active_storage": {KEY: [old]}, "to_execute": []})
        it.overrides[f"{W.STORE}:store"] = Obj("StoreClass", name="store", attrs={"orders": orders}, open_world=True)
        pos = Obj("Position", name="position", attrs={"is_open": False, "is_close": True}, open_world=True)
        broker = Obj("Broker", name="broker", attrs={}, open_world=True)
        W.bind(broker, "cancel_all_orders", lambda i, a, k: None)
        strat = W.obj_of(repo, STRAT, "Strategy", "strategy", {"position": pos, "broker": broker, "exchange": "Sandbox", "symbol": "BTC-USDT", "timeframe": "1m",
                                                               "increased_count": num(0), "reduced_count": num(0)})
        W.bind(strat, "_broadcast", lambda i, a, k: None)
        new = W.make_order(repo, "NEW", buy, limit, R.atom("q"), R.atom("p"), status=st["ACTIVE"])

        def on_cancel(i, a, k):
            i.call(i.getattr(orders, "add_order"), [new], {})
        W.bind(strat, "on_cancel", on_cancel)
        it.orders, it.new = orders, new
        return it, lambda it: it.call(it.getattr(strat, "_execute_cancel"), [], {})
    n = 0
    for out in explore(mk, 16):
        n += 1
        if out.kind != "return":
            rep.violation(rid, "execute_cancel|raises", f"_execute_cancel raises {out.value}")
            continue
        o = out.interp.orders
        in_st = out.interp.new in o.attrs["storage"][KEY]
        in_act = out.interp.new in o.attrs["active_storage"][KEY]
        if not (in_st and in_act):
            rep.violation(rid, "execute_cancel|hook-order-dropped",
                          f"an ACTIVE order registered by the on_cancel hook is {'not ' if not in_st else ''}in storage and {'not ' if not in_act else ''}in active_storage after "
                          f"_execute_cancel (the per-symbol storage is cleared AFTER the hook): it stays ACTIVE but is no longer reported")
        rep.instance(rid, f"path{n}", {"in_storage": in_st, "in_active_storage": in_act})
    # the same through a rejected entry: Strategy._execute_filters with a filter that answers no, after the strategy has registered
    # an ACTIVE order (self.broker... in should_long / go_long / the filter itself)
    def mk2(dec):
        it = Interp(repo, stubs=W.base_stubs(), decisions=dec, samples=[{"q": Fraction(1), "p": Fraction(10), "now": Fraction(5), "t_created": Fraction(0)}])
        it.stubs[f"{W.HELPERS}:is_unit_testing"] = lambda i, a, k: False
        live = W.make_order(repo, "LIVE", buy, limit, R.atom("q"), R.atom("p"), status=st["ACTIVE"])
        done = W.make_order(repo, "DONE", buy, limit, R.atom("q"), R.atom("p"), status=st["CANCELED"])
        orders = W.obj_of(repo, ORDERS_STATE, "OrdersState", "store.orders", {"storage": {KEY: [done, live]}, "active_storage": {KEY: [done, live]}, "to_execute": []})
        it.overrides[f"{W.STORE}:store"] = Obj("StoreClass", name="store", attrs={"orders": orders}, open_world=True)
        strat = W.obj_of(repo, STRAT, "Strategy", "strategy", {"exchange": "Sandbox", "symbol": "BTC-USDT", "timeframe": "1m",
                                                               "increased_count": num(0), "reduced_count": num(0)})
        from vlib.absint import BoundBuiltin
        flt = BoundBuiltin(lambda i, a, k: False)
        W.bind(strat, "filters", lambda i, a, k: [flt])
        it.orders, it.live = orders, live
        return it, lambda it: it.call(it.getattr(strat, "_execute_filters"), [], {})
    m = 0
    for out in explore(mk2, 16):
        m += 1
        if out.kind != "return":
            if "__name__" in str(out.value) or "Unknown" in str(out.value):
                raise AnalysisError(f"_execute_filters not interpretable: {out.value}")
            rep.violation(rid, "execute_filters|raises", f"_execute_filters raises {out.value}")
            continue
        o = out.interp.orders
        in_st = out.interp.live in o.attrs["storage"][KEY]
        in_act = out.interp.live in o.attrs["active_storage"][KEY]
        if not (in_st and in_act):
            rep.violation(rid, "execute_filters|live-order-dropped",
                          f"an ACTIVE order that the strategy registered before a filter rejected the entry is {'not ' if not in_st else ''}in storage and "
                          f"{'not ' if not in_act else ''}in active_storage after _execute_filters (-> _reset -> reset_trade_orders): it stays ACTIVE with its reservation but is no longer reported, matched or cancelled")
        rep.instance(rid, f"filters|path{m}", {"in_storage": in_st, "in_active_storage": in_act})
    rep.floor(rid, 2)


def check_match_loop(repo, rep, tier):
    rid = "C05-R5"
    rep.rule(rid, "matching loop: a cancelled order still present in the active list is skipped; no order fills twice "
                  "(exhaustive over the order domain, shared runs with C02/C08)")
    from props import matchloop
    n = 0
    for desc, viols, sample in matchloop.run_all(repo, "quick"):
        n += 1
        rep.instance(rid, desc)
        for r, key, msg in viols:
            kind = key.split("|")[1]
            if kind in ("double-fill", "spurious", "nonterminating"):
                rep.violation(rid, f"match-loop|{kind}", msg, {"ordering": desc})
    rep.floor(rid, 500)


def run(repo: Repo, rep, tier: str):
    from vlib import memo
    rep.guarded(memo.check, repo, rep, "C05-R6", [(ORDER, "Order"), (ORDERS_STATE, "OrdersState")], "order and order registry")
    rep.exhaustive = True
    rep.assume("backtest mode; exchange ledgers / trade store / position are event sinks while Order methods are interpreted")
    rep.guarded(check_transitions, repo, rep)
    rep.guarded(check_status_writers, repo, rep)
    rep.guarded(check_trade_record, repo, rep)
    rep.guarded(check_registry, repo, rep)
    rep.guarded(check_cancel_hook_submission, repo, rep)
    rep.guarded(check_match_loop, repo, rep, tier)


CLAIM = {
    "engine": "absint+traces",
    "technique": "typestate by abstract interpretation of Order.execute/cancel in every status and call sequence + who-may-write scan + registry functions interpreted",
    "text": "Static. Order.execute and Order.cancel are interpreted from /repo's source on an order in each status, for every "
            "one- and two-call sequence and re-entrantly from the position hook: exactly one terminal transition, one ledger "
            "posting, one trade record and one position update; calls on a final order have no effect at all; the status is "
            "final before side effects run. Status writers are confined to the Order transitions (who-may-write scan), live-only "
            "transitions are unreachable from backtest modules. add_executed_order, add_order, update_active_orders, "
            "count_active_orders, _get_executing_orders, Sandbox.cancel_all_orders are interpreted on a registry holding orders "
            "of every status. Pruning runs once per route and step in both simulators (trace rule). The exhaustive matching-loop "
            "runs show that no order fills twice and cancelled orders are skipped. cancel_all_orders is also interpreted with the repository's own Order.cancel (queued MARKET + STOP + LIMIT); lazy filter() / one-shot iterator semantics are modelled.",
    "note": "Trusted: interpreter semantics; ledgers/hook are abstract sinks; sequences longer than two calls follow by induction from state-independence of the guard.",
}
