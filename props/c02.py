"""C02 - resting orders fill exactly when and where the price reaches them; market orders fill at once."""
from __future__ import annotations

import ast
from fractions import Fraction

from vlib.absint import Interp, Arr, Arr2, FuncV, Obj, explore, R, num, NotInFragment, Unknown
from vlib.loader import Repo, AnalysisError, norm
from vlib.orderdom import weak_orderings, embeddings, describe
from vlib import world as W
from vlib import simloops as SL
from vlib.affine import to_poly
from vlib.poly import Poly

CANDLE = "jesse/services/candle.py"
BT = "jesse/modes/backtest_mode.py"


def _val(x, s):
    return x.evaluate(lambda a: s[a])


# ------------------------------------------------------------------ candidate filter
def check_includes(repo, rep):
    rid = "C02-R2a"
    rep.rule(rid, "candle_includes_price(c, p) <=> low <= p <= high for all 13 weak orderings of (low, high, p): closed "
                  "interval, so prices exactly on high/low fill")
    mod = repo.module(CANDLE)
    fn = repo.func(CANDLE, "candle_includes_price")
    for rank in weak_orderings(["l", "h", "p"], []):
        samples = embeddings(rank, 2)
        desc = describe(rank)

        def mk(dec):
            it = Interp(repo, samples=[dict(s) for s in samples], decisions=dec)
            c = Arr([R.atom("ts"), R.atom("o"), R.atom("c"), R.atom("h"), R.atom("l"), R.atom("v")])
            return it, lambda it: it.call(FuncV(fn, mod, qual="candle_includes_price"), [c, R.atom("p")], {})
        for out in explore(mk, 8):
            s = samples[0]
            exp = s["l"] <= s["p"] <= s["h"]
            got = out.interp.truth(out.value) if out.kind == "return" else None
            if got is not exp:
                rep.violation(rid, f"candle_includes_price|{desc}",
                              f"candle_includes_price returns {got} for {desc}, expected {exp}", {"ordering": desc})
            rep.instance(rid, desc, {"ordering": desc, "result": got})
    rep.floor(rid, 13)


# ------------------------------------------------------------------ gap normalisation
def check_jump_fix(repo, rep):
    rid = "C02-R3"
    rep.rule(rid, "_get_fixed_jumped_candle(prev, c): open' = prev.close, low' = min(low, prev.close), high' = "
                  "max(high, prev.close), rest unchanged, for every weak ordering of (prev.close, o, h, l, c)")
    mod = repo.module(BT)
    fn = repo.func(BT, "_get_fixed_jumped_candle")
    cons = [("l", "<=", "o"), ("l", "<=", "c"), ("o", "<=", "h"), ("c", "<=", "h")]
    n = 0
    for rank in weak_orderings(["pc", "o", "h", "l", "c"], cons):
        n += 1
        samples = embeddings(rank, 2)
        for s in samples:
            # the other fields of the previous candle: a valid candle around its close, with values that coincide with nothing
            # else (a normalisation that reads the previous LOW / HIGH / OPEN instead of the close must show)
            s.update({"ts": Fraction(60000), "v": Fraction(3), "pts": Fraction(0), "po": s["pc"] + Fraction(1, 7),
                      "ph": s["pc"] + Fraction(11, 3), "pl": s["pc"] - Fraction(7, 3), "pv": Fraction(5, 13)})
        desc = describe(rank)

        def mk(dec):
            it = Interp(repo, samples=[dict(s) for s in samples], decisions=dec)
            prev = Arr([R.atom("pts"), R.atom("po"), R.atom("pc"), R.atom("ph"), R.atom("pl"), R.atom("pv")])
            return it, lambda it: it.call(FuncV(fn, mod, qual="_get_fixed_jumped_candle"), [prev, W.candle()], {})
        for out in explore(mk, 16):
            s = out.interp.samples[0] if out.interp.samples else samples[0]
            if out.kind != "return" or not isinstance(out.value, Arr) or len(out.value.items) != 6:
                rep.violation(rid, f"jump-fix|{desc}", f"_get_fixed_jumped_candle does not return a candle for {desc}")
                continue
            got = [_val(x, s) for x in out.value.items]
            exp = [s["ts"], s["pc"], s["c"], max(s["h"], s["pc"]), min(s["l"], s["pc"]), s["v"]]
            if got != exp:
                names = ["timestamp", "open", "close", "high", "low", "volume"]
                bad = [names[i] for i in range(6) if got[i] != exp[i]]
                rep.violation(rid, "jump-fix|" + ",".join(bad),
                              f"_get_fixed_jumped_candle wrong {bad} for ordering {desc}: returns {out.value!r}",
                              {"ordering": desc})
            rep.instance(rid, desc, {"ordering": desc, "result": repr(out.value)} if n % 50 == 1 else None)
    rep.floor(rid, 60)


# ------------------------------------------------------------------ loop protocol
def _find_assign(fn, name):
    """value expressions assigned to local `name` anywhere in fn"""
    out = []
    for n in ast.walk(fn):
        if isinstance(n, ast.Assign):
            for t in n.targets:
                if isinstance(t, ast.Name) and t.id == name:
                    out.append(n.value)
    return out


def _index_of_candle_ref(fn, expr, depth=0):
    """Resolve an expression denoting one 1m candle of the input to its index polynomial
    (relative to the input array): candles[j]['candles'][E] -> E ; X[k] with X = ...[lo:hi] -> lo+k."""
    if depth > 4:
        return None
    if isinstance(expr, ast.Name):
        vals = _index_of_all(fn, expr.id, depth)
        return vals
    if isinstance(expr, ast.Subscript):
        base = expr.value
        if isinstance(expr.slice, ast.Slice):
            return None
        k = to_poly(expr.slice)
        if k is None:
            return None
        # base is the input array itself?
        if _is_input_array(base):
            return [k]
        if isinstance(base, ast.Name):
            res = []
            for v in _find_assign(fn, base.id):
                if isinstance(v, ast.Subscript) and isinstance(v.slice, ast.Slice) and _is_input_array(v.value):
                    lo = to_poly(v.slice.lower) if v.slice.lower is not None else Poly.const(0)
                    if lo is not None:
                        res.append(lo + k)
            return res or None
    return None


def _index_of_all(fn, name, depth):
    res = []
    for v in _find_assign(fn, name):
        if isinstance(v, ast.Call):
            continue    # re-assignment from the fix itself
        r = _index_of_candle_ref(fn, v, depth + 1)
        if r:
            res += r
    return res or None


def _is_input_array(node) -> bool:
    t = norm(node)
    return t.replace('"', "'").endswith("['candles']")


def check_session_rules(repo, rep, tier="quick"):
    """C02-R1 / R6 / R7 on abstractly interpreted mini sessions (props/sessions.py)"""
    from props import sessions as S
    rep.rule("C02-R1", "both simulator functions interpreted whole on mini sessions (one / two symbols, data symbol, 1m / 3m / 5m / 15m routes, "
                       "lengths that are not a multiple of the timeframe; matcher, order store, strategies and gap normalisation recorded): "
                       "the candle handed to the matcher for minute m of a symbol is that symbol's input candle m, gap-normalised exactly "
                       "once against candle m-1 of the same symbol (m > 0) - also inside a fast-mode chunk")
    S.check_fed_candles(repo, rep, "C02-R1", cfgs=S.for_tier(tier))
    rep.rule("C02-R6", "same sessions: after every minute the simulator steps over (and every chunk end) nothing of the end-of-minute "
                       "protocol happens before every symbol has been matched; then per route the strategy executes iff its candle "
                       "closed and the route's active orders are pruned; then the pending MARKET orders are executed (a MARKET order is "
                       "filled before any later candle is processed); after the last minute every _terminate() is followed by a flush")
    S.check_protocol(repo, rep, "C02-R6", cfgs=S.for_tier(tier))
    rep.rule("C02-R7", "same sessions: every minute of every symbol is fed to the matcher exactly once, in order, and with several symbols "
                       "minute-major - every symbol's minute m before any symbol's minute m+1 (an order that a hook of symbol A creates "
                       "for symbol B at minute m may only be matched against B's candles from m on)")
    S.check_cover(repo, rep, "C02-R7", cfgs=S.for_tier(tier), clock=True)


# ------------------------------------------------------------------ matching loop (shared exhaustive runs)
def check_match_loop(repo, rep, tier):
    rep.rule("C02-R2", "abstract execution of the 1m matching loop over all weak orderings of O/H/L/C and order prices: "
                       "exactly the active orders whose price lies on the (remaining) path fill, each once, at its own "
                       "price; cancelled orders never fill; the unsplit candle is stored and current price = close at the end")
    from props import matchloop
    total = 0
    for desc, viols, sample in matchloop.run_all(repo, tier):
        total += 1
        rep.instance("C02-R2", desc, sample if total % 400 == 1 else None)
        for rid, key, msg in viols:
            if rid.startswith("C02") or key.split("|")[1] in ("raises", "double-fill", "spurious", "nonterminating"):
                rep.violation("C02-R2" if not rid.startswith("C02") else rid, "|".join(key.split("|")[:2]), msg, {"ordering": desc})
    rep.floor("C02-R2", 500)


def check_fast_chunk(repo, rep, tier):
    rid = "C02-R2f"
    rep.rule(rid, "fast simulator: abstract execution of the chunk matching function on a two-minute chunk with two resting orders, over the "
                  "weak orderings of (o1,c1,h1,l1,c2,h2,l2,p,r): at the end of the chunk exactly the orders whose price lies in the chunk's "
                  "range have filled (none is left unfilled), each once and at its own price")
    from props import c12
    from vlib.orderdom import describe as _d
    n = 0
    for rank, s, res in c12.fast_chunk_two_orders(repo, tier):
        n += 1
        desc = _d(rank)
        lo, hi = min(s["l1"], s["l2"]), max(s["h1"], s["h2"])
        want = {nm for nm, sym in (("O0", "p"), ("O1", "r")) if lo <= s[sym] <= hi}
        for kind, fills in res:
            if kind != "return":
                rep.violation(rid, "fast-chunk|raises", f"fast chunk matching raises for {desc}")
                continue
            got = [f[0] for f in fills]
            if len(set(got)) != len(got):
                rep.violation(rid, "fast-chunk|double-fill", f"an order fills twice in one fast-mode chunk for {desc}: {got}")
            if set(got) != want:
                missing, extra = sorted(want - set(got)), sorted(set(got) - want)
                rep.violation(rid, "fast-chunk|" + ("unfilled" if missing else "spurious"),
                              f"fast-mode chunk for {desc}: " + (f"order(s) {missing} whose price lies in the chunk's range are left unfilled" if missing else f"order(s) {extra} filled outside the chunk's range"),
                              {"ordering": desc})
            for nm, price in fills:
                own = s["p"] if nm == "O0" else s["r"]
                if price != own:
                    rep.violation(rid, "fast-chunk|price", f"order {nm} fills at {price}, not at its own price {own}, for {desc}")
        rep.instance(rid, desc, {"ordering": desc, "fills": repr(res)} if n % 300 == 1 else None)
    rep.floor(rid, 1000)


def check_fast_one_candle(repo, rep, tier):
    rid = "C02-R2g"
    rep.rule(rid, "fast simulator on a one-candle chunk (a 1m route in fast mode): the chunk matcher is executed abstractly for every weak "
                  "ordering of O/H/L/C with two and three resting orders (both storage orders relative to the prices) and a reaction "
                  "order: exactly the active orders whose price lies on the (remaining) path fill, once, at their own price - the "
                  "orders that are read again after a fill must not be taken out of path order, or a touched one is skipped")
    from props import matchloop
    n = 0
    for desc, viols, sample in matchloop.run_all(repo, tier, fast=True):
        n += 1
        for r, key, msg in viols:
            kind = key.split("|")[1]
            if kind in ("unfilled", "spurious", "double-fill", "fillprice", "nonterminating", "raises"):
                rep.violation(rid, f"fast-one-candle|{kind}", "fast simulator, one-candle chunk: " + msg, {"ordering": desc})
        rep.instance(rid, desc, sample if n % 500 == 1 else None)
    rep.floor(rid, 1500)


def check_fast_gap(repo, rep, tier):
    rid = "C02-R2h"
    rep.rule(rid, "fast simulator, gap INSIDE a chunk: _simulate_new_candles is executed abstractly on a two-minute chunk whose second "
                  "candle opens away from the previous close, for every weak ordering of (previous close, o2, c2, h2, l2, p[, r]): "
                  "exactly the orders whose price lies in the minute's range extended to the previous close fill, each once and at "
                  "its own price")
    from props import fastgap
    n = 0
    for desc, s, res in fastgap.run_all(repo, tier):
        n += 1
        lo, hi = min(s["l2"], s["a"]), max(s["h2"], s["a"])
        want = {nm for nm, sym in (("O0", "p"), ("O1", "r")) if sym in s and lo <= s[sym] <= hi}
        for kind, fills in res["fast"]:
            if kind != "return":
                rep.violation(rid, "fast-gap|raises", f"the fast simulator raises on a chunk with a gap inside for {desc}")
                continue
            got = [f[0] for f in fills]
            if len(set(got)) != len(got):
                rep.violation(rid, "fast-gap|double-fill", f"an order fills twice in a chunk with a gap inside for {desc}: {got}")
            if set(got) != want:
                missing, extra = sorted(want - set(got)), sorted(set(got) - want)
                rep.violation(rid, "fast-gap|" + ("unfilled" if missing else "spurious"),
                              f"fast simulator, gap inside the chunk, {desc}: " + (f"order(s) {missing} whose price lies in the minute's range extended to the previous close are left unfilled"
                                                                                   if missing else f"order(s) {extra} filled outside that range"), {"ordering": desc})
            for nm, price, t in fills:
                own = s["p"] if nm == "O0" else s["r"]
                if price != own:
                    rep.violation(rid, "fast-gap|price", f"order {nm} fills at {price}, not at its own price {own}, for {desc}")
        rep.instance(rid, desc, {"ordering": desc, "fast": repr(res["fast"])} if n % 300 == 1 else None)
    rep.floor(rid, 500)


# ------------------------------------------------------------------ market orders
def check_market_orders(repo, rep):
    rid = "C02-R6b"
    rep.rule(rid, "Broker.*_at_market -> API -> Sandbox.market_order creates a MARKET order priced at the position's "
                  "current price, registers it and queues it in to_execute; execute_pending_market_orders executes every "
                  "queued order and empties the queue; Strategy._check flushes after update_position on every path")
    buy = W.enum_value(repo, "sides", "BUY")
    sell = W.enum_value(repo, "sides", "SELL")
    market = W.enum_value(repo, "order_types", "MARKET")
    for meth, side in (("buy_at_market", buy), ("sell_at_market", sell)):
        def factory():
            state = {}

            def self_obj(it):
                orders_state = W.obj_of(repo, "jesse/store/state_orders.py", "OrdersState", "store.orders",
                                        {"storage": {"Sandbox-BTC-USDT": []}, "active_storage": {"Sandbox-BTC-USDT": []}, "to_execute": []})
                store = Obj("StoreClass", name="store", attrs={"orders": orders_state}, open_world=True)
                it.overrides[f"{W.STORE}:store"] = store
                exch = Obj("Exchange", name="exchange", attrs={}, open_world=True)
                W.bind(exch, "on_order_submission", lambda i, a, k: i.event("exch_submit", a[0].name))
                it.stubs[f"{W.SELECTORS}:get_exchange"] = lambda i, a, k: exch
                it.stubs[f"{W.ORDER_PY}:Order"] = W.order_ctor(repo)
                sandbox = W.obj_of(repo, "jesse/exchanges/sandbox/Sandbox.py", "Sandbox", "sandbox", {"name": "Sandbox"})
                api = W.obj_of(repo, "jesse/services/api.py", "API", "api", {"drivers": {"Sandbox": sandbox}})
                pos = Obj("Position", name="position", attrs={"current_price": R.atom("cur")}, open_world=True)
                broker = W.obj_of(repo, "jesse/services/broker.py", "Broker", "broker",
                                  {"position": pos, "symbol": "BTC-USDT", "exchange": "Sandbox", "timeframe": "1m", "api": api})
                it.state = {"orders_state": orders_state}
                return broker
            return self_obj
        outs = W.run_function(repo, "jesse/services/broker.py", f"Broker.{meth}", lambda it: ([R.atom("q")], {}),
                              stubs=lambda: W.base_stubs(), overrides=lambda: {}, self_obj_factory=factory(),
                              samples=[{"q": Fraction(2), "cur": Fraction(10)}, {"q": Fraction(-3), "cur": Fraction(7)}])
        for out in outs:
            key = f"Broker.{meth}"
            if out.kind != "return" or not isinstance(out.value, Obj):
                rep.violation(rid, key, f"Broker.{meth} does not return the submitted order (got {out.kind} {out.value!r})")
                continue
            o = out.value
            st = out.interp.state["orders_state"]
            probs = []
            if o.attrs.get("type") != market:
                probs.append(f"type is {o.attrs.get('type')!r}")
            if o.attrs.get("side") != side:
                probs.append(f"side is {o.attrs.get('side')!r}")
            pr = o.attrs.get("price")
            if not (isinstance(pr, R) and pr.same(R.atom("cur"))):
                probs.append(f"price is {pr!r}, not the position's current price")
            if o not in st.attrs["to_execute"]:
                probs.append("order is not queued in to_execute")
            if o not in st.attrs["storage"]["Sandbox-BTC-USDT"] or o not in st.attrs["active_storage"]["Sandbox-BTC-USDT"]:
                probs.append("order is not registered in the order store")
            if o.attrs.get("reduce_only") is not False:
                probs.append("reduce_only is not False")
            if probs:
                rep.violation(rid, key, f"Broker.{meth}: " + "; ".join(probs))
            rep.instance(rid, key + "|" + str(out.conds), {"order": {k: repr(v) for k, v in o.attrs.items() if k in ("type", "side", "price", "qty", "reduce_only")}})
    # flush executes everything and empties the queue
    st_active = W.enum_value(repo, "order_statuses", "ACTIVE")

    def flush_self(it):
        orders = [Obj("Order", name=f"M{i}", attrs={}) for i in range(2)]
        for o in orders:
            W.bind(o, "execute", (lambda oo: (lambda i, a, k: i.event("executed", oo.name)))(o))
        stt = W.obj_of(repo, "jesse/store/state_orders.py", "OrdersState", "store.orders", {"to_execute": list(orders)})
        it.state = stt
        return stt
    outs = W.run_function(repo, "jesse/store/state_orders.py", "OrdersState.execute_pending_market_orders",
                          lambda it: ([], {}), self_obj_factory=flush_self)
    for out in outs:
        ex = [e[1] for e in out.events if e[0] == "executed"]
        left = out.interp.state.attrs.get("to_execute")
        if ex != ["M0", "M1"] or left:
            rep.violation(rid, "execute_pending_market_orders", f"flush executed {ex} of [M0, M1] and left {left!r} queued")
        rep.instance(rid, "execute_pending_market_orders", {"executed": ex})
    # a MARKET order submitted by the fill hook of an order that is being flushed is itself executed by that flush (it "is filled at
    # the current price at the moment it is submitted, before any later candle is processed")

    def flush_reacting(it):
        orders = [Obj("Order", name=f"M{i}", attrs={}) for i in range(3)]
        stt = W.obj_of(repo, "jesse/store/state_orders.py", "OrdersState", "store.orders", {"to_execute": list(orders[:2])})

        def ex(oo):
            def f(i, a, k):
                i.event("executed", oo.name)
                if oo.name == "M0":           # its fill hook submits M2 (Broker -> Sandbox -> queue)
                    i.call(i.getattr(i.getattr(stt, "to_execute"), "append"), [orders[2]], {})
            return f
        for o in orders:
            W.bind(o, "execute", ex(o))
        it.state = stt
        return stt
    outs = W.run_function(repo, "jesse/store/state_orders.py", "OrdersState.execute_pending_market_orders",
                          lambda it: ([], {}), self_obj_factory=flush_reacting)
    for out in outs:
        ex = [e[1] for e in out.events if e[0] == "executed"]
        left = [getattr(x, "name", "?") for x in (out.interp.state.attrs.get("to_execute") or []) if getattr(x, "name", None) not in ex]
        if sorted(ex) != ["M0", "M1", "M2"] or left:
            rep.violation(rid, "execute_pending_market_orders|reaction", f"a MARKET order (M2) queued by the fill hook of M0 during the flush: the flush executed {ex} and left "
                                                                           f"{left} queued - M2 waits for the next minute's flush and fills a candle late")
        rep.instance(rid, "execute_pending_market_orders|reaction", {"executed": ex})
    # Strategy._check flushes on every non-raising path, after _update_position
    from vlib.traces import Tracer, Cfg, make_inliner, RAISE
    smod = repo.module("jesse/strategies/Strategy.py")
    scls = repo.cls("jesse/strategies/Strategy.py", "Strategy")
    chk = repo.func("jesse/strategies/Strategy.py", "Strategy._check")
    FL = "_simulate_market_order_execution"   # (interpreted below: flushes in backtest mode)
    keep = {"_update_position", FL, "execute_pending_market_orders", "_execute_long", "_execute_short"}
    cfg = Cfg(call=lambda label, node: ("call", "execute_pending_market_orders" if SL.last(label) == FL else SL.last(label))
              if SL.last(label) in keep else None, loop_unroll=1)
    stubbed_guard = 0
    for evs, ex in Tracer(repo, cfg).block(chk.body, (smod, scls), 0):
        if ex == RAISE:
            continue
        nm = [e[1] for e in evs if e[0] == "call"]
        if "execute_pending_market_orders" not in nm:
            rep.violation(rid, "Strategy._check|flush", f"Strategy._check has a path without market-order flush: {nm}")
        elif "_update_position" in nm and nm.index("_update_position") > len(nm) - 1 - nm[::-1].index("execute_pending_market_orders"):
            rep.violation(rid, "Strategy._check|flush-order", f"Strategy._check flushes market orders before update_position: {nm}")
        for entry in ("_execute_long", "_execute_short"):
            if entry in nm and nm.index(entry) < nm.index("execute_pending_market_orders"):
                rep.violation(rid, "Strategy._check|flush-order", f"Strategy._check opens new entries before flushing pending market orders: {nm}")
        rep.instance(rid, "Strategy._check|" + " ".join(nm))
        stubbed_guard += 1
    # _simulate_market_order_execution must flush in backtest mode
    outs = W.run_function(repo, "jesse/strategies/Strategy.py", "Strategy._simulate_market_order_execution", lambda it: ([], {}),
                          overrides=lambda: {f"{W.STORE}:store": Obj("StoreClass", name="store", attrs={"orders": _flush_probe()}, open_world=True)})
    for out in outs:
        if not any(e[0] == "flushed" for e in out.events):
            rep.violation(rid, "_simulate_market_order_execution", "Strategy._simulate_market_order_execution does not flush pending market orders in backtest mode")
        rep.instance(rid, "_simulate_market_order_execution")
    rep.floor(rid, 5)


def _flush_probe():
    o = Obj("OrdersState", name="store.orders", attrs={})
    W.bind(o, "execute_pending_market_orders", lambda i, a, k: i.event("flushed"))
    return o


# ------------------------------------------------------------------ who may rewrite an order's price / quantity
ORDER_FIELDS = {"price", "qty", "side", "type"}
ORDER_RECEIVERS = {"order", "o", "executed_order", "submitted_order", "ro"}
SCOPE = ["jesse/modes/backtest_mode.py", "jesse/exchanges/sandbox/Sandbox.py", "jesse/store/state_orders.py",
         "jesse/store/state_completed_trades.py", "jesse/services/broker.py", "jesse/services/api.py",
         "jesse/strategies/Strategy.py", "jesse/models/Position.py", "jesse/models/Order.py",
         "jesse/models/SpotExchange.py", "jesse/models/FuturesExchange.py", "jesse/models/Exchange.py",
         "jesse/services/selectors.py"]


def check_field_writers(repo, rep):
    rid = "C02-R4"
    rep.rule(rid, "no code on the backtest path rewrites price / qty / side / type of a submitted order (expected count 0; "
                  "the constructor's attribute loop is the only writer)")
    sites = 0
    for rel in SCOPE:
        mod = repo.module(rel)
        for fn in [n for n in ast.walk(mod.tree) if isinstance(n, ast.FunctionDef)]:
            in_order_cls = rel == W.ORDER_PY
            for n in ast.walk(fn):
                targets = []
                if isinstance(n, ast.Assign):
                    targets = n.targets
                elif isinstance(n, (ast.AugAssign, ast.AnnAssign)):
                    targets = [n.target]
                for t in targets:
                    for sub in (t.elts if isinstance(t, (ast.Tuple, ast.List)) else [t]):
                        if isinstance(sub, ast.Attribute) and sub.attr in ORDER_FIELDS and isinstance(sub.value, ast.Name):
                            sites += 1
                            recv = sub.value.id
                            if recv in ORDER_RECEIVERS or (recv == "self" and in_order_cls):
                                rep.violation(rid, f"{rel}:{fn.name}|{norm(sub)}",
                                              f"{rel}:{fn.name} rewrites {norm(sub)} of an order after submission: {norm(n)[:100]}")
            rep.instance(rid, f"{rel}:{fn.name}")
    rep.extra["attribute_store_sites_named_price_qty_side_type"] = sites
    # positive twin: the rule must recognise a store when there is one
    twin = ast.parse("def f(order):\n    order.price = 1\n")
    hit = any(isinstance(n, ast.Attribute) and n.attr in ORDER_FIELDS and isinstance(n.value, ast.Name) and n.value.id in ORDER_RECEIVERS
              for n in ast.walk(twin))
    if not hit:
        raise AnalysisError("C02-R4 positive twin not recognised")
    rep.floor(rid, 100)


def run(repo: Repo, rep, tier: str):
    rep.exhaustive = True
    rep.assume("backtest mode predicates (is_live False, ...) are constants of the session")
    rep.assume("hooks, exchange ledgers and candle storage are abstract event sinks in the matching-loop runs")
    rep.guarded(check_includes, repo, rep)
    # an order that stays ACTIVE across a strategy reset (submitted before a filter rejects the entry, or inside on_cancel) must stay in
    # the list the matcher reads - or it is "left unfilled at the end of a minute whose range contained its price"
    from props.c05 import check_cancel_hook_submission
    rep.guarded(check_cancel_hook_submission, repo, rep, "C02-R9")
    rep.guarded(check_jump_fix, repo, rep)
    rep.guarded(check_session_rules, repo, rep, tier)
    rep.guarded(check_match_loop, repo, rep, tier)
    rep.guarded(check_fast_chunk, repo, rep, tier)
    rep.guarded(check_fast_one_candle, repo, rep, tier)
    rep.guarded(check_fast_gap, repo, rep, tier)
    rep.guarded(check_market_orders, repo, rep)
    rep.guarded(check_field_writers, repo, rep)
    rep.undecided_item("exact fill minute of an order inside a fast-mode chunk (see C12)")
    rep.undecided_item("more than 3 simultaneously touched resting orders with cascaded reactions")


CLAIM = {
    "engine": "absint+traces",
    "technique": "abstract interpretation of the matching loop over the order domain; abstract interpretation of both simulator functions on mini sessions with recorded effects (event-sequence rules)",
    "text": "Static. (1) Exhaustive abstract execution of /repo's 1m matching loop for every weak ordering of O/H/L/C, up to 3 "
            "resting order prices, a cancelled order and a reaction order: exactly the active orders whose price lies in the "
            "candle range (on the remaining path) fill, once, at their own price; none is left unfilled; cancelled ones never fill. "
            "(2) candle_includes_price is the closed interval; gap normalisation (_get_fixed_jumped_candle) is exact in every "
            "ordering and is applied to (candle[k-1], candle[k]) on every step but the first, in both simulators. "
            "(3) Both simulator functions are interpreted whole on mini sessions (one / two symbols, a data symbol, 1m..15m routes, "
            "tails shorter than a chunk) with the matcher, the order store, the strategies and the gap normalisation recorded: every "
            "minute of every symbol is matched exactly once, minute-major, with the gap-normalised input candle, before any strategy "
            "runs; after every minute / chunk the routes are pruned and the pending MARKET orders executed, also between the minutes "
            "of a multi-symbol chunk and after every _terminate(); market orders are priced at the current price and queued. (4) Nobody rewrites an order's price/qty/side/type. (5) Fast simulator: the chunk matcher is executed "
            "abstractly on two-minute chunks with two orders, on one-candle chunks with two / three orders in both storage orders "
            "and a reaction order, and - through _simulate_new_candles - on chunks with a gap inside: exactly the touched orders "
            "fill, once, at their own price. "
            "Not decided: exact fill minute inside fast-mode chunks (C12), k>3 simultaneous orders. A MARKET order queued by a fill hook during the flush of the pending market orders is executed by that same flush (R6b).",
    "note": "Trusted: interpreter = CPython semantics on the subset; mode predicates fixed to backtest; the mini sessions are finite samples of session shapes (the per-minute matching itself is exhaustive).",
}
