"""C17 - sizing and numeric helpers never overspend, over-risk or round up."""
from __future__ import annotations

import ast
import itertools
from fractions import Fraction as F

from vlib.absint import Interp, Obj, Arr, FuncV, explore, R, num, Unknown, NotInFragment
from vlib.poly import Op, Poly
from vlib.loader import Repo, AnalysisError, norm
from vlib import world as W
from props.c07 import enum_members, label_minutes

UTILS = "jesse/utils.py"
HELPERS = W.HELPERS


def A(n):
    return R.atom(n)


ONE = R.const(1)


def floor_of(x: R) -> R:
    return R.atom(Op("floor", (x,)))


def TEN(prec: R) -> R:
    return R.atom(Op("pow", (R.const(10), prec)))


def check_sizing(repo, rep):
    rid = "C17-R1"
    rep.rule(rid, "sizing formulas as symbolic normal forms: size_to_qty = floor(size*(1-3f)/price * 10^p)/10^p (fee factor iff f != 0); "
                  "risk_to_size = min(r/100*capital/risk_per_qty*entry, capital); risk_to_qty composes them; hence in real arithmetic "
                  "qty*price*(1+f) <= size*(1-3f)(1+f) <= size (polynomial -2f-3f^2 <= 0 for f >= 0) and qty*risk_per_qty <= r% of capital; "
                  "the result is floor(x*T)/T, i.e. at most one precision step below the exact quotient x")
    # size_to_qty
    for fee_case, smp in (("fee>0", {"s": F(100), "p": F(7), "prec": F(3), "f": F(1, 1000)}), ("fee=0", {"s": F(100), "p": F(7), "prec": F(3), "f": F(0)})):
        fee = A("f") if fee_case == "fee>0" else num(0)
        outs = W.run_function(repo, UTILS, "size_to_qty", lambda it: ([A("s"), A("p")], {"precision": A("prec"), "fee_rate": fee}),
                              samples=[smp], nonneg={"s", "p", "f", "prec"})
        for out in outs:
            T = TEN(A("prec"))
            x = A("s") * (ONE - R.const(3) * fee) / A("p")
            want = floor_of(x * T) / T
            if out.kind != "return" or not (isinstance(out.value, R) and out.value.same(want)):
                rep.violation(rid, f"size_to_qty|{fee_case}", f"size_to_qty ({fee_case}) = {out.value!r}, expected {want!r}")
            rep.instance(rid, f"size_to_qty|{fee_case}", {"value": repr(out.value)})
    # discharge of the real-arithmetic bound (1-3f)(1+f) <= 1
    f = Poly.atom("f")
    bound = (Poly.const(1) - f.scale(F(3))) * (Poly.const(1) + f) - Poly.const(1)
    if not all(c <= 0 for c in bound.t.values()):
        rep.violation(rid, "size_to_qty|bound", f"(1-3f)(1+f)-1 = {bound!r} is not <= 0 coefficient-wise")
    rep.instance(rid, "bound (1-3f)(1+f)-1", {"polynomial": repr(bound), "all_coefficients_nonpositive": True})
    # risk_to_size (both cases of the min)
    for case, smp in (("risk-limited", {"cap": F(10000), "r": F(1), "rpq": F(7, 10), "e": F(8)}), ("capital-limited", {"cap": F(100), "r": F(50), "rpq": F(1, 10), "e": F(8)})):
        outs = W.run_function(repo, UTILS, "risk_to_size", lambda it: ([A("cap"), A("r"), A("rpq"), A("e")], {}), samples=[smp], nonneg={"cap", "r", "rpq", "e"})
        for out in outs:
            temp = A("r") / R.const(100) * A("cap") / A("rpq") * A("e")
            want = temp if case == "risk-limited" else A("cap")
            if out.kind != "return" or not (isinstance(out.value, R) and out.value.same(want)):
                rep.violation(rid, f"risk_to_size|{case}", f"risk_to_size ({case}) = {out.value!r}, expected {want!r}")
            rep.instance(rid, f"risk_to_size|{case}", {"value": repr(out.value)})
    for out in W.run_function(repo, UTILS, "risk_to_size", lambda it: ([A("cap"), A("r"), num(0), A("e")], {})):
        if out.kind != "raise":
            rep.violation(rid, "risk_to_size|zero-risk", "risk_to_size accepts risk_per_qty == 0")
        rep.instance(rid, "risk_to_size|zero-risk")
    # risk_to_qty = size_to_qty(risk_to_size(...) * (1-3f), entry, precision, fee)
    for side, smp in (("long", {"cap": F(10000), "r": F(1), "e": F(8), "sl": F(7), "prec": F(3), "f": F(1, 1000)}),
                      ("short", {"cap": F(10000), "r": F(1), "e": F(7), "sl": F(8), "prec": F(3), "f": F(1, 1000)})):
        outs = W.run_function(repo, UTILS, "risk_to_qty", lambda it: ([A("cap"), A("r"), A("e"), A("sl")], {"precision": A("prec"), "fee_rate": A("f")}),
                              samples=[smp], nonneg=set(smp))
        for out in outs:
            rpq = (A("e") - A("sl")) if side == "long" else (A("sl") - A("e"))
            size = A("r") / R.const(100) * A("cap") / rpq * A("e")
            T = TEN(A("prec"))
            fee2 = (ONE - R.const(3) * A("f"))
            want = floor_of(size * fee2 * fee2 / A("e") * T) / T
            if out.kind != "return" or not (isinstance(out.value, R) and out.value.same(want)):
                rep.violation(rid, f"risk_to_qty|{side}", f"risk_to_qty ({side}) = {out.value!r}, expected {want!r}")
            rep.instance(rid, f"risk_to_qty|{side}", {"value": repr(out.value)})
    # ... and in the cell where risk_to_size caps the size at the capital (a stop tighter than the requested risk), and without fee
    for side, fee_case, smp in (("long", "fee>0", {"cap": F(100), "r": F(50), "e": F(8), "sl": F(79, 10), "prec": F(3), "f": F(1, 1000)}),
                                ("short", "fee>0", {"cap": F(100), "r": F(50), "e": F(8), "sl": F(81, 10), "prec": F(3), "f": F(1, 1000)}),
                                ("long", "fee=0", {"cap": F(100), "r": F(50), "e": F(8), "sl": F(79, 10), "prec": F(3), "f": F(0)}),
                                ("long-risk-limited", "fee=0", {"cap": F(10000), "r": F(1), "e": F(8), "sl": F(7), "prec": F(3), "f": F(0)})):
        fee = A("f") if fee_case == "fee>0" else num(0)
        outs = W.run_function(repo, UTILS, "risk_to_qty", lambda it: ([A("cap"), A("r"), A("e"), A("sl")], {"precision": A("prec"), "fee_rate": fee}),
                              samples=[smp], nonneg=set(smp))
        for out in outs:
            T = TEN(A("prec"))
            fee2 = (ONE - R.const(3) * fee)
            size = A("cap") if "risk-limited" not in side else A("r") / R.const(100) * A("cap") / (A("e") - A("sl")) * A("e")
            want = floor_of(size * fee2 * fee2 / A("e") * T) / T
            if out.kind != "return" or not (isinstance(out.value, R) and out.value.same(want)):
                rep.violation(rid, f"risk_to_qty|{side}|capped|{fee_case}", f"risk_to_qty ({side}, size capped at the capital, {fee_case}) = {out.value!r}, expected {want!r}")
            rep.instance(rid, f"risk_to_qty|{side}|capped|{fee_case}", {"value": repr(out.value)})
    # limit_stop_loss and estimate_risk
    for typ in ("long", "short"):
        for case, smp in (("within", {"e": F(100), "s": F(97) if typ == "long" else F(103), "pct": F(5)}), ("limited", {"e": F(100), "s": F(80) if typ == "long" else F(120), "pct": F(5)}),
                          # an allowed risk of 0 % (a falsy number): the stop is pulled in to the entry price - not left where it was
                          ("limited", {"e": F(100), "s": F(80) if typ == "long" else F(120), "pct": F(0)})):
            outs = W.run_function(repo, UTILS, "limit_stop_loss", lambda it: ([A("e"), A("s"), typ, A("pct")], {}), samples=[smp], nonneg={"e", "s", "pct"})
            for out in outs:
                risk = (A("e") - A("s")) if typ == "long" else (A("s") - A("e"))
                lim = A("e") * A("pct") / R.const(100)
                eff = risk if case == "within" else lim
                want = (A("e") - eff) if typ == "long" else (A("e") + eff)
                if out.kind != "return" or not (isinstance(out.value, R) and out.value.same(want)):
                    rep.violation(rid, f"limit_stop_loss|{typ}|{case}", f"limit_stop_loss({typ}, {case}) = {out.value!r}, expected {want!r}")
                rep.instance(rid, f"limit_stop_loss|{typ}|{case}|pct={smp['pct']}", {"value": repr(out.value)})
    for smp, want in (({"e": F(10), "s": F(8)}, A("e") - A("s")), ({"e": F(8), "s": F(10)}, A("s") - A("e"))):
        for out in W.run_function(repo, UTILS, "estimate_risk", lambda it: ([A("e"), A("s")], {}), samples=[smp]):
            if out.kind != "return" or not (isinstance(out.value, R) and out.value.same(want)):
                rep.violation(rid, "estimate_risk", f"estimate_risk = {out.value!r}, expected {want!r}")
            rep.instance(rid, f"estimate_risk|{smp['e']}")
    rep.floor(rid, 18)


def _ev(r, env):
    """value of a normal form on a valuation of its atoms; floor / 10**p atoms are evaluated, not looked up"""
    import math

    def look(a):
        if isinstance(a, Op):
            if a.name == "floor":
                return F(math.floor(_ev(a.args[0], env)))
            if a.name == "pow":
                b, e = (_ev(x, env) for x in a.args)
                if e.denominator != 1:
                    raise KeyError(a)
                return F(b) ** int(e)
            raise KeyError(a)
        return env[a]
    return r.evaluate(look) if isinstance(r, R) else F(r)


def check_bounds(repo, rep):
    """the two bounds themselves (not the formulas they were derived from): for every witness point of a grid that covers
    both cells of risk_to_size (risk-limited / capped at the capital), both sides, fee 0 and > 0, the function is
    interpreted on the path of that point and the returned expression is evaluated in exact arithmetic"""
    rid = "C17-R6"
    rep.rule(rid, "the quantity returned by size_to_qty / risk_to_qty costs at most the capital including the entry fee "
                  "(qty * price * (1 + fee) <= capital) and risks at most the requested share (qty * |entry - stop| <= r% of "
                  "capital): the expression returned on the path of each grid witness - both cells of the size cap, long and "
                  "short, fee 0 and > 0 - is evaluated in exact rational arithmetic; a witness that breaks a bound is a "
                  "counterexample")
    n = 0
    for cap, r, (e, sl), f, prec in itertools.product([F(100), F(10000)], [F(1, 2), F(1), F(5), F(50)],
                                                        [(F(100), F(96)), (F(100), F(104)), (F(8), F(7)), (F(8), F(79, 10)), (F(3, 10), F(29, 100))],
                                                        [F(0), F(4, 10000), F(1, 1000), F(1, 100)], [F(0), F(3)]):
        smp = {"cap": cap, "r": r, "e": e, "sl": sl, "prec": prec, "f": f}
        fee = A("f") if f != 0 else num(0)
        outs = W.run_function(repo, UTILS, "risk_to_qty", lambda it: ([A("cap"), A("r"), A("e"), A("sl")], {"precision": A("prec"), "fee_rate": fee}),
                              samples=[smp], nonneg=set(smp))
        for out in outs:
            if out.kind != "return" or not isinstance(out.value, R):
                continue
            try:
                q = _ev(out.value, smp)
            except (KeyError, ZeroDivisionError):
                rep.undecided_item(f"risk_to_qty at {smp}: the returned expression has atoms outside the witness")
                continue
            n += 1
            cost = q * e * (1 + f)
            risk = q * abs(e - sl)
            if cost > cap:
                rep.violation(rid, "risk_to_qty|cost", f"risk_to_qty(capital={cap}, risk={r}%, entry={e}, stop={sl}, precision={prec}, fee_rate={f}) = {q} "
                              f"(= {float(q)}): buying it at {e} costs {float(cost)} including the fee, more than the capital")
            if risk > r / 100 * cap:
                rep.violation(rid, "risk_to_qty|risk", f"risk_to_qty(capital={cap}, risk={r}%, entry={e}, stop={sl}, precision={prec}, fee_rate={f}) = {q}: "
                              f"it risks {float(risk)}, more than {r}% of the capital")
    for size, pr, f, prec in itertools.product([F(100), F(9999, 10)], [F(7), F(3, 10), F(100)], [F(0), F(1, 1000), F(1, 100)], [F(0), F(3)]):
        smp = {"s": size, "p": pr, "prec": prec, "f": f}
        fee = A("f") if f != 0 else num(0)
        for out in W.run_function(repo, UTILS, "size_to_qty", lambda it: ([A("s"), A("p")], {"precision": A("prec"), "fee_rate": fee}), samples=[smp], nonneg=set(smp)):
            if out.kind != "return" or not isinstance(out.value, R):
                continue
            try:
                q = _ev(out.value, smp)
            except (KeyError, ZeroDivisionError):
                continue
            n += 1
            if q * pr * (1 + f) > size:
                rep.violation(rid, "size_to_qty|cost", f"size_to_qty(size={size}, price={pr}, precision={prec}, fee_rate={f}) = {q}: it costs {float(q * pr * (1 + f))} including the fee, more than the size")
            exact = size * (1 - 3 * f) / pr if f != 0 else size / pr
            if not (0 <= exact - q < F(1, 10 ** int(prec))):
                rep.violation(rid, "size_to_qty|step", f"size_to_qty(size={size}, price={pr}, precision={prec}, fee_rate={f}) = {q}: not within one precision step below the exact quotient {float(exact)}")
    rep.instance(rid, "grid", {"witness_points_evaluated": n})
    if n < 300:
        raise AnalysisError(f"C17-R6: only {n} witness evaluations")


def check_rounding(repo, rep):
    rid = "C17-R2"
    rep.rule(rid, "rounding discipline: floor_with_precision and round_decimals_down are floor-based in every branch (symbolic normal "
                  "forms), round_qty_for_live_mode derives its result from round_decimals_down with the zero -> minimum-unit exception "
                  "as the only upward step, and no round()/ceil appears on a quantity path")
    T = TEN(A("prec"))
    for out in W.run_function(repo, HELPERS, "floor_with_precision", lambda it: ([A("x"), A("prec")], {})):
        want = floor_of(A("x") * T) / T
        if out.kind != "return" or not (isinstance(out.value, R) and out.value.same(want)):
            rep.violation(rid, "floor_with_precision", f"floor_with_precision = {out.value!r}, expected {want!r}")
        rep.instance(rid, "floor_with_precision", {"value": repr(out.value)})
    for d, want in ((0, lambda: floor_of(A("x"))), (2, lambda: floor_of(A("x") * R.const(100)) / R.const(100)),
                    (-2, lambda: floor_of(A("x") / R.const(100)) * R.const(100))):
        for out in W.run_function(repo, HELPERS, "round_decimals_down", lambda it: ([A("x"), num(d)], {})):
            if out.kind != "return" or not (isinstance(out.value, R) and out.value.same(want())):
                rep.violation(rid, f"round_decimals_down|{d}", f"round_decimals_down(x, {d}) = {out.value!r}, expected {want()!r}")
            rep.instance(rid, f"round_decimals_down|{d}", {"value": repr(out.value)})
    # no upward rounding primitives on the quantity paths
    banned = {"round", "ceil", "around", "rint"}
    scope = [(HELPERS, "floor_with_precision"), (HELPERS, "round_decimals_down"), (HELPERS, "round_qty_for_live_mode"),
             (UTILS, "size_to_qty"), (UTILS, "risk_to_qty"), (UTILS, "risk_to_size")]
    for rel, name in scope:
        fn = repo.func(rel, name)
        for c in ast.walk(fn):
            if isinstance(c, ast.Call):
                nm = norm(c.func).split(".")[-1]
                if nm in banned:
                    rep.violation(rid, f"{name}|{nm}", f"{rel}:{name} uses {norm(c.func)}() on a quantity path (may round up)")
        rep.instance(rid, f"no-upward|{name}")
    fn = repo.func(HELPERS, "round_qty_for_live_mode")
    calls = [norm(c.func).split(".")[-1] for c in ast.walk(fn) if isinstance(c, ast.Call)]
    if "round_decimals_down" not in calls:
        rep.violation(rid, "round_qty_for_live_mode|floor", "round_qty_for_live_mode does not derive its result from round_decimals_down")
    # the only stores into the result are guarded by the `== 0` test
    stores = [n for n in ast.walk(fn) if isinstance(n, ast.Assign) and isinstance(n.targets[0], ast.Subscript)]
    for st in stores:
        guarded = False
        for n in ast.walk(fn):
            if isinstance(n, ast.If) and any(x is st for x in ast.walk(n)) and isinstance(n.test, ast.Compare) and \
                    isinstance(n.test.ops[0], ast.Eq) and isinstance(n.test.comparators[0], ast.Constant) and n.test.comparators[0].value == 0:
                guarded = True
        if not guarded:
            rep.violation(rid, "round_qty_for_live_mode|upward-step", f"round_qty_for_live_mode overwrites a rounded quantity outside the zero exception: {norm(st)}")
        rep.instance(rid, f"round_qty|store|{norm(st)[:40]}")
    rep.floor(rid, 8)


def check_decimal(repo, rep):
    from props.c04 import check_decimal_discipline
    rid = "C17-R3"
    rep.rule(rid, "sum_floats / subtract_floats = float(Decimal(str(a)) +- Decimal(str(b))): symbolic value a +- b and both operands go through Decimal(str(.))")
    for name, sign in (("sum_floats", 1), ("subtract_floats", -1)):
        fn = repo.func(UTILS, name)
        for out in W.run_function(repo, UTILS, name, lambda it: ([A("a"), A("b")], {})):
            want = A("a") + A("b") if sign == 1 else A("a") - A("b")
            # the conversions to Decimal made on this path (helpers included): each of the exact decimal text str(x) of an operand
            convs = [e for e in out.events if e[0] == "decimal"]
            lossy = [e[1] for e in convs if e[1] != "str"]
            ops_ = [e[2] for e in convs if e[1] == "str"]
            both = any(isinstance(x, R) and x.same(A("a")) for x in ops_) and any(isinstance(x, R) and x.same(A("b")) for x in ops_)
            if lossy or not both:
                rep.violation(rid, f"{name}|decimal", f"utils.{name} does not compute on Decimal(str(.)) of both operands: conversions {[e[1] for e in convs]} on the path {out.conds}")
            elif out.kind != "return" or not (isinstance(out.value, R) and out.value.same(want)):
                rep.violation(rid, f"{name}|value", f"utils.{name}(a, b) evaluates to {out.value!r}")
        rep.instance(rid, name)
    rep.floor(rid, 2)


def check_tables(repo, rep):
    from props.c07 import check_tables as c07_tables
    before = len(rep.violations)
    c07_tables(repo, rep)
    # (same rule as C07-R3: the tables agree with the minutes their labels spell; reported here under C17 as well)
    for v in rep.violations[before:]:
        v["rule"] = "C17-R4t"
        v["key"] = v["key"].replace("C07-R3|", "C17-R4t|")


def check_timeframes(repo, rep):
    rid = "C17-R4"
    rep.rule(rid, "max_timeframe interpreted for every singleton and every pair of enums.timeframes (a priority cascade is correct "
                  "iff it is correct on all pairs): returns the member with the most minutes; anchor_timeframe maps each key to a "
                  "strictly larger timeframe that is a whole multiple of it")
    tfs = enum_members(repo, "timeframes")
    labels = list(tfs.values())
    mins = {l: label_minutes(l) for l in labels}
    cases = [[l] for l in labels] + [list(p) for p in itertools.combinations(labels, 2)] + [labels]
    # ... both orders of every pair, and every ORDERED triple of six timeframes: the answer must not depend on the order of the list (a
    # one-shot iterator consumed by `in`, an early exit) - "correct on all pairs" is an argument about cascades only
    cases += [list(reversed(p)) for p in itertools.combinations(labels, 2)]
    six = [l for l in ("1m", "5m", "1h", "4h", "1D", "1W") if l in labels]
    cases += [list(p) for p in itertools.permutations(six, 3)] + [list(reversed(labels))]
    for lst in cases:
        outs = W.run_function(repo, HELPERS, "max_timeframe", lambda it: ([list(lst)], {}))
        want = max(lst, key=lambda l: mins[l])
        for out in outs:
            if out.kind != "return" or out.value != want:
                rep.violation(rid, f"max_timeframe|{want}", f"max_timeframe({lst}) = {out.value!r}, expected '{want}'")
            rep.instance(rid, "max_timeframe|" + ",".join(lst) if len(lst) < 3 else "max_timeframe|all")
    # anchor_timeframe
    fn = repo.func(UTILS, "anchor_timeframe")
    n = 0
    for l in labels:
        outs = W.run_function(repo, UTILS, "anchor_timeframe", lambda it: ([l], {}))
        for out in outs:
            if out.kind == "raise":
                continue    # no anchor defined for the largest timeframes
            n += 1
            a = out.value
            if not (isinstance(a, str) and a in mins and mins[a] > mins[l] and mins[a] % mins[l] == 0):
                rep.violation(rid, f"anchor_timeframe|{l}", f"anchor_timeframe('{l}') = {a!r}: not a strictly larger whole multiple")
            rep.instance(rid, f"anchor|{l}", {"timeframe": l, "anchor": a})
    if n < 10:
        raise AnalysisError("anchor_timeframe: fewer than 10 mapped timeframes")
    rep.floor(rid, 400)


def check_acceptance(repo, rep):
    """the acceptance clause: 'an order for it at that price is accepted by a fresh account holding the capital'.  The sizing
    rules give cost <= capital, equality included (fee 0 and an exact division), so both exchange models must accept every
    order of the closed cell cost <= capital of a fresh account."""
    from props import c04, c03
    rid = "C17-R5"
    rep.rule(rid, "a fresh account accepts every order whose cost - qty*price on spot, |qty*price|/leverage on futures - is at "
                  "most its balance, EQUALITY INCLUDED (what size_to_qty / risk_to_qty return with fee 0 and an exact quotient): "
                  "on_order_submission of both exchange models, interpreted on boundary and interior witnesses of that cell, "
                  "returns normally on every path")
    n = 0
    # spot: buy orders of the three kinds against a fresh account (no base, nothing resting)
    pts = []
    for q, pr in itertools.product([F(1), F(2), F(7, 2)], [F(2), F(5), F(1, 10)]):
        for extra in (F(0), F(1, 1000), q * pr):
            pts.append({"B": F(0), "S": F(0), "L": F(0), "q": q, "p": pr, "Q": q * pr + extra, "f": F(0) if extra == 0 else F(1, 10)})
    for typ in ("MARKET", "LIMIT", "STOP"):
        for out in c04.run_ops(repo, ["submit"], "buy", typ, pts):
            s = out.interp.samples[0]
            n += 1
            if out.kind == "raise":
                rep.violation(rid, f"spot|buy|{typ}", f"SpotExchange.on_order_submission rejects a buy {typ} order that costs "
                              f"{'exactly' if s['Q'] == s['q'] * s['p'] else 'less than'} the balance of a fresh account with {out.value} "
                              f"(witness {c04.fmt(s)}; path {out.conds}) - a quantity sized to the whole capital is refused")
            rep.instance(rid, f"spot|buy|{typ}|{out.conds}", {"raised": out.kind == "raise", "witnesses": len(out.interp.samples)})
    # futures: both sides, not reduce-only, fresh account (no position, nothing resting)
    sides = {"buy": W.enum_value(repo, "sides", "BUY"), "sell": W.enum_value(repo, "sides", "SELL")}
    limit = W.enum_value(repo, "order_types", "LIMIT")
    fpts = []
    for q, pr, lev in itertools.product([F(1), F(3)], [F(10), F(1, 4)], [F(1), F(2), F(10)]):
        for extra in (F(0), F(1, 1000), q * pr):
            fpts.append({"q": q, "p": pr, "lev": lev, "Wt": q * pr / lev + extra, "f": F(0), "a0": F(0), "P": F(0), "E": F(9), "cp": F(11),
                         "q1": F(1), "p1": F(8), "q2": F(1), "p2": F(15)})
    nonneg = {"q", "p", "Wt", "lev", "f"}
    for side in ("buy", "sell"):
        def mk(dec):
            it = Interp(repo, stubs=W.base_stubs(), samples=[dict(x) for x in fpts], nonneg=set(nonneg), decisions=dec)
            ex = c03.build_margin_world(repo, it, 0, False)
            qty = A("q") if side == "buy" else -A("q")
            o = W.make_order(repo, "O", sides[side], limit, qty, A("p"), reduce_only=False, symbol=c03.SYM)
            return it, lambda it: it.call(it.getattr(ex, "on_order_submission"), [o], {})
        for out in explore(mk, 32):
            s = out.interp.samples[0]
            n += 1
            if out.kind == "raise":
                rep.violation(rid, f"futures|{side}", f"FuturesExchange.on_order_submission rejects a {side} order whose margin "
                              f"requirement is {'exactly' if s['Wt'] == s['q'] * s['p'] / s['lev'] else 'less than'} the balance of a fresh "
                              f"account with {out.value} (witness q={s['q']}, p={s['p']}, leverage={s['lev']}, wallet={s['Wt']}; path {out.conds})")
            rep.instance(rid, f"futures|{side}|{out.conds}", {"raised": out.kind == "raise", "witnesses": len(out.interp.samples)})
    rep.floor(rid, 5)


def run(repo: Repo, rep, tier: str):
    rep.exhaustive = True
    rep.assume("real arithmetic: the cost/risk bounds are discharged as polynomial sign facts on the normal forms; IEEE rounding of the final float division is not modelled")
    rep.guarded(check_sizing, repo, rep)
    rep.guarded(check_bounds, repo, rep)
    rep.guarded(check_rounding, repo, rep)
    rep.guarded(check_decimal, repo, rep)
    rep.guarded(check_timeframes, repo, rep)
    rep.guarded(check_tables, repo, rep)
    rep.guarded(check_acceptance, repo, rep)
    rep.undecided_item("the bound 'never costs more than the capital' under IEEE-754 rounding of size/price and of the final division (decided in real arithmetic only)")


CLAIM = {
    "engine": "absint",
    "technique": "symbolic normal forms of the sizing/rounding helpers (abstract interpretation with opaque floor/pow atoms) + polynomial sign discharge + exhaustive pairwise interpretation of the timeframe cascade",
    "text": "Static. size_to_qty, risk_to_size, risk_to_qty, limit_stop_loss, estimate_risk, floor_with_precision and round_decimals_down "
            "are interpreted symbolically and their normal forms compared with the reference formulas; the never-overspend and "
            "never-over-risk inequalities then follow in real arithmetic from floor(xT)/T <= x and the discharged polynomial sign "
            "(1-3f)(1+f)-1 <= 0; no round/ceil primitive occurs on a quantity path and the only upward step in round_qty_for_live_mode "
            "is the zero->minimum-unit exception. Decimal helpers are exact. max_timeframe is interpreted on every singleton and pair "
            "of the 17 timeframes and the full set; anchor_timeframe maps to strictly larger multiples. Acceptance clause: on_order_submission of the spot and the futures exchange model accepts, on a fresh account, every order of the closed cell cost <= balance (boundary witnesses included). Not decided: IEEE float rounding. The two bounds themselves (cost incl. fee <= capital, risk <= r %) are evaluated in exact arithmetic on the expression returned for each point of a witness grid covering both cells of the size cap, both sides, fee 0 and > 0 (R6). max_timeframe is also interpreted on both orders of every pair and on every ordered triple of six timeframes.",
    "note": "Trusted: interpreter semantics; floor / 10**p kept as opaque atoms; real arithmetic.",
}
