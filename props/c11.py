"""C11 - research.backtest is a pure, repeatable function of its arguments.

Static rule (engine E8): inventory every module-level mutable cell (dict / list /
set, singleton instances, lru_cache memos) defined in a module reachable from
_isolated_backtest through the name-based call graph.  Each cell must be
discharged by an entry of the table below, and every entry is verified on the
current source: (a) reset on entry - a resetting construct for the cell is reached
on every path of _isolated_backtest before the simulator runs; (b) pure memo /
read-only; (c) a named exemption.  A cell that is not in the table, or whose
entry no longer verifies, is a violation.  Equality of results is not decided
(needs execution): the rule decides the necessary condition "no session-varying
state survives between calls" and "arguments are not mutated".
"""
from __future__ import annotations

import ast
from typing import Dict, List, Set, Tuple

from vlib.loader import Repo, AnalysisError, norm
from vlib.traces import Tracer, Cfg, make_inliner, RAISE, dotted
from vlib import simloops as SL

ENTRY = ("jesse/research/backtest.py", "_isolated_backtest")
SKIP = ("jesse/modes/optimize_mode", "jesse/modes/import_candles_mode", "jesse/services/web", "jesse/controllers", "jesse/modes/data_provider",
        "jesse/exchanges/exchange", "jesse/indicators", "jesse/services/migrator", "jesse/modes/optimize")


def reachable(repo: Repo):
    mods = repo.modules
    fidx: Dict[str, List[Tuple[str, ast.FunctionDef]]] = {}
    for rel, m in mods.items():
        for n in ast.walk(m.tree):
            if isinstance(n, ast.FunctionDef):
                fidx.setdefault(n.name, []).append((rel, n))
    entry = repo.func(*ENTRY)
    seen, work, out = set(), [(ENTRY[0], entry)], []
    while work:
        rel, fn = work.pop()
        key = (rel, fn.name, fn.lineno)
        if key in seen:
            continue
        seen.add(key)
        out.append((rel, fn))
        names = set()
        for c in ast.walk(fn):
            if isinstance(c, ast.Call):
                f = c.func
                names.add(f.id if isinstance(f, ast.Name) else f.attr if isinstance(f, ast.Attribute) else "")
            if isinstance(c, ast.Attribute):
                names.add(c.attr)
        for nm in names:
            for r2, f2 in fidx.get(nm, []):
                if not r2.startswith(SKIP):
                    work.append((r2, f2))
    return out


def inventory(repo: Repo, reach):
    cells = []
    for rel in sorted({r for r, _ in reach}):
        m = repo.module(rel)
        for node in m.tree.body:
            tgt = val = None
            if isinstance(node, ast.Assign) and len(node.targets) == 1 and isinstance(node.targets[0], ast.Name):
                tgt, val = node.targets[0].id, node.value
            elif isinstance(node, ast.AnnAssign) and isinstance(node.target, ast.Name) and node.value is not None:
                tgt, val = node.target.id, node.value
            if tgt is None:
                continue
            kind = None
            if isinstance(val, (ast.Dict, ast.List, ast.Set, ast.DictComp, ast.ListComp, ast.SetComp)):
                kind = "container"
            elif isinstance(val, ast.Call):
                fn = norm(val.func)
                last = fn.split(".")[-1]
                if last in ("dict", "list", "set", "defaultdict", "deque", "OrderedDict"):
                    kind = "container"
                elif last == "copy":
                    kind = "container"
                elif last == "namedtuple" or last in ("TypeVar",):
                    kind = None
                elif last[:1].isupper():
                    kind = "instance:" + last
            if kind:
                cells.append((rel, tgt, kind))
        for n in ast.walk(m.tree):
            if isinstance(n, ast.FunctionDef) and any("lru_cache" in norm(d) or norm(d) in ("cache", "functools.cache") for d in n.decorator_list):
                cells.append((rel, n.name, "memo"))
    return cells


def writers(repo: Repo, reach, rel: str, name: str) -> List[str]:
    """reachable functions that mutate the cell (subscript/attribute stores, mutator calls, global rebinding)"""
    out = []
    mut = {"append", "extend", "clear", "update", "add", "pop", "popitem", "remove", "insert", "setdefault", "discard", "appendleft"}
    for r2, fn in reach:
        m = repo.module(r2)
        # is `name` (possibly aliased) the cell in this module?
        local = None
        if r2 == rel:
            local = name
        else:
            for k, (d, a) in m.imports.items():
                if a == name and repo.name_to_rel.get(d) == rel:
                    local = k
        if local is None:
            continue
        hit = False
        for n in ast.walk(fn):
            tg = []
            if isinstance(n, ast.Assign):
                tg = n.targets
            elif isinstance(n, (ast.AugAssign, ast.AnnAssign)):
                tg = [n.target]
            for t in tg:
                base = t
                while isinstance(base, (ast.Subscript, ast.Attribute)):
                    base = base.value
                if isinstance(base, ast.Name) and base.id == local and (t is not base or any(isinstance(g, ast.Global) and local in g.names for g in ast.walk(fn))):
                    hit = True
            if isinstance(n, ast.Call) and isinstance(n.func, ast.Attribute) and n.func.attr in mut:
                base = n.func.value
                while isinstance(base, (ast.Subscript, ast.Attribute)):
                    base = base.value
                if isinstance(base, ast.Name) and base.id == local:
                    hit = True
        if hit:
            out.append(f"{r2}:{fn.name}")
    return sorted(set(out))


def clearers(repo: Repo, reach, rel: str, name: str) -> List[str]:
    """functions (anywhere in the analysed modules) that empty the cell: NAME.clear() or `global NAME; NAME = <new container>`"""
    out = []
    for r2, m in repo.modules.items():
        if r2.startswith(SKIP):
            continue
        local = None
        if r2 == rel:
            local = name
        else:
            for k, (d, a) in m.imports.items():
                if a == name and repo.name_to_rel.get(d) == rel:
                    local = k
        if local is None:
            continue
        for fn in ast.walk(m.tree):
            if not isinstance(fn, ast.FunctionDef):
                continue
            hit = False
            for n in ast.walk(fn):
                if isinstance(n, ast.Call) and isinstance(n.func, ast.Attribute) and n.func.attr == "clear" and isinstance(n.func.value, ast.Name) and n.func.value.id == local:
                    hit = True
                if isinstance(n, ast.Assign) and any(isinstance(t, ast.Name) and t.id == local for t in n.targets) and \
                        any(isinstance(g, ast.Global) and local in g.names for g in ast.walk(fn)) and \
                        isinstance(n.value, (ast.Dict, ast.List, ast.Set, ast.Call)):
                    hit = True
            if hit:
                out.append(f"{r2}:{fn.name}")
    return sorted(set(out))


# ------------------------------------------------------------------ verification helpers
def entry_calls_before_simulator(repo: Repo, wanted: Set[str], inline_names: Set[str]):
    """for every non-raising path of _isolated_backtest: the set of wanted callee names seen before `simulator`"""
    mod = repo.module(ENTRY[0])
    fn = repo.func(*ENTRY)
    cfg = Cfg(call=lambda label, node: ("call", SL.last(label)) if SL.last(label) in wanted | {"simulator"} else None,
              inline=make_inliner_any(repo, inline_names), loop_unroll=1, max_depth=4)
    res = []
    for evs, ex in Tracer(repo, cfg).block(fn.body, (mod, None), 0):
        if ex == RAISE:
            continue
        names = [e[1] for e in evs if e[0] == "call"]
        if "simulator" in names:
            res.append(set(names[:names.index("simulator")]))
    if not res:
        raise AnalysisError("_isolated_backtest: no path reaching simulator()")
    return res


def make_inliner_any(repo: Repo, names: Set[str]):
    """inline `x.name(...)` / `name(...)` for the given method names by unique name lookup in the repo"""
    index = {}
    for rel, m in repo.modules.items():
        if rel.startswith(SKIP):
            continue
        for n in ast.walk(m.tree):
            if isinstance(n, ast.ClassDef):
                for b in n.body:
                    if isinstance(b, ast.FunctionDef) and b.name in names:
                        index.setdefault(b.name, []).append((m, n, b))
            elif isinstance(n, ast.FunctionDef) and n.name in names and n in m.tree.body:
                index.setdefault(n.name, []).append((m, None, n))

    singletons = {}          # receiver name -> class name, from `x = Cls()` / `x: Cls = Cls()` at module level
    for rel, m in repo.modules.items():
        for node in m.tree.body:
            tgt = val = None
            if isinstance(node, ast.Assign) and len(node.targets) == 1 and isinstance(node.targets[0], ast.Name):
                tgt, val = node.targets[0].id, node.value
            elif isinstance(node, ast.AnnAssign) and isinstance(node.target, ast.Name) and node.value is not None:
                tgt, val = node.target.id, node.value
            if tgt and isinstance(val, ast.Call) and isinstance(val.func, ast.Name) and val.func.id[:1].isupper():
                singletons[tgt] = val.func.id

    def inline(label, node, ctx):
        nm = SL.last(label)
        hits = index.get(nm, [])
        if len(hits) > 1:
            parts = label.rstrip("()").split(".")
            recv = parts[-2] if len(parts) >= 2 else None
            cls_name = singletons.get(recv)
            if recv == "self" and ctx[1] is not None:
                cls_name = ctx[1].name
            hits = [h for h in hits if h[1] is not None and h[1].name == cls_name]
        if len(hits) == 1:
            m, c, f = hits[0]
            return m, f, (m, c)
        return None
    return inline


def method(repo, rel, cls, name):
    return repo.func(rel, f"{cls}.{name}")


def run(repo: Repo, rep, tier: str):
    rid = "C11-R1"
    rep.rule(rid, "every module-level mutable cell in modules reachable from _isolated_backtest is discharged: reset on entry (verified "
                  "by a must-call rule before the simulator and by inspecting the resetting construct), pure memo / read-only, or a named "
                  "exemption; unknown cells and entries that no longer verify are violations")
    reach = reachable(repo)
    cells = inventory(repo, reach)
    rep.extra["reachable_functions"] = len(reach)
    rep.extra["cells"] = [f"{r}:{n} ({k})" for r, n, k in cells]
    if len(reach) < 150 or len(cells) < 12:
        raise AnalysisError(f"inventory too small ({len(reach)} functions, {len(cells)} cells): call graph lost")

    before = entry_calls_before_simulator(repo, {"set_config", "reset_config", "install_routes", "reset", "_reset", "set_routes", "set_data_candles", "initiate", "init_storage",
                                                 "clear", "initiate_drivers"},
                                          {"initiate", "reset", "set_routes"})
    must = lambda nm: all(nm in s for s in before)
    may = lambda nm: any(nm in s for s in before)

    def verify(rel, name, kind):
        key = f"{rel}:{name}"
        w = writers(repo, reach, rel, name) if kind == "container" else []
        # ---- containers
        if key == "jesse/config.py:config":
            # install_routes() is skipped only under the unit-testing guard of StoreClass.reset (tests install routes themselves)
            rs_ = method(repo, "jesse/store/__init__.py", "StoreClass", "reset")
            guard_ok = any(isinstance(n, ast.If) and "is_unit_testing" in norm(n.test) and any(isinstance(c, ast.Call) and SL.last(dotted(c.func)) == "install_routes" for x in n.body for c in ast.walk(x))
                           for n in ast.walk(rs_))
            ok = must("set_config") and must("reset") and may("install_routes") and guard_ok
            fn = repo.func(*ENTRY)
            tm = any(isinstance(n, ast.Assign) and "trading_mode" in norm(n.targets[0]) for n in ast.walk(fn))
            if not (ok and tm):
                return f"config is not re-initialised from the arguments on entry (set_config: {must('set_config')}, install_routes: {must('install_routes')}, trading_mode: {tm})"
            # every other writer (e.g. the simulators switching config['app']['debug_mode'] on for generate_logs, set_config leaving the
            # per-exchange entries of earlier sessions behind) is discharged only by a DEEP restore of the defaults on entry:
            # reset_config() must run before set_config on every path, must copy backup_config deeply, and backup_config itself
            # must be a deep copy (a shallow copy shares the nested 'app' / 'env' dicts, so nothing nested is ever restored)
            rc = repo.func("jesse/config.py", "reset_config")
            deep_restore = any(isinstance(c, ast.Call) and SL.last(dotted(c.func) or "") == "deepcopy" and "backup_config" in norm(c) for c in ast.walk(rc))
            cmod = repo.module("jesse/config.py")
            deep_backup = any(isinstance(n, ast.Assign) and norm(n.targets[0]) == "backup_config" and isinstance(n.value, ast.Call) and SL.last(dotted(n.value.func) or "") == "deepcopy"
                              for n in cmod.tree.body)
            entry_reset = must("reset_config")
            allowed = {"jesse/config.py:set_config", "jesse/config.py:reset_config", "jesse/store/__init__.py:install_routes", "jesse/research/backtest.py:_isolated_backtest"}
            extra = [x for x in w if x not in allowed]
            if not (deep_restore and deep_backup and entry_reset):
                why = []
                if not entry_reset:
                    why.append("reset_config() is not called on entry")
                if not deep_restore:
                    why.append("reset_config() does not copy backup_config deeply")
                if not deep_backup:
                    why.append("backup_config is not a deep copy of the defaults")
                return (f"nested configuration values written during a session are not restored on entry ({'; '.join(why)}): e.g. config['app']['debug_mode'] set by "
                        f"{[x.split(':')[1] for x in extra] or 'the simulators'} for generate_logs, or the per-exchange entries set_config leaves behind, leak into later sessions")
            return None
        if key == "jesse/services/logger.py:LOGGERS":
            sd = repo.func("jesse/modes/utils.py", "save_daily_portfolio_balance")
            guarded = any(isinstance(n, ast.If) and "is_initial" in norm(n.test) and any(isinstance(c, ast.Call) and norm(c.func).endswith("logger.reset") for s in n.body for c in ast.walk(s))
                          for n in ast.walk(sd))
            rs = repo.func("jesse/services/logger.py", "reset")
            clears = any(isinstance(c, ast.Call) and norm(c.func) == "LOGGERS.clear" for c in ast.walk(rs))
            return None if (guarded and clears) else "LOGGERS is not cleared by the initial equity sample of a session"
        if key == "jesse/helpers.py:CACHED_CONFIG":
            # cleared on entry either by set_config itself or by the reset_config() that _isolated_backtest calls right before it
            for fname in ("set_config", "reset_config"):
                f_ = repo.func("jesse/config.py", fname)
                clears = any(isinstance(c, ast.Call) and norm(c.func).endswith("CACHED_CONFIG.clear") for c in ast.walk(f_))
                if clears and must(fname):
                    return None
            return f"memo of config look-ups written by {w} is not invalidated on entry (neither set_config nor an entry-time reset_config() clears it completely): a later session is served the fee / exchange type / leverage of an earlier one"
        if kind == "container":
            if not w:
                return None        # read-only table
            # emptied / re-created by a function that runs before the simulator on every path of _isolated_backtest?
            cl = clearers(repo, reach, rel, name)
            if cl:
                names_ = {c.split(":")[1] for c in cl}
                seen = entry_calls_before_simulator(repo, names_, {"initiate", "reset", "set_routes"})
                if any(all(nm in s_ for s_ in seen) for nm in names_):
                    return None
                return f"written by {w}; emptied only by {cl}, which does not run before the simulator on every path of _isolated_backtest"
            return f"written by {w} and never reset on entry of _isolated_backtest"
        # ---- memos
        if kind == "memo":
            fn = next(f for r, f in [(rel, n) for n in ast.walk(repo.module(rel).tree) if isinstance(n, ast.FunctionDef) and n.name == name])
            src = norm(fn)
            reads_cfg = "config[" in src
            other = [c for c in ("CACHED_CONFIG", "store.", "router.", "get_config(") if c in src]
            if other:
                return f"memoised function reads session state {other}"
            if reads_cfg and "['app']['trading_mode']" not in src.replace('"', "'"):
                return "memoised function reads configuration other than the (constant) trading mode"
            return None
        # ---- instances
        if key == "jesse/store/__init__.py:store":
            if not must("reset"):
                return "store.reset() is not reached before the simulator on every path"
            cls = repo.cls("jesse/store/__init__.py", "StoreClass")
            rs = method(repo, "jesse/store/__init__.py", "StoreClass", "reset")
            state = {b.targets[0].id for b in cls.body if isinstance(b, ast.Assign) and isinstance(b.targets[0], ast.Name)}
            for b in ast.walk(cls):
                if isinstance(b, ast.FunctionDef) and b.name == "__init__":
                    state |= {t.attr for n in ast.walk(b) if isinstance(n, ast.Assign) for t in n.targets if isinstance(t, ast.Attribute) and norm(t.value) == "self"}
            reset_attrs = {t.attr for n in ast.walk(rs) if isinstance(n, ast.Assign) for t in n.targets if isinstance(t, ast.Attribute) and norm(t.value) == "self"}
            missing = sorted(state - reset_attrs)
            if missing:
                return f"StoreClass.reset() does not re-create {missing}: that state survives from one session to the next"
            return None
        if key == "jesse/routes/__init__.py:router":
            ini = method(repo, "jesse/routes/__init__.py", "RouterClass", "initiate")
            names = {SL.last(dotted(c.func)) for c in ast.walk(ini) if isinstance(c, ast.Call)}
            rst = method(repo, "jesse/routes/__init__.py", "RouterClass", "_reset")
            cls = repo.cls("jesse/routes/__init__.py", "RouterClass")
            init = method(repo, "jesse/routes/__init__.py", "RouterClass", "__init__")
            st = {t.attr for n in ast.walk(init) if isinstance(n, ast.Assign) for t in n.targets if isinstance(t, ast.Attribute)}
            rs = {t.attr for n in ast.walk(rst) if isinstance(n, ast.Assign) for t in n.targets if isinstance(t, ast.Attribute)}
            sr = method(repo, "jesse/routes/__init__.py", "RouterClass", "set_routes")
            calls_reset = any(isinstance(c, ast.Call) and norm(c.func) == "self._reset" for c in ast.walk(sr))
            if not (must("initiate") and {"set_routes", "set_data_candles"} <= names and calls_reset and st <= rs):
                return f"router is not fully re-initialised on entry (state {sorted(st)}, reset {sorted(rs)})"
            return None
        if key == "jesse/services/api.py:api":
            # drivers are created in API.__init__ (import time) from app.considering_exchanges
            if must("initiate_drivers"):
                return None
            return "API drivers are created once at import from config['app']['considering_exchanges'] and are not re-created on entry: a later session under another exchange name finds no driver (orders silently dropped)"
        if kind.startswith("instance:"):
            return EXEMPT_INSTANCES.get(key, "unknown singleton")
        return "unknown cell"

    for rel, name, kind in cells:
        key = f"{rel}:{name}"
        if key in EXEMPT:
            rep.instance(rid, key, {"cell": key, "kind": kind, "discharge": "exempt: " + EXEMPT[key]})
            continue
        problem = verify(rel, name, kind)
        if isinstance(problem, str) and problem.startswith("exempt:"):
            rep.instance(rid, key, {"cell": key, "kind": kind, "discharge": problem})
            continue
        if problem:
            rep.violation(rid, key, f"global state cell {key} ({kind}) is not discharged: {problem}", {"cell": key})
        rep.instance(rid, key, {"cell": key, "kind": kind, "discharge": "verified" if not problem else "FAILED"})
    rep.floor(rid, 12)

    # ------------------------------------------------------------------ hash-order independence
    rid3 = "C11-R3"
    rep.rule(rid3, "repeatable across fresh processes: in code reachable from _isolated_backtest no set (whose iteration order over strings "
                   "follows the per-process hash seed) is turned into an ordered sequence - tuple(s) / list(s) / next(iter(s)) / s.pop() - "
                   "unless through sorted(): the order of symbols / exchanges / timeframes decides position order, summation order and "
                   "which candle array defines the session length")
    n_sets = 0
    for rel, f in reach:
        setvars = set()
        for n in ast.walk(f):
            if isinstance(n, ast.Assign) and len(n.targets) == 1 and isinstance(n.targets[0], ast.Name):
                v = n.value
                is_set = (isinstance(v, ast.Call) and isinstance(v.func, ast.Name) and v.func.id in ("set", "frozenset")) or isinstance(v, (ast.Set, ast.SetComp)) \
                    or (isinstance(v, ast.Call) and isinstance(v.func, ast.Attribute) and v.func.attr in ("copy", "union", "intersection", "difference")
                        and isinstance(v.func.value, ast.Name) and v.func.value.id in setvars)
                if is_set:
                    setvars.add(n.targets[0].id)
        if not setvars:
            continue
        n_sets += len(setvars)
        for n in ast.walk(f):
            if isinstance(n, ast.Call) and isinstance(n.func, ast.Name) and n.func.id in ("tuple", "list") and n.args and isinstance(n.args[0], ast.Name) and n.args[0].id in setvars:
                rep.violation(rid3, f"{rel}:{f.name}|{n.args[0].id}", f"{rel}:{f.name}: `{norm(n)}` orders the set `{n.args[0].id}` by the per-process string hash (use an insertion-ordered "
                                                                        f"container or sorted()): results of research.backtest differ between fresh processes")
            if isinstance(n, ast.Call) and isinstance(n.func, ast.Attribute) and n.func.attr == "pop" and isinstance(n.func.value, ast.Name) and n.func.value.id in setvars and not n.args:
                rep.violation(rid3, f"{rel}:{f.name}|{n.func.value.id}|pop", f"{rel}:{f.name}: `{norm(n)}` takes an arbitrary (hash-ordered) element of a set")
        rep.instance(rid3, f"{rel}:{f.name}", {"function": f"{rel}:{f.name}", "set_variables": sorted(setvars)})
    rep.instance(rid3, "scan", {"functions": len(reach), "set_variables": n_sets})
    rep.floor(rid3, 1)

    # ------------------------------------------------------------------ cleanup order
    rid4 = "C11-R4"
    rep.rule(rid4, "end-of-session cleanup of _isolated_backtest: store.reset() rebuilds the store from the installed routes and looks up "
                   "config['env']['exchanges'][<route exchange>], so it must run while the session's configuration is still in place, "
                   "i.e. before the reset_config() that restores the defaults (otherwise a custom exchange name raises KeyError)")
    fn4 = repo.func(*ENTRY)
    sims = [c.lineno for c in ast.walk(fn4) if isinstance(c, ast.Call) and SL.last(dotted(c.func) or "") == "simulator"]
    if not sims:
        raise AnalysisError("_isolated_backtest: simulator call not found")
    after = [(c.lineno, norm(c.func)) for c in ast.walk(fn4) if isinstance(c, ast.Call) and c.lineno > max(sims) and norm(c.func) in ("store.reset", "reset_config")]
    after.sort()
    names4 = [n for _, n in after]
    if "reset_config" in names4 and "store.reset" in names4 and names4.index("reset_config") < names4.index("store.reset"):
        rep.violation(rid4, "cleanup-order", "_isolated_backtest: reset_config() runs before store.reset() at the end of a session: the store is rebuilt from the routes after the "
                                             "session's exchange entries were removed from the configuration (KeyError for an exchange name that is not one of jesse's built-in ones)")
    rep.instance(rid4, "epilogue", {"calls_after_simulator": names4})
    rep.floor(rid4, 1)

    # ------------------------------------------------------------------ other process-wide state
    rid5 = "C11-R5"
    rep.rule(rid5, "state that outlives a session without being a module-level cell: (a) a model field declared with a mutable literal "
                   "default (`Field(default={})`) hands the SAME object to every instance of every session; (b) handlers attached to a "
                   "`logging.getLogger(...)` logger stay in the logging module's registry - the reset of the logger service must detach "
                   "them, or later sessions keep writing into the log file of an earlier one; (c) the `hyperparameters` argument must "
                   "reach a strategy (which may update self.hp) only as a copy")
    # (d) a mutable container bound to a CLASS attribute is one object for every instance of every session (`vars: dict = {}` in a
    # class body instead of `self.vars = {}` in __init__)
    for rel in sorted({r for r, _ in reach} | {"jesse/strategies/Strategy.py"}):
        for cls_ in [c for c in ast.walk(repo.module(rel).tree) if isinstance(c, ast.ClassDef)]:
            for b in cls_.body:
                v = b.value if isinstance(b, ast.Assign) else (b.value if isinstance(b, ast.AnnAssign) else None)
                if v is None:
                    continue
                names_ = [t.id for t in (b.targets if isinstance(b, ast.Assign) else [b.target]) if isinstance(t, ast.Name)]
                mutable = isinstance(v, (ast.Dict, ast.List, ast.Set, ast.ListComp, ast.DictComp, ast.SetComp)) or \
                    (isinstance(v, ast.Call) and isinstance(v.func, ast.Name) and v.func.id in ("dict", "list", "set", "defaultdict", "OrderedDict", "deque"))
                if mutable and names_ and not names_[0].startswith("__") and names_[0] not in ("_fields_",):
                    rep.violation(rid5, f"class-attribute|{rel}:{cls_.name}.{names_[0]}", f"{rel}: class {cls_.name} binds a mutable container to the class attribute `{names_[0]}` "
                                  f"(`{norm(b)[:60]}`): every instance of every session shares it - what one session stores there is seen by the next")
        rep.instance(rid5, f"class-attributes|{rel}")
    # (a)
    n5 = 0
    for rel in sorted({r for r, _ in reach}):
        for n in ast.walk(repo.module(rel).tree):
            if isinstance(n, ast.Call) and isinstance(n.func, (ast.Name, ast.Attribute)) and SL.last(dotted(n.func) or "").endswith("Field"):
                for kw in n.keywords:
                    if kw.arg == "default" and (isinstance(kw.value, (ast.Dict, ast.List, ast.Set)) or
                                                (isinstance(kw.value, ast.Call) and isinstance(kw.value.func, ast.Name) and kw.value.func.id in ("dict", "list", "set"))):
                        rep.violation(rid5, f"{rel}|field-default|{norm(n)[:40]}", f"{rel}: `{norm(n)}` - the mutable default object is shared by every instance (and every session) of the model; "
                                                                                 f"whatever one order / session stores in it is seen by all later ones")
                n5 += 1
    rep.instance(rid5, "model-fields", {"field_declarations_scanned": n5})
    # (b)
    lg = repo.module("jesse/services/logger.py")
    adds = [n for n in ast.walk(lg.tree) if isinstance(n, ast.Call) and isinstance(n.func, ast.Attribute) and n.func.attr == "addHandler"]
    rs5 = repo.func("jesse/services/logger.py", "reset")
    detaches = any(isinstance(n, ast.Call) and isinstance(n.func, ast.Attribute) and n.func.attr in ("removeHandler", "clear") and "andler" in norm(n) for n in ast.walk(rs5))
    if adds and not detaches:
        rep.violation(rid5, "logger|handlers-not-detached", "jesse/services/logger.py attaches a FileHandler to a process-wide `logging` logger in every session but reset() only forgets the "
                                                            "logger in LOGGERS: the handler stays attached, so later sessions also write into the log files of earlier ones (and one file "
                                                            "descriptor leaks per session)")
    rep.instance(rid5, "logger-handlers", {"addHandler_sites": len(adds), "reset_detaches": detaches})
    # (c)
    pr = repo.func("jesse/modes/backtest_mode.py", "_prepare_routes")
    hp_stores = [n for n in ast.walk(pr) if isinstance(n, ast.Assign) and len(n.targets) == 1 and norm(n.targets[0]).endswith(".hp")]
    entry_fn = repo.func(*ENTRY)
    sim_kw = [kw for c in ast.walk(entry_fn) if isinstance(c, ast.Call) and SL.last(dotted(c.func) or "") == "simulator" for kw in c.keywords if kw.arg == "hyperparameters"]
    copied_at_entry = bool(sim_kw) and all(isinstance(kw.value, ast.Call) and SL.last(dotted(kw.value.func) or "") in ("deepcopy", "copy", "dict") for kw in sim_kw)
    for st in hp_stores:
        v = st.value
        is_copy = isinstance(v, ast.Call) and SL.last(dotted(v.func) or "") in ("deepcopy", "copy", "dict")
        decoded = isinstance(v, ast.Call) and SL.last(dotted(v.func) or "") == "dna_to_hp"
        if not (is_copy or decoded or copied_at_entry):
            rep.violation(rid5, "hyperparameters|aliased", f"_prepare_routes: `{norm(st)}` hands the caller's hyperparameters object to the strategy (and the same object to every route): "
                                                           f"a strategy that updates self.hp modifies the argument of research.backtest and the other routes")
    if not hp_stores:
        raise AnalysisError("_prepare_routes: no store into strategy.hp found")
    rep.instance(rid5, "hyperparameters", {"stores": [norm(x) for x in hp_stores], "copied_at_entry": copied_at_entry})
    rep.floor(rid5, 3)

    # ------------------------------------------------------------------ arguments unmodified
    rid2 = "C11-R2"
    rep.rule(rid2, "arguments are not mutated: the candle sets handed to the simulator / warm-up injection are deep copies of the "
                   "arguments (the simulators edit candles in place), and _isolated_backtest never stores into its config / routes / "
                   "data_routes / candles arguments")
    fn = repo.func(*ENTRY)
    params = [a.arg for a in fn.args.args]
    assigns = {}
    for n in ast.walk(fn):
        if isinstance(n, ast.Assign) and len(n.targets) == 1 and isinstance(n.targets[0], ast.Name):
            assigns.setdefault(n.targets[0].id, []).append(n.value)

    def is_deepcopy_of(expr, pname):
        return isinstance(expr, ast.Call) and norm(expr.func) in ("copy.deepcopy", "deepcopy") and expr.args and norm(expr.args[0]) == pname
    sim_calls = [c for c in ast.walk(fn) if isinstance(c, ast.Call) and SL.last(dotted(c.func)) == "simulator"]
    if len(sim_calls) != 1:
        raise AnalysisError("_isolated_backtest: simulator() call not found exactly once")
    a0 = sim_calls[0].args[0] if sim_calls[0].args else None

    def values_of(expr, seen=None):
        """the expression with local names replaced (transitively) by what they are assigned"""
        seen = set() if seen is None else seen
        out = [expr]
        for n in ast.walk(expr):
            if isinstance(n, ast.Name) and isinstance(n.ctx, ast.Load) and n.id in assigns and n.id not in params and n.id not in seen:
                seen.add(n.id)
                for v in assigns[n.id]:
                    out += values_of(v, seen)
        return out

    def raw_values_of_param(expr, pname):
        """places where the VALUES of the parameter (not only its keys) flow: anything but `for k in p`, `k in p`, sorted(p) / len(p)
        / list(p), and a deep copy"""
        bad = []
        parents = {}
        for n in ast.walk(expr):
            for c in ast.iter_child_nodes(n):
                parents[id(c)] = n
        for n in ast.walk(expr):
            if isinstance(n, ast.Name) and n.id == pname and isinstance(n.ctx, ast.Load):
                par = parents.get(id(n))
                keys_only = (isinstance(par, ast.comprehension) and par.iter is n) or (isinstance(par, ast.For) and par.iter is n) or \
                    (isinstance(par, ast.Compare) and n in par.comparators and all(isinstance(o, (ast.In, ast.NotIn)) for o in par.ops)) or \
                    (isinstance(par, ast.Call) and norm(par.func) in ("sorted", "len", "list", "set", "copy.deepcopy", "deepcopy") and n in par.args)
                if not keys_only:
                    bad.append(norm(par) if par is not None else pname)
        return bad
    ok = False
    if a0 is not None:
        vals = values_of(a0)
        deep = any(is_deepcopy_of(v, "candles") for v in vals)
        leaks = [b for v in vals for b in raw_values_of_param(v, "candles")]
        ok = deep and not leaks
    if not ok:
        rep.violation(rid2, "candles-deepcopy", f"the simulator receives `{norm(a0) if a0 is not None else None}`, which is not a deep copy of the `candles` argument: "
                                                f"the simulators edit 1m candles in place (gap normalisation), so the caller's arrays are modified")
    rep.instance(rid2, "simulator-arg", {"arg": norm(a0) if a0 is not None else None})
    # ------------------------------------------------------------------ order of the symbols
    rid6 = "C11-R6"
    rep.rule(rid6, "two `candles` dicts that are equal give the same result: the simulators replay the symbols in the order of the dict they "
                   "are handed, so that dict must not inherit the insertion order of the caller's dict (a plain copy does) - it is built "
                   "by iterating over something else (the routes / the configuration / sorted keys)")
    if isinstance(a0, ast.Name):
        direct = [v for v in assigns.get(a0.id, [])]
        inherits = []
        for v in direct:
            if is_deepcopy_of(v, "candles") or (isinstance(v, ast.Call) and norm(v.func) in ("dict", "copy.copy") and v.args and norm(v.args[0]) == "candles") \
                    or (isinstance(v, ast.Name) and v.id == "candles"):
                inherits.append(norm(v))
            elif isinstance(v, ast.DictComp):
                it0 = v.generators[0].iter
                src = norm(it0)
                # iterating the caller's dict (or a copy of it) keeps its insertion order
                base = it0
                while isinstance(base, ast.Call) and isinstance(base.func, ast.Attribute) and base.func.attr in ("items", "keys", "values"):
                    base = base.func.value
                if isinstance(base, ast.Name) and (base.id == "candles" or any(is_deepcopy_of(x, "candles") for x in assigns.get(base.id, []))):
                    inherits.append(f"{{... for ... in {src}}}")
        if inherits:
            rep.violation(rid6, "symbol-order", f"the simulator receives `{a0.id}` = {inherits[0]}: the symbols are replayed in the insertion order of the caller's `candles` dict, so two "
                                                f"equal dicts built in a different order give different results (fills of the symbols reach a shared wallet in another order)")
        rep.instance(rid6, "simulator-arg-order", {"arg": a0.id, "built_from": [norm(v)[:80] for v in direct]})
    rep.floor(rid6, 1)
    inj = [c for c in ast.walk(fn) if isinstance(c, ast.Call) and SL.last(dotted(c.func)) == "inject_warmup_candles_to_store"]
    for c in inj:
        base = c.args[0]
        while isinstance(base, (ast.Subscript, ast.Attribute)):
            base = base.value
        okw = isinstance(base, ast.Name) and any(is_deepcopy_of(v, "warmup_candles") for v in assigns.get(base.id, []))
        if not okw:
            rep.violation(rid2, "warmup-deepcopy", f"warm-up injection receives `{norm(c.args[0])}`, not a deep copy of the `warmup_candles` argument")
        rep.instance(rid2, "warmup-arg", {"arg": norm(c.args[0])})
    for n in ast.walk(fn):
        tg = n.targets if isinstance(n, ast.Assign) else [n.target] if isinstance(n, ast.AugAssign) else []
        for t in tg:
            base = t
            while isinstance(base, (ast.Subscript, ast.Attribute)):
                base = base.value
            if t is not base and isinstance(base, ast.Name) and base.id in ("config", "routes", "data_routes", "candles", "warmup_candles", "hyperparameters"):
                rep.violation(rid2, f"arg-store|{base.id}", f"_isolated_backtest stores into its argument: {norm(n)[:100]}")
    rep.instance(rid2, "no-arg-stores")
    rep.floor(rid2, 2)
    rep.undecided_item("equality of the results of two calls (needs execution); the rule decides that no session-varying global state survives and that arguments are not mutated")
    rep.undecided_item("state held inside user strategy classes or third-party libraries")


EXEMPT = {
    "jesse/config.py:backup_config": "read only by reset_config() after a run; never written",
    "jesse/services/cache.py:cache": "disk cache of database candle queries, keyed by exchange/symbol/date range; not used by research.backtest (candles are passed in)",
    "jesse/services/db.py:database": "database handle (no session data)",
    "jesse/services/multiprocessing.py:process_manager": "web/dashboard process manager; not used by the isolated backtest",
    "jesse/services/notifier.py:MSG_QUEUE": "live-mode notification queue (guarded by is_live())",
    "jesse/services/color.py:_generated_colors": "chart colour bookkeeping (cosmetic)",
    "jesse/services/redis.py:sync_redis": "redis connection (dashboard only)",
    "jesse/services/redis.py:async_redis": "redis connection (dashboard only)",
    "jesse/services/env.py:ENV_VALUES": "process environment read once at import; not session configuration of research.backtest",
    "jesse/info.py:exchange_info": "static exchange catalogue (read-only)",
}
EXEMPT_INSTANCES: Dict[str, str] = {}


CLAIM = {
    "engine": "globals",
    "technique": "global-state inventory over the call graph reachable from _isolated_backtest + reset-on-entry must-call rule + def-use rule for the deep copies of the arguments",
    "text": "Static. Every module-level mutable cell (containers, singletons, lru_cache memos) in the ~45 modules reachable from "
            "_isolated_backtest is inventoried on each run; each must be discharged by a verified reset-on-entry (store: reset() "
            "re-creates every state attribute; router: initiate/_reset; config: a DEEP restore of the defaults by reset_config() on entry, "
            "then set_config + install_routes + trading_mode; LOGGERS: cleared "
            "by the initial equity sample), be read-only / a pure memo, or carry a named exemption. Unknown cells and failing entries are "
            "violations. Candle arguments must reach the simulator only as deep copies and no argument may be stored into. No set is "
            "turned into an ordered sequence in reachable code (iteration order of strings follows the per-process hash seed); the final "
            "cleanup rebuilds the store before it restores the configuration. Model fields must not have mutable literal defaults, the "
            "logger reset must detach the handlers it attached to the process-wide logging registry, and the hyperparameters argument must "
            "reach a strategy only as a copy. "
            "Not decided: equality of results (needs execution).",
    "note": "Trusted: name-based call graph (over-approximate), the exemption table with its reasons.",
}
