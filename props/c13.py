"""C13 - indicator series are causal: value i depends only on candles 0..i.

Technique: dependence analysis (abstract interpretation, engine E7).  Every public
indicator with a `sequential` parameter is interpreted from /repo's source on an
abstract candle array of concrete length; each output element carries the set of
candle indices it may depend on (explicit and implicit flows).  An element i whose
dependence set contains a candle j > i is a look-ahead.
"""
from __future__ import annotations

import ast
import os
from concurrent.futures import ProcessPoolExecutor

from vlib.loader import Repo, AnalysisError
from vlib import indic_run as IR
from vlib.indic_vals import NA, D

EXEMPT = {"minmax": "documented: an extremum needs `order` confirming candles"}
N_DEFAULT = 60
N_LONG = 130
N_XLONG = 260


def int_params(fn: ast.FunctionDef):
    """(name, default) of integer-valued window/period style parameters"""
    out = []
    args = fn.args.args
    defaults = fn.args.defaults
    off = len(args) - len(defaults)
    for i, a in enumerate(args):
        if i < off:
            continue
        d = defaults[i - off]
        if isinstance(d, ast.Constant) and isinstance(d.value, int) and not isinstance(d.value, bool):
            if a.arg in ("matype", "devtype", "signal_matype", "fast_matype", "slow_matype", "slowk_matype", "slowd_matype", "fastd_matype", "sequential"):
                continue
            if "matype" in a.arg:
                continue
            out.append((a.arg, d.value))
    return out


def nan_stripping_matypes(repo: Repo):
    """matype numbers of ma() whose implementation strips NaNs with a boolean mask (x[~isnan(x)]) - read from the dispatcher"""
    try:
        ma = repo.func("jesse/indicators/ma.py", "ma")
    except AnalysisError:
        return []
    out = []
    for node in ast.walk(ma):
        if not isinstance(node, ast.If):
            continue
        t = node.test
        nums = []
        for c in ([t] if isinstance(t, ast.Compare) else (t.values if isinstance(t, ast.BoolOp) else [])):
            if isinstance(c, ast.Compare) and isinstance(c.left, ast.Name) and c.left.id == "matype" and len(c.comparators) == 1 and isinstance(c.comparators[0], ast.Constant):
                nums.append(c.comparators[0].value)
        mods = [a.name for st in node.body if isinstance(st, ast.ImportFrom) and st.level == 1 for a in st.names]
        for m in mods:
            rel = f"jesse/indicators/{m}.py"
            try:
                tree = repo.module(rel).tree
            except Exception:
                continue
            strips = any(isinstance(n, ast.Subscript) and any(isinstance(x, ast.Call) and isinstance(x.func, ast.Attribute) and x.func.attr == "isnan" for x in ast.walk(n.slice))
                         for n in ast.walk(tree))
            if strips:
                out += [n for n in nums if isinstance(n, int)]
    return sorted(set(out))


def variants(fn: ast.FunctionDef, tier: str, strip_types=()):
    vs = [("defaults", {})]
    ip = int_params(fn)
    if ip:
        vs.append(("periods+1", {k: v + 1 for k, v in ip if v >= 2}))
        vs.append(("periods=2", {k: 2 for k, v in ip if v > 2}))
        vs.append(("periods=1", {k: 1 for k, v in ip if v > 1}))
        if tier == "thorough":
            vs.append(("periods=small-odd", {k: (5 if v >= 5 else v) for k, v in ip if v >= 2}))
            vs.append(("periods+3", {k: v + 3 for k, v in ip if v >= 2}))
    # one parameter small while the others keep their defaults (relations between parameters: a look-back that is shorter than
    # another one can index before the start of the series and wrap around to its end)
    if len(ip) >= 2:
        for k, v in ip:
            if v > 2:
                vs.append((f"{k}=2", {k: 2}))
    # selectable moving average: also a recursive one (1 = ema), whose value depends on the whole (sliced) history
    mt = ma_params(fn)
    if mt:
        vs.append(("matype=ema", {k: 1 for k in mt}))
        # moving averages that strip NaNs from their input: fed with a computed series that can contain NaN (0/0 on a flat candle)
        for n in strip_types:
            vs.append((f"matype={n}", {k: n for k in mt}))
    # the other source columns: volume can be zero on a valid (no-trade) candle
    if any(a.arg == "source_type" for a in fn.args.args):
        vs.append(("source_type=volume", {"source_type": "volume"}))
    return [(n, o) for n, o in vs if n == "defaults" or o]


def ma_params(fn: ast.FunctionDef):
    out = []
    args, defaults = fn.args.args, fn.args.defaults
    off = len(args) - len(defaults)
    for i, a in enumerate(args):
        if i >= off and "matype" in a.arg and isinstance(defaults[i - off], ast.Constant) and isinstance(defaults[i - off].value, int) and defaults[i - off].value != 1:
            out.append(a.arg)
    return out


def analyse_one(args):
    root, name, rel, tier = args
    repo = Repo(root)
    fn = repo.func(rel, name) if repo.has_func(rel, name) else None
    if fn is None:
        # public name may be an alias
        for pn, prel, pfn in IR.public_indicators(repo):
            if pn == name:
                fn = pfn
    res = []
    for vname, over in variants(fn, tier, nan_stripping_matypes(repo)):
        r = None
        for n in (N_DEFAULT, N_LONG, N_XLONG):
            r = IR.run_indicator(repo, rel, fn, n, True, overrides=over)
            if r[0] == "undecided":
                break
            if r[0] == "ok":
                # an output without a single computed element (the series is shorter than the indicator's look-back) decides nothing
                series = [v for fname, v in IR.fields_of(r[1]) if isinstance(v, NA) and v.ndim == 1]
                if not series or any(not (isinstance(x, float) and x != x) for v in series for x in v.data):
                    break
                r = ("undecided", f"every element of the output is NaN for {n} candles (look-back longer than the analysed series)")
        if r[0] != "ok":
            res.append((vname, over, r[0], r[1], None))
            continue
        fields = []
        for fname, v in IR.fields_of(r[1]):
            if isinstance(v, NA) and v.ndim == 1:
                lead, at = IR.future_lead(v)
                fields.append((fname, len(v.data), lead, at))
            elif isinstance(v, NA):
                fields.append((fname, -2, None, None))
            else:
                fields.append((fname, -1, None, None))
        res.append((vname, over, "ok", n, fields))
    return name, rel, res


def run(repo: Repo, rep, tier: str):
    rid = "C13-R1"
    rep.rule(rid, "dependence analysis of every public indicator (sequential=True; default parameters and shifted periods): no element "
                  "i of any returned series may depend - through data or control flow - on a candle j > i")
    rep.assume("valid candles: prices > 0, volume >= 0 (flat candles and no-trade candles are legal); a computed value may be NaN / infinite only through a denominator that is not provably "
               "positive (sign analysis, vlib/indic_finite.py; zero-tests in np.where / if guards are honoured) or a logarithm / negative power of such a value")
    rep.assume("x[~isnan(x)] (NaN-stripping of a warm-up padded series): the constant NaN padding is removed; a computed element that may be NaN makes the position of every surviving element depend on it")
    rep.assume("candle values are finite (isnan/isinf of a raw candle value is False); x*0 carries no dependence unless x may be infinite / NaN (0*inf = NaN); slices are copies")
    rep.assume("dependence is a may-analysis: a reported look-ahead is a syntactic flow from candle j > i to element i (all findings on the unchanged tree were confirmed against the running code)")
    inds = [(n, rel, fn) for n, rel, fn in IR.public_indicators(repo) if any(a.arg == "sequential" for a in fn.args.args)]
    jobs = [(repo.root, fn.name, rel, tier) for n, rel, fn in inds]
    pub = {fn.name: n for n, rel, fn in inds}
    decided = undecided = 0
    with ProcessPoolExecutor(max_workers=min(16, os.cpu_count() or 1)) as ex:
        results = list(ex.map(analyse_one, jobs, chunksize=4))
    for fname_, rel, res in results:
        name = pub.get(fname_, fname_)
        for vname, over, status, info, fields in res:
            key = f"{name}|{vname}"
            if status != "ok":
                undecided += 1
                rep.undecided_item(f"{name} [{vname}]: {status}: {str(info)[:80]}")
                continue
            decided += 1
            worst = None
            for f, ln, lead, at in fields:
                if lead is not None and lead > 0:
                    if name in EXEMPT:
                        continue
                    rep.violation(rid, f"{name}|{f}",
                                  f"indicator {name} ({vname} {over or ''}): element {at} of series '{f}' depends on candle {at + lead} "
                                  f"(look-ahead of {lead} candle(s)) in {rel}", {"indicator": name, "field": f, "lead": lead, "index": at, "params": over})
                    worst = (f, lead, at)
            rep.instance(rid, key, {"indicator": name, "variant": vname, "fields": [(f, ln, lead) for f, ln, lead, at in fields]} if (decided % 25 == 1 or worst) else None)
    rep.extra["indicators_analysed"] = len(inds)
    rep.extra["runs_decided"] = decided
    rep.extra["runs_undecided"] = undecided
    rep.extra["exempt"] = EXEMPT
    if decided < 150:
        raise AnalysisError(f"only {decided} indicator runs reached a verdict (expected >= 150)")
    rep.floor(rid, 150)


CLAIM = {
    "engine": "indicators",
    "technique": "dependence analysis (abstract interpretation of numpy/numba kernels with per-element candle-index sets, explicit + implicit flows)",
    "text": "Static. Each of the ~170 public indicators is interpreted from /repo's source (numba kernels, numpy vector code, helper "
            "indicators it calls) on an abstract candle array: candle values are symbols, lengths / periods / weights / indices are "
            "concrete, so wrap-around reads (x[i-1] at i = 0), window offsets, shifts, rolls, convolutions and whole-array reductions "
            "are tracked exactly; branches on candle values execute both sides and join (implicit flows). Element i of a returned "
            "series must not depend on a candle j > i. Run for default parameters, shifted periods (odd/even windows) and the smallest periods (1 and 2). "
            "Indicators using constructs outside the interpreter's table are listed as undecided, never as violations.",
    "note": "Trusted: the numpy model (frozen table of ~150 functions); finite candle values; may-dependence (findings on the unchanged tree were confirmed dynamically before being listed as known findings). One input length per run (60 / 130 candles).",
}
