"""C13 - indicator series are causal: value i depends only on candles 0..i.

Technique: dependence analysis (abstract interpretation, engine E7).  Every public
indicator with a `sequential` parameter is interpreted from /repo's source on an
abstract candle array of concrete length; each output element carries the set of
candle indices it may depend on (explicit and implicit flows).  An element i whose
dependence set contains a candle j > i is a look-ahead.
"""
from __future__ import annotations

import ast
import os
from concurrent.futures import ProcessPoolExecutor

from vlib.loader import Repo, AnalysisError
from vlib import indic_run as IR
from vlib.indic_vals import NA, D, Undecided

EXEMPT = {"minmax": "documented: an extremum needs `order` confirming candles"}
N_DEFAULT = 60
N_LONG = 130
N_XLONG = 260


def int_params(fn: ast.FunctionDef):
    """(name, default) of integer-valued window/period style parameters"""
    out = []
    args = fn.args.args
    defaults = fn.args.defaults
    off = len(args) - len(defaults)
    for i, a in enumerate(args):
        if i < off:
            continue
        d = defaults[i - off]
        if isinstance(d, ast.Constant) and isinstance(d.value, int) and not isinstance(d.value, bool):
            if a.arg in ("matype", "devtype", "signal_matype", "fast_matype", "slow_matype", "slowk_matype", "slowd_matype", "fastd_matype", "sequential"):
                continue
            if "matype" in a.arg:
                continue
            out.append((a.arg, d.value))
    return out


def nan_stripping_matypes(repo: Repo):
    """matype numbers of ma() whose implementation strips NaNs with a boolean mask (x[~isnan(x)]) - read from the dispatcher"""
    try:
        ma = repo.func("jesse/indicators/ma.py", "ma")
    except AnalysisError:
        return []
    out = []
    for node in ast.walk(ma):
        if not isinstance(node, ast.If):
            continue
        t = node.test
        nums = []
        for c in ([t] if isinstance(t, ast.Compare) else (t.values if isinstance(t, ast.BoolOp) else [])):
            if isinstance(c, ast.Compare) and isinstance(c.left, ast.Name) and c.left.id == "matype" and len(c.comparators) == 1 and isinstance(c.comparators[0], ast.Constant):
                nums.append(c.comparators[0].value)
        mods = [a.name for st in node.body if isinstance(st, ast.ImportFrom) and st.level == 1 for a in st.names]
        for m in mods:
            rel = f"jesse/indicators/{m}.py"
            try:
                tree = repo.module(rel).tree
            except Exception:
                continue
            strips = any(isinstance(n, ast.Subscript) and any(isinstance(x, ast.Call) and isinstance(x.func, ast.Attribute) and x.func.attr == "isnan" for x in ast.walk(n.slice))
                         for n in ast.walk(tree))
            if strips:
                out += [n for n in nums if isinstance(n, int)]
    return sorted(set(out))


def variants(fn: ast.FunctionDef, tier: str, strip_types=()):
    vs = [("defaults", {})]
    ip = int_params(fn)
    if ip:
        vs.append(("periods+1", {k: v + 1 for k, v in ip if v >= 2}))
        vs.append(("periods=2", {k: 2 for k, v in ip if v > 2}))
        vs.append(("periods=1", {k: 1 for k, v in ip if v > 1}))
        if tier == "thorough":
            vs.append(("periods=small-odd", {k: (5 if v >= 5 else v) for k, v in ip if v >= 2}))
            vs.append(("periods+3", {k: v + 3 for k, v in ip if v >= 2}))
    # one parameter small while the others keep their defaults (relations between parameters: a look-back that is shorter than
    # another one can index before the start of the series and wrap around to its end)
    if len(ip) >= 2:
        for k, v in ip:
            if v > 2:
                vs.append((f"{k}=2", {k: 2}))
    # selectable moving average: also a recursive one (1 = ema), whose value depends on the whole (sliced) history
    mt = ma_params(fn)
    if mt:
        vs.append(("matype=ema", {k: 1 for k in mt}))
        # moving averages that strip NaNs from their input: fed with a computed series that can contain NaN (0/0 on a flat candle)
        for n in strip_types:
            vs.append((f"matype={n}", {k: n for k in mt}))
    # the other source columns: volume can be zero on a valid (no-trade) candle
    if any(a.arg == "source_type" for a in fn.args.args):
        vs.append(("source_type=volume", {"source_type": "volume"}))
    return [(n, o) for n, o in vs if n == "defaults" or o]


def ma_params(fn: ast.FunctionDef):
    out = []
    args, defaults = fn.args.args, fn.args.defaults
    off = len(args) - len(defaults)
    for i, a in enumerate(args):
        if i >= off and "matype" in a.arg and isinstance(defaults[i - off], ast.Constant) and isinstance(defaults[i - off].value, int) and defaults[i - off].value != 1:
            out.append(a.arg)
    return out


def _analyse_one_unlimited(args):
    root, name, rel, tier = args
    repo = Repo(root)
    fn = repo.func(rel, name) if repo.has_func(rel, name) else None
    if fn is None:
        # public name may be an alias
        for pn, prel, pfn in IR.public_indicators(repo):
            if pn == name:
                fn = pfn
    res = []
    for vname, over in variants(fn, tier, nan_stripping_matypes(repo)):
        r = None
        for n in (N_DEFAULT, N_LONG, N_XLONG):
            r = IR.run_indicator(repo, rel, fn, n, True, overrides=over)
            if r[0] == "undecided":
                break
            if r[0] == "ok":
                # an output without a single computed element (the series is shorter than the indicator's look-back) decides nothing
                series = [v for fname, v in IR.fields_of(r[1]) if isinstance(v, NA) and v.ndim == 1]
                if not series or any(not (isinstance(x, float) and x != x) for v in series for x in v.data):
                    break
                r = ("undecided", f"every element of the output is NaN for {n} candles (look-back longer than the analysed series)")
        if r[0] != "ok":
            res.append((vname, over, r[0], r[1], None))
            continue
        fields = []
        for fname, v in IR.fields_of(r[1]):
            if isinstance(v, NA) and v.ndim == 1:
                lead, at = IR.future_lead(v)
                fields.append((fname, len(v.data), lead, at))
            elif isinstance(v, NA):
                fields.append((fname, -2, None, None))
            else:
                fields.append((fname, -1, None, None))
        res.append((vname, over, "ok", n, fields))
    return name, rel, res


def _analyse_one_timeout(args, msg):
    root, name, rel, tier = args
    return name, rel, [("defaults", {}, "undecided", msg, None)]


def _prefix_one_timeout(args, msg):
    root, name, rel = args
    return name, rel, [(0, 0, "undecided", msg)]


def analyse_one(args):
    """per-indicator wall-clock budget: an interpretation that blows up is reported as undecided for that indicator"""
    from vlib.indic_vals import time_limit, TimeBudget as _U
    try:
        with time_limit(240, "indicator interpretation"):
            return _analyse_one_unlimited(args)
    except _U as e:
        return _analyse_one_timeout(args, str(e))



def growing_normalisers(repo: Repo):
    """public indicators whose module raises a number to a NEGATED power that grows with the input length
    (`x ** (-arange(n))`, `x ** -(n - 1)`): the magnitude of such a factor is unbounded in the length of the input"""
    def growing_negative_power(n) -> bool:
        if not (isinstance(n, ast.BinOp) and isinstance(n.op, ast.Pow)):
            return False
        ex = n.right
        txt = ast.unparse(ex)
        grows = any(isinstance(c, ast.Call) and isinstance(c.func, ast.Attribute) and c.func.attr == "arange" for c in ast.walk(ex)) or \
            any(isinstance(c, ast.Call) and isinstance(c.func, ast.Name) and c.func.id == "len" for c in ast.walk(ex)) or "shape[0]" in txt
        neg = any(isinstance(c, ast.UnaryOp) and isinstance(c.op, ast.USub) for c in ast.walk(ex)) or \
            any(isinstance(c, ast.Constant) and isinstance(c.value, (int, float)) and not isinstance(c.value, bool) and c.value < 0 for c in ast.walk(ex))
        return grows and neg
    # the expected count on a repaired tree is zero: the recogniser itself is exercised on a positive and a negative example
    pos = ast.parse("(1 - alpha) ** (-1 * np.arange(n))", mode="eval").body
    neg_ = ast.parse("(1 - alpha) ** np.arange(n)", mode="eval").body
    if not growing_negative_power(pos) or growing_negative_power(neg_):
        raise AnalysisError("C13-R2: the recogniser of length-dependent normalisers does not match its own examples")
    out = []
    for name, rel, fn in IR.public_indicators(repo):
        tree = repo.module(rel).tree
        hit = None
        for n in ast.walk(tree):
            if growing_negative_power(n):
                hit = ast.unparse(n)
        if hit and any(a.arg == "sequential" for a in fn.args.args):
            out.append((name, rel, fn, hit))
    return out


def check_length_dependent_normaliser(repo: Repo, rep, shaped=None):
    rid = "C13-R2"
    rep.rule(rid, "no series may be scaled by a factor whose magnitude grows without bound in the LENGTH of the input (x ** (-arange(n))): "
                  "every indicator that contains such a power is interpreted on 130 and on 4000 candles; an element that is a computed "
                  "number on the short input must not be a constant (NaN / inf / 0 after overflow of the factor) on the long one - that "
                  "would make value i depend on how many candles follow it.  Candidates are also taken from C13-R3: every indicator whose "
                  "EXPRESSION of an element differs between two input lengths although its value does not (a running sum / product anchored at "
                  "the end of the series) is interpreted on 130 and 12000 candles (default periods) and on 130 and 2500 candles (periods 3)")
    probe = 100
    cands = [c + (130, 4000, {}) for c in growing_normalisers(repo)]
    pubs = {n: (rel, fn) for n, rel, fn in IR.public_indicators(repo)}
    for nm, fields in sorted((shaped or {}).items()):
        # the expression of an element changes with the input length although its value (on 60 / 131 candles) does not: a running
        # product / sum anchored at the END of the series.  Decided on a long input - default periods and the smallest ones
        if nm in pubs:
            rel_, fn_ = pubs[nm]
            cands.append((nm, rel_, fn_, f"expression of series {fields} depends on the input length", 130, 12000, {}))
            small = {a.arg: 3 for a in fn_.args.args if "period" in a.arg or a.arg in ("length", "window")}
            if small:
                cands.append((nm, rel_, fn_, f"expression of series {fields} depends on the input length", 130, 2500, small))
    for name, rel, fn, expr, n_short, n_long, over in cands:
        a = IR.run_indicator(repo, rel, fn, n_short, True, max_steps=40_000_000, overrides=dict(over))
        b = IR.run_indicator(repo, rel, fn, n_long, True, max_steps=40_000_000, overrides=dict(over))
        if a[0] != "ok" or b[0] != "ok":
            rep.undecided_item(f"{name}: length-dependent normaliser `{expr}` - not interpretable on {n_short} / {n_long} candles ({a[0]} / {b[0]})")
            continue
        fa, fb = dict(IR.fields_of(a[1])), dict(IR.fields_of(b[1]))
        for f in fa:
            x, y = fa[f], fb.get(f)
            if not (isinstance(x, NA) and isinstance(y, NA) and x.ndim == 1 and y.ndim == 1 and len(x.data) > probe and len(y.data) > probe):
                continue
            if not isinstance(x.data[probe], D):
                continue
            # the same candles (the witness valuations of different lengths share their prefix), evaluated through both expressions
            from vlib.indic_vals import eval_dag
            try:
                (vn, vs), (_, vl) = IR.valuations(n_short)[0], IR.valuations(n_long)[0]
                xv = eval_dag(x.data[probe], vs)
                yv = eval_dag(y.data[probe], vl) if isinstance(y.data[probe], D) else y.data[probe]
            except Undecided as e:
                rep.undecided_item(f"{name}.{f}: length-dependent normaliser - {e}")
                continue
            finite = lambda v: isinstance(v, (int, float)) and v == v and abs(v) != float("inf")
            if finite(xv) and (not finite(yv) or abs(xv - yv) > 1e-6 * max(1.0, abs(xv))):
                rep.violation(rid, f"{name}|{f}|length-dependent-normaliser",
                              f"indicator {name}{' ' + str(over) if over else ''}: element {probe} of series '{f}' is {xv!r} when computed on {n_short} candles and {yv!r} when the same candles are followed by "
                              f"{n_long - n_short} more: `{expr}` in {rel} over- / underflows with the length of the input, so the value of candle {probe} depends on how many candles follow it")
            rep.instance(rid, f"{name}|{f}|{n_long}{'|small-periods' if over else ''}", {"indicator": name, "field": f, "expression": expr, "long_input": n_long})
    rep.extra["length_dependent_normalisers"] = sorted({c[0] for c in cands})


def _prefix_one_unlimited(args):
    root, name, rel = args
    repo = Repo(root)
    fn = repo.func(rel, name) if repo.has_func(rel, name) else None
    if fn is None:
        for pn, prel, pfn in IR.public_indicators(repo):
            if pn == name:
                fn = pfn
    from vlib.indic_vals import eval_dag
    out = []
    shaped = set()
    for n1, n2 in ((45, 60), (60, 131)):
        a = IR.run_indicator(repo, rel, fn, n1, True)
        b = IR.run_indicator(repo, rel, fn, n2, True)
        if a[0] != "ok" or b[0] != "ok":
            out.append((n1, n2, "undecided", f"{a[0]} / {b[0]}"))
            continue
        fa, fb = dict(IR.fields_of(a[1])), dict(IR.fields_of(b[1]))
        (vn, vs), (_, vl) = IR.valuations(n1)[0], IR.valuations(n2)[0]
        bad = None
        for f in fa:
            x, y = fa[f], fb.get(f)
            if not (isinstance(x, NA) and isinstance(y, NA) and x.ndim == 1 and y.ndim == 1 and len(x.data) == n1 and len(y.data) == n2):
                continue
            for i in range(n1):
                p, q = x.data[i], y.data[i]
                if isinstance(p, D) and isinstance(q, D) and p.h == q.h:
                    continue
                if isinstance(p, D) and isinstance(q, D):
                    shaped.add(f)           # the EXPRESSION of element i depends on the length of the input (its value need not)
                try:
                    pv = eval_dag(p, vs) if isinstance(p, D) else p
                    qv = eval_dag(q, vl) if isinstance(q, D) else q
                except Undecided as e:
                    bad = ("undecided", f, i, str(e))
                    break
                nan = lambda v: v is None or (isinstance(v, float) and v != v)
                if nan(pv) and nan(qv):
                    continue
                if not all(isinstance(v, (int, float, bool)) or v is None for v in (pv, qv)):
                    if pv == qv:
                        continue            # labels (e.g. 'buy' / 'sell'): compared as they are
                    bad = ("differs", f, i, (pv, qv))
                    break
                if nan(pv) != nan(qv) or abs(pv - qv) > 1e-7 * max(1.0, abs(pv), abs(qv)):
                    bad = ("differs", f, i, (pv, qv))
                    break
            if bad:
                break
        out.append((n1, n2, bad[0] if bad else "ok", bad))
    out.append((0, 0, "shaped", sorted(shaped)))
    return name, rel, out


def prefix_one(args):
    """per-indicator wall-clock budget: an interpretation that blows up is reported as undecided for that indicator"""
    from vlib.indic_vals import time_limit, TimeBudget as _U
    try:
        with time_limit(240, "indicator interpretation"):
            return _prefix_one_unlimited(args)
    except _U as e:
        return _prefix_one_timeout(args, str(e))



def check_prefix_consistency(repo: Repo, rep, skip=()):
    rid = "C13-R3"
    rep.rule(rid, "prefix consistency of the extracted expressions: every indicator (default parameters) is interpreted on 45 / 60 and 60 / "
                  "131 candles; element i of the shorter run and element i of the longer run must be the same expression (equal "
                  "structural hash) or evaluate to the same number on witness candles that share the prefix - a value must not depend on "
                  "the LENGTH of the input (global normalisers, fallbacks for short inputs that leak into the series)")
    inds = [(n, rel, fn) for n, rel, fn in IR.public_indicators(repo) if any(a.arg == "sequential" for a in fn.args.args)]
    pub = {fn.name: n for n, rel, fn in inds}
    with ProcessPoolExecutor(max_workers=min(16, os.cpu_count() or 1)) as ex:
        results = list(ex.map(prefix_one, [(repo.root, fn.name, rel) for n, rel, fn in inds], chunksize=4))
    for fname_, rel, res in results:
        name = pub.get(fname_, fname_)
        if name in EXEMPT or name in skip:
            continue            # (a look-ahead already reported by R1 shows as a length dependence too)
        for n1, n2, status, info in res:
            if status == "shaped":
                if info:
                    rep.extra.setdefault("length_shaped_expressions", {})[name] = info
                continue
            if status == "undecided":
                continue            # the dependence rule reports what cannot be interpreted
            if status == "differs":
                _, f, i, (pv, qv) = info
                rep.violation(rid, f"{name}|{f}|length-dependent", f"indicator {name} (defaults) in {rel}: element {i} of series '{f}' is {pv!r} on {n1} candles and {qv!r} when the "
                                                                  f"same candles are followed by {n2 - n1} more: the value depends on the length of the input")
            rep.instance(rid, f"{name}|{n1}/{n2}")
    rep.floor(rid, 200)


def run(repo: Repo, rep, tier: str):
    from props.c14 import check_purity
    rep.guarded(check_purity, repo, rep, "C13-R4")
    rid = "C13-R1"
    rep.rule(rid, "dependence analysis of every public indicator (sequential=True; default parameters and shifted periods): no element "
                  "i of any returned series may depend - through data or control flow - on a candle j > i")
    rep.assume("valid candles: prices > 0, volume >= 0 (flat candles and no-trade candles are legal); a computed value may be NaN / infinite only through a denominator that is not provably "
               "positive (sign analysis, vlib/indic_finite.py; zero-tests in np.where / if guards are honoured) or a logarithm / negative power of such a value")
    rep.assume("x[~isnan(x)] (NaN-stripping of a warm-up padded series): the constant NaN padding is removed; a computed element that may be NaN makes the position of every surviving element depend on it")
    rep.assume("candle values are finite (isnan/isinf of a raw candle value is False); x*0 carries no dependence unless x may be infinite / NaN (0*inf = NaN); slices are copies")
    rep.assume("dependence is a may-analysis: a reported look-ahead is a syntactic flow from candle j > i to element i (all findings on the unchanged tree were confirmed against the running code)")
    inds = [(n, rel, fn) for n, rel, fn in IR.public_indicators(repo) if any(a.arg == "sequential" for a in fn.args.args)]
    jobs = [(repo.root, fn.name, rel, tier) for n, rel, fn in inds]
    pub = {fn.name: n for n, rel, fn in inds}
    decided = undecided = 0
    with ProcessPoolExecutor(max_workers=min(16, os.cpu_count() or 1)) as ex:
        results = list(ex.map(analyse_one, jobs, chunksize=4))
    for fname_, rel, res in results:
        name = pub.get(fname_, fname_)
        for vname, over, status, info, fields in res:
            key = f"{name}|{vname}"
            if status != "ok":
                undecided += 1
                rep.undecided_item(f"{name} [{vname}]: {status}: {str(info)[:80]}")
                continue
            decided += 1
            worst = None
            for f, ln, lead, at in fields:
                if lead is not None and lead > 0:
                    if name in EXEMPT:
                        continue
                    rep.violation(rid, f"{name}|{f}",
                                  f"indicator {name} ({vname} {over or ''}): element {at} of series '{f}' depends on candle {at + lead} "
                                  f"(look-ahead of {lead} candle(s)) in {rel}", {"indicator": name, "field": f, "lead": lead, "index": at, "params": over})
                    worst = (f, lead, at)
            rep.instance(rid, key, {"indicator": name, "variant": vname, "fields": [(f, ln, lead) for f, ln, lead, at in fields]} if (decided % 25 == 1 or worst) else None)
    rep.extra["indicators_analysed"] = len(inds)
    lookahead = {v["key"].split("|")[1] for v in list(rep.violations) + list(rep.known_hits) if v["key"].startswith(rid + "|")}
    rep.guarded(check_prefix_consistency, repo, rep, lookahead)
    known = {k["key"].split("|")[1] for k in rep.known_hits if k["key"].startswith(rid + "|")}
    rep.guarded(check_length_dependent_normaliser, repo, rep, {n: f for n, f in rep.extra.get("length_shaped_expressions", {}).items() if n not in known})
    rep.extra["runs_decided"] = decided
    rep.extra["runs_undecided"] = undecided
    rep.extra["exempt"] = EXEMPT
    if decided < 150:
        raise AnalysisError(f"only {decided} indicator runs reached a verdict (expected >= 150)")
    rep.floor(rid, 150)


CLAIM = {
    "engine": "indicators",
    "technique": "dependence analysis (abstract interpretation of numpy/numba kernels with per-element candle-index sets, explicit + implicit flows)",
    "text": "Static. Each of the ~170 public indicators is interpreted from /repo's source (numba kernels, numpy vector code, helper "
            "indicators it calls) on an abstract candle array: candle values are symbols, lengths / periods / weights / indices are "
            "concrete, so wrap-around reads (x[i-1] at i = 0), window offsets, shifts, rolls, convolutions and whole-array reductions "
            "are tracked exactly; branches on candle values execute both sides and join (implicit flows). Element i of a returned "
            "series must not depend on a candle j > i. Run for default parameters, shifted periods (odd/even windows) and the smallest periods (1 and 2). "
            "Indicators using constructs outside the interpreter's table are listed as undecided, never as violations. Length dependence: every indicator whose expression of an element changes with the input length is interpreted on 130 / 12000 candles (and with periods 3 on 130 / 2500) and witness-evaluated on the shared prefix. Indicators are functions of their input (R4: no in-place edit of the caller's array, no module-level memo keyed by a projection); ufunc where= without out= yields uninitialised memory; a NaN count used as an index carries its dependence.",
    "note": "Trusted: the numpy model (frozen table of ~150 functions); finite candle values; may-dependence (findings on the unchanged tree were confirmed dynamically before being listed as known findings). One input length per run (60 / 130 candles).",
}
