"""C09 - isolated-margin liquidation happens exactly at the liquidation price."""
from __future__ import annotations

from fractions import Fraction as F

from vlib.absint import Interp, Obj, Arr, FuncV, ClassV, explore, R, num, Unknown, NAN, NotInFragment
from vlib.loader import Repo, AnalysisError, norm
from vlib import world as W
from vlib import simloops as SL
from vlib.traces import Tracer, Cfg, make_inliner, RAISE
from props.c06 import build_cycle_world, Clock

POSITION = "jesse/models/Position.py"
BT = W.BT
SYM = "BTC-USDT"


def A(n):
    return R.atom(n)


def _position(repo, typ, mode="isolated", etype="futures"):
    ex = Obj("FuturesExchange", name="exchange", attrs={"type": etype, "futures_leverage_mode": mode}, open_world=True)
    strat = Obj("Strategy", name="strategy", attrs={"leverage": A("lev")}, open_world=True)
    qty = {"long": A("P"), "short": -A("P"), "close": num(0)}[typ]
    return W.obj_of(repo, POSITION, "Position", "position", {"qty": qty, "previous_qty": num(0), "entry_price": A("E"),
                                                            "current_price": A("cp"), "exchange": ex, "exchange_name": "Sandbox", "symbol": SYM, "strategy": strat,
                                                            "_liquidation_price": None})


def check_formulas(repo, rep):
    rid = "C09-R1"
    rep.rule(rid, "liquidation_price / bankruptcy_price normal forms: long liq = E(1 - 1/lev + 0.004), bkr = E(1 - 1/lev); short "
                  "mirrored; hence liq - bkr = +-0.004 E and E - liq = +-(1/lev - 0.004) E, strictly between entry and bankruptcy "
                  "on the losing side for every leverage in [1, 125] (sign of the linear form at both ends); cross / spot / closed -> NaN")
    one = R.const(1)
    k = R.const("0.004")
    for typ, sg in (("long", 1), ("short", -1)):
        def selfobj(it, typ=typ):
            p = _position(repo, typ)
            it.p = p
            return p
        smp = [{"P": F(2), "E": F(100), "lev": F(10), "cp": F(101)}]
        liq = bkr = None
        for prop in ("liquidation_price", "bankruptcy_price"):
            def mk(dec):
                it = Interp(repo, stubs=W.base_stubs(), samples=[dict(s) for s in smp], nonneg={"P", "E", "lev", "cp"}, decisions=dec)
                p = selfobj(it)
                return it, lambda it: it.getattr(p, prop)
            for out in explore(mk, 16):
                r = one / A("lev")
                want = A("E") * (one - R.const(sg) * r + R.const(sg) * k) if prop == "liquidation_price" else A("E") * (one - R.const(sg) * r)
                if out.kind != "return" or not (isinstance(out.value, R) and out.value.same(want)):
                    rep.violation(rid, f"{prop}|{typ}", f"Position.{prop} ({typ}, isolated) = {out.value!r}, expected {want!r}")
                else:
                    if prop == "liquidation_price":
                        liq = out.value
                    else:
                        bkr = out.value
                rep.instance(rid, f"{prop}|{typ}", {"value": repr(out.value)})
        if liq is not None and bkr is not None:
            # strictly between: sg*(liq - bkr) = 0.004 E > 0 and sg*(E - liq) = (1/lev - 0.004) E > 0 on [1,125]
            d1 = (liq - bkr) * R.const(sg)
            d2 = (A("E") - liq) * R.const(sg)
            ok1 = d1.same(k * A("E"))
            ok2 = d2.same((one / A("lev") - k) * A("E"))
            ends = [F(1) / F(1) - F("0.004"), F(1) / F(125) - F("0.004")]
            if not (ok1 and ok2 and all(e > 0 for e in ends)):
                rep.violation(rid, f"between|{typ}", f"liquidation price not strictly between entry and bankruptcy ({typ}): liq-bkr={d1!r}, E-liq={d2!r}")
            rep.instance(rid, f"between|{typ}", {"liq-bkr": repr(d1), "E-liq": repr(d2), "linear form at lev=1,125": [str(e) for e in ends]})
    # the two prices are functions of the CURRENT entry price: read, change the position (add to it, reduce it, close and reopen), read again
    for typ, sg in (("long", 1), ("short", -1)):
        for hist in ("increase", "reduce", "close-open"):
            def mk(dec, typ=typ, sg=sg, hist=hist):
                it = Interp(repo, stubs=W.base_stubs(), samples=[{"P": F(2), "E": F(100), "lev": F(10), "cp": F(101), "q2": F(1), "p2": F(90), "q3": F(3), "p3": F(70)}],
                            nonneg={"P", "E", "lev", "cp", "q2", "p2", "q3", "p3"}, decisions=dec)
                pos = _position(repo, typ)

                def go(it):
                    first = (it.getattr(pos, "liquidation_price"), it.getattr(pos, "bankruptcy_price"))
                    if hist == "increase":
                        it.call(it.getattr(pos, "_mutating_increase"), [R.const(sg) * A("q2"), A("p2")], {})
                    elif hist == "reduce":
                        it.call(it.getattr(pos, "_mutating_reduce"), [R.const(-sg) * A("q2"), A("p2")], {})
                    else:
                        it.call(it.getattr(pos, "_mutating_close"), [A("p2")], {})
                        it.call(it.getattr(pos, "_mutating_open"), [R.const(sg) * A("q3"), A("p3")], {})
                    return first, (it.getattr(pos, "liquidation_price"), it.getattr(pos, "bankruptcy_price")), pos.attrs.get("entry_price")
                return it, go
            try:
                outs = explore(mk, 32)
            except NotInFragment as e:
                rep.undecided_item(f"liquidation price after {hist} ({typ}): {e}")
                continue
            for out in outs:
                if out.kind != "return":
                    rep.undecided_item(f"liquidation price after {hist} ({typ}): the mutation raises {out.value!r}")
                    continue
                _first, (liq2, bkr2), entry = out.value
                r = one / A("lev")
                if not isinstance(entry, R):
                    rep.undecided_item(f"liquidation price after {hist} ({typ}): entry price {entry!r}")
                    continue
                want_l = entry * (one - R.const(sg) * r + R.const(sg) * k)
                want_b = entry * (one - R.const(sg) * r)
                if not (isinstance(liq2, R) and liq2.same(want_l)):
                    rep.violation(rid, f"liquidation_price|{typ}|after-{hist}", f"Position.liquidation_price ({typ}, isolated) read after the position was changed ({hist}; it had been "
                                  f"read before the change) = {liq2!r}, expected {want_l!r} - the price of the CURRENT entry price {entry!r}")
                if not (isinstance(bkr2, R) and bkr2.same(want_b)):
                    rep.violation(rid, f"bankruptcy_price|{typ}|after-{hist}", f"Position.bankruptcy_price ({typ}) after {hist} = {bkr2!r}, expected {want_b!r}")
                rep.instance(rid, f"history|{typ}|{hist}|{out.conds}", {"entry": repr(entry), "liquidation_price": repr(liq2)})
    for typ, mode, etype in (("long", "cross", "futures"), ("long", "spot", "spot"), ("close", "isolated", "futures")):
        def mk(dec):
            it = Interp(repo, stubs=W.base_stubs(), samples=[{"P": F(2), "E": F(100), "lev": F(10), "cp": F(101)}], nonneg={"P", "E", "lev"}, decisions=dec)
            p = _position(repo, typ, mode, etype)
            return it, lambda it: it.getattr(p, "liquidation_price")
        for out in explore(mk, 16):
            if out.kind != "return" or out.value is not NAN:
                rep.violation(rid, f"liquidation_price|{mode}|{typ}", f"liquidation_price for mode={mode}, position={typ} is {out.value!r}, expected NaN (never liquidated)")
            rep.instance(rid, f"nan|{mode}|{typ}")
    rep.floor(rid, 13)


def check_trigger(repo, rep):
    rid = "C09-R3"
    rep.rule(rid, "_check_for_liquidations interpreted for long/short x isolated/cross x candle position relative to the "
                  "liquidation price: fires iff the position is open, isolated and low <= liq <= high; then exactly one "
                  "reduce-only MARKET order on the closing side for the whole size at the bankruptcy price is registered, "
                  "counted once and executed immediately; the wallet loses entry*size/leverage plus the fee (symbolic)")
    sides = {"buy": W.enum_value(repo, "sides", "BUY"), "sell": W.enum_value(repo, "sides", "SELL")}
    market = W.enum_value(repo, "order_types", "MARKET")
    executed = W.enum_value(repo, "order_statuses", "EXECUTED")
    E = F(100)
    # leverage 10, and leverage 1: the bankruptcy price of a long is then exactly 0 (a falsy number - `price or ..` idioms take the
    # other branch)
    for (typ, sg), lev in [(ts, lv) for ts in (("long", 1), ("short", -1)) for lv in (F(10), F(1))]:
        liqv = E * (1 - sg / lev + sg * F("0.004"))
        for mode in (("isolated", "cross") if lev == 10 else ("isolated",)):
            for rel, (lo, hi) in {"inside": (liqv - 1, liqv + 1), "touch-low": (liqv, liqv + 2), "touch-high": (liqv - 2, liqv),
                                  "above": (liqv + F(1, 2), liqv + 3), "below": (liqv - 3, liqv - F(1, 2))}.items():
                smp = {"P": F(2), "E": E, "lev": lev, "cp": F(95), "l": lo, "h": hi, "o": lo, "c": hi, "ts": F(0), "v": F(1), "f": F(1, 100),
                       "Wt": F(1000), "t0": F(0), "t1": F(1)}
                clock = Clock()

                def mk(dec):
                    # two wallets: a comfortable one, and one that holds exactly the position's margin (all-in): the liquidation then
                    # takes the wallet below zero by the fee - the loss is booked in full all the same
                    # ... and a position that a resting order opened INSIDE this very minute (opened_at after the candle's timestamp): the
                    # check after the minute's matching applies to it like to any other
                    it = Interp(repo, stubs=W.base_stubs(), samples=[dict(smp), dict(smp, Wt=smp["P"] * smp["E"] / smp["lev"]), dict(smp, t0=F(30000))],
                                nonneg={"P", "E", "lev", "cp", "f", "Wt"}, decisions=dec)
                    w = build_cycle_world(repo, it, clock)
                    pos, ex = w["pos"], w["ex"]
                    pos.attrs.update({"qty": R.const(sg) * A("P"), "entry_price": A("E"), "opened_at": A("t0"), "_liquidation_price": None})
                    ex.attrs["futures_leverage_mode"] = mode
                    # an open trade record for the position
                    cur = it.call(it.getattr(w["trades"], "_get_current_trade"), ["Sandbox", SYM], {})
                    cur.attrs.update({"opened_at": A("t0"), "type": typ, "exchange": "Sandbox", "symbol": SYM, "leverage": A("lev")})
                    it.call(it.getattr(cur.attrs["buy_orders" if typ == "long" else "sell_orders"], "append"), [Arr([A("P"), A("E")])], {})
                    orders_state = W.obj_of(repo, "jesse/store/state_orders.py", "OrdersState", "store.orders",
                                            {"storage": {"Sandbox-BTC-USDT": []}, "active_storage": {"Sandbox-BTC-USDT": []}, "to_execute": []})
                    store = it.overrides[f"{W.STORE}:store"]
                    store.attrs["orders"] = orders_state
                    store.attrs["app"] = Obj("AppState", name="store.app", attrs={"total_liquidations": num(0), "time": A("t1")})
                    it.stubs[f"{W.ORDER_PY}:Order"] = W.order_ctor(repo)
                    it.w["orders_state"] = orders_state
                    fn = repo.func(BT, "_check_for_liquidations")
                    return it, lambda it: it.call(FuncV(fn, repo.module(BT), qual="_check_for_liquidations"), [W.candle(), "Sandbox", SYM], {})
                for out in explore(mk, 32):
                    key = f"{typ}|{mode}|{rel}|lev={lev}"
                    should = mode == "isolated" and rel in ("inside", "touch-low", "touch-high")
                    if out.kind != "return":
                        rep.violation(rid, key + "|raises", f"_check_for_liquidations raises {out.value} for {key}")
                        continue
                    w = out.interp.w
                    st = w["orders_state"].attrs["storage"]["Sandbox-BTC-USDT"]
                    n_liq = out.interp.overrides[f"{W.STORE}:store"].attrs["app"].attrs["total_liquidations"]
                    fired = len(st) > 0
                    if fired != should:
                        rep.violation(rid, f"trigger|{typ}|{mode}|{rel}",
                                      f"liquidation {'fires' if fired else 'does not fire'} for a {typ} {mode} position with the candle {rel} the liquidation price (expected {'fire' if should else 'no force-close'})")
                    elif fired:
                        o = st[0]
                        a = o.attrs
                        probs = []
                        if len(st) != 1:
                            probs.append(f"{len(st)} liquidation orders")
                        if a.get("type") != market:
                            probs.append(f"type {a.get('type')!r}")
                        if a.get("reduce_only") is not True:
                            probs.append("not reduce-only")
                        if a.get("side") != sides["sell" if typ == "long" else "buy"]:
                            probs.append(f"side {a.get('side')!r}")
                        if not (isinstance(a.get("qty"), R) and a["qty"].same(R.const(-sg) * A("P"))):
                            probs.append(f"qty {a.get('qty')!r} (expected the whole position on the closing side)")
                        bk = A("E") * (R.const(1) - R.const(sg) / A("lev"))
                        if not (isinstance(a.get("price"), R) and a["price"].same(bk)):
                            probs.append(f"price {a.get('price')!r} (expected bankruptcy price {bk!r})")
                        if a.get("status") != executed:
                            probs.append(f"status {a.get('status')!r}: not executed immediately")
                        if o in w["orders_state"].attrs["to_execute"]:
                            probs.append("queued instead of executed")
                        if not (isinstance(n_liq, R) and n_liq.is_const() and n_liq.const_value() == 1):
                            probs.append(f"total_liquidations = {n_liq!r}")
                        pq = w["pos"].attrs["qty"]
                        if not (isinstance(pq, R) and pq.is_const() and pq.const_value() == 0):
                            probs.append(f"position size after liquidation {pq!r}")
                        dw = w["ex"].attrs["assets"]["USDT"] - A("Wt")
                        want = -(A("P") * A("E") / A("lev")) - A("f") * A("P") * bk
                        same = dw.same(want)
                        if not same and lev == 1:
                            # at leverage 1 the bankruptcy price of a long is 0: |0| has no sign, so the polynomial the interpreter
                            # extracts is one of two that agree there - the case is decided on the witness itself
                            sm = out.interp.samples[0] if out.interp.samples else smp
                            try:
                                same = dw.evaluate(lambda a_: sm[a_]) == want.evaluate(lambda a_: sm[a_])
                            except (KeyError, ZeroDivisionError):
                                same = False
                        if not same:
                            probs.append(f"wallet change {dw!r} != -(initial margin) - fee = {want!r}")
                        if probs:
                            rep.violation(rid, f"order|{typ}", f"liquidation of a {typ} position ({rel}): " + "; ".join(probs))
                    else:
                        if not (isinstance(n_liq, R) and n_liq.is_const() and n_liq.const_value() == 0):
                            rep.violation(rid, f"count|{typ}|{mode}|{rel}", f"total_liquidations = {n_liq!r} without a liquidation")
                    rep.instance(rid, key, {"case": key, "fired": fired})
    rep.floor(rid, 20)


def check_placement(repo, rep):
    rid = "C09-R2"
    rep.rule(rid, "the liquidation check runs exactly once per minute (normal) / chunk (fast) after the matching loop, on "
                  "every path (exhaustive matching-loop runs for the 1m loop; trace rule for the fast loop)")
    from props import matchloop
    n = 0
    for desc, viols, sample in matchloop.run_all(repo, "quick"):
        n += 1
        for r, key, msg in viols:
            if r == "C09-R2":
                rep.violation(rid, "match-loop|liqcheck", msg, {"ordering": desc})
        rep.instance(rid, desc)
    mod = repo.module(BT)
    fn = repo.func(BT, "_simulate_price_change_effect_multiple_candles")
    keep = {"_check_for_liquidations", "execute", "add_multiple_1m_candles"}
    cfg = Cfg(call=lambda label, node: ("call", SL.last(label)) if SL.last(label) in keep else None, loop_unroll=1)
    for evs, ex in Tracer(repo, cfg).block(fn.body, (mod, None), 0):
        if ex == RAISE:
            continue
        nm = [e[1] for e in evs if e[0] == "call"]
        if nm.count("_check_for_liquidations") != 1 or "execute" in nm[nm.index("_check_for_liquidations"):]:
            rep.violation(rid, "fast|liqcheck", f"fast matching: liquidation check not exactly once after all fills on path {nm}")
        rep.instance(rid, "fast|" + " ".join(nm))
    rep.floor(rid, 500)


def check_cancel_chain(repo, rep):
    rid = "C09-R5"
    rep.rule(rid, "closing a position (also by liquidation) cancels all its resting orders: _on_close_position -> "
                  "_execute_cancel -> broker.cancel_all_orders on every non-raising path")
    smod, scls = repo.module("jesse/strategies/Strategy.py"), repo.cls("jesse/strategies/Strategy.py", "Strategy")
    fn = repo.func("jesse/strategies/Strategy.py", "Strategy._on_close_position")
    cfg = Cfg(call=lambda label, node: ("call", label) if label.endswith("broker.cancel_all_orders") or SL.last(label) == "on_close_position" else None,
              inline=make_inliner(repo, lambda label: SL.last(label) == "_execute_cancel"), loop_unroll=1)
    n = 0
    for evs, ex in Tracer(repo, cfg).block(fn.body, (smod, scls), 0):
        if ex == RAISE:
            continue
        nm = [e[1] for e in evs if e[0] == "call"]
        if not any(x.endswith("broker.cancel_all_orders") for x in nm):
            rep.violation(rid, "_on_close_position|cancel-all", f"Strategy._on_close_position has a path that does not cancel the resting orders: {nm}")
        n += 1
        rep.instance(rid, "_on_close_position|" + " ".join(nm))
    rep.floor(rid, 1)


def check_gap_in_range(repo, rep):
    """the minute's range handed to matching and to the liquidation check includes the gap to the previous close
    (a liquidation price inside a gap must be hit): same exhaustive rule as C02-R3"""
    from props.c02 import check_jump_fix
    before = len(rep.violations)
    check_jump_fix(repo, rep)
    for v in rep.violations[before:]:
        v["rule"] = "C09-R6"
        v["key"] = v["key"].replace("C02-R3|", "C09-R6|")
        v["message"] = "the minute's range does not include the gap to the previous close (a liquidation price inside the gap is missed): " + v["message"]


def run(repo: Repo, rep, tier: str):
    from vlib import memo
    rep.guarded(memo.check, repo, rep, "C09-R8", [(POSITION, "Position")], "Position: liquidation / bankruptcy price, PnL")
    rep.exhaustive = True
    rep.assume("backtest mode; exact arithmetic; leverage in [1,125]")
    rep.guarded(check_formulas, repo, rep)
    rep.guarded(check_trigger, repo, rep)
    rep.guarded(check_placement, repo, rep)
    rep.guarded(check_cancel_chain, repo, rep)
    rep.guarded(check_gap_in_range, repo, rep)


CLAIM = {
    "engine": "absint+traces",
    "technique": "symbolic normal forms of the liquidation/bankruptcy formulas + abstract interpretation of _check_for_liquidations through the real order/ledger/position chain + placement trace rules",
    "text": "Static. liquidation_price / bankruptcy_price are interpreted symbolically and compared with their reference forms; the "
            "strictly-between claim is discharged from the linear forms (liq-bkr = 0.004E, E-liq = (1/lev-0.004)E) at both ends of "
            "[1,125]. _check_for_liquidations is interpreted from /repo's source for long/short x isolated/cross x five candle "
            "positions (inside, touching low, touching high, above, below the liquidation price): it fires exactly in the "
            "isolated/contained cases, creating one reduce-only MARKET order for the whole size on the closing side at the "
            "bankruptcy price, counted once, executed at once through the real Order.execute / FuturesExchange / Position / "
            "ClosedTrades code; the wallet change equals -(entry*size/leverage) - fee as a polynomial identity. Placement after the "
            "matching loop is decided by the exhaustive 1m matching-loop runs and a trace rule for the fast loop; the close -> "
            "cancel-all chain by a trace rule. Liquidation and bankruptcy price re-read after the position was increased, reduced, closed and reopened are those of the current entry price (no stale memo). Leverage-1 scenarios (bankruptcy price 0), an all-in wallet witness, memo invalidation completeness of Position (R8).",
    "note": "Trusted: interpreter semantics; candle positions are the 5 ordinal cells of (low, high) vs liquidation price.",
}
