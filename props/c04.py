"""C04 - spot balances equal a cash-account model; no overspending / overselling.

The three SpotExchange handlers (and Position._update_qty's spot branch) are
interpreted from /repo's source on a *symbolic* account state
(base B, quote Q, stop-sum S, limit-sum L, fee f) and a symbolic order (|qty| q, price p)
for every (side, type) environment.  Branches are decided by an abstract case: a
cell of the reference model's own case split (e.g. sign of Q - q*p), witnessed by
many grid points; if the code splits a cell differently from the model the
interpreter forks on witnessed samples and both branches are compared.  The final
symbolic state must equal the reference cash account's state *as polynomials*, so
the equality holds for every real state, quantity, price and fee, and - the
deltas being state independent - for every sequence of operations.
"""
from __future__ import annotations

import ast
import itertools
from fractions import Fraction as F

from vlib.absint import Interp, Obj, FuncV, explore, R, num, Unknown, NotInFragment
from vlib.loader import Repo, AnalysisError, norm
from vlib import world as W

SPOT = "jesse/models/SpotExchange.py"
POSITION = "jesse/models/Position.py"
SYM = "BTC-USDT"

ATOMS = ["B", "Q", "S", "L", "q", "p", "f"]


def grid():
    pts = []
    for B, S, L, q, p, Q in itertools.product([F(0), F(1), F(2), F(4)], [F(0), F(1), F(2)], [F(0), F(1), F(3)],
                                              [F(1), F(2), F(3)], [F(2), F(5)], [F(0), F(3), F(6), F(10), F(20)]):
        pts.append({"B": B, "Q": Q, "S": S, "L": L, "q": q, "p": p, "f": F(1, 10)})
    return pts


def A(n):
    return R.atom(n)


def initial_state():
    return {"B": A("B"), "Q": A("Q"), "S": A("S"), "L": A("L")}


# ------------------------------------------------------------------ reference cash account
def model(op, side, typ, st, s):
    """Reference model.  st: symbolic state dict; s: numeric sample (decides the model's own cases).
    Returns (new_state, raises: bool, cell_key)."""
    q, p, f = A("q"), A("p"), A("f")
    B, Q, S, L = (st[k] for k in "BQSL")
    val = lambda r: r.evaluate(lambda a: s[a])
    st = dict(st)
    if op == "submit":
        if side == "buy":
            st["Q"] = Q - q * p
            neg = val(st["Q"]) < 0
            return st, neg, ("overspend" if neg else "ok")
        if typ == "STOP":
            st["S"] = S + q
            over = val(st["S"]) > val(B)
        elif typ == "LIMIT":
            st["L"] = L + q
            over = val(st["L"]) > val(B)
        else:
            over = val(q + L) > val(B)
        return st, over, ("oversell" if over else "ok")
    if op == "cancel":
        if side == "buy":
            st["Q"] = Q + q * p
        elif typ == "STOP":
            st["S"] = S - q
        elif typ == "LIMIT":
            st["L"] = L - q
        return st, False, "ok"
    if op == "execute":
        if side == "buy":
            st["B"] = B + q * (R.const(1) - f)
            return st, False, "ok"
        if typ == "STOP":
            st["S"] = S - q
        elif typ == "LIMIT":
            st["L"] = L - q
        capped = val(q) > val(B)
        sold = B if capped else q
        st["Q"] = Q + sold * p * (R.const(1) - f)
        st["B"] = B - sold
        return st, False, ("capped" if capped else "full")
    raise ValueError(op)


HANDLER = {"submit": "on_order_submission", "cancel": "on_order_cancellation", "execute": "on_order_execution"}


def make_exchange(repo, st, with_sums=True):
    attrs = {
        "name": "Sandbox", "type": "spot", "fee_rate": A("f"), "settlement_currency": "USDT",
        "assets": {"BTC": st["B"], "USDT": st["Q"]},
        "stop_orders_sum": {SYM: st["S"]} if with_sums else {},
        "limit_orders_sum": {SYM: st["L"]} if with_sums else {},
        "starting_assets": {"BTC": num(0), "USDT": A("Q0")},
    }
    return W.obj_of(repo, SPOT, "SpotExchange", "exchange", attrs)


def read_state(ex: Obj):
    a = ex.attrs
    return {"B": a["assets"]["BTC"], "Q": a["assets"]["USDT"],
            "S": a["stop_orders_sum"].get(SYM, num(0)), "L": a["limit_orders_sum"].get(SYM, num(0))}


def run_ops(repo, ops, side, typ, samples, with_sums=True):
    """Interpret a sequence of handler calls on a fresh symbolic exchange."""
    sides = {"buy": W.enum_value(repo, "sides", "BUY"), "sell": W.enum_value(repo, "sides", "SELL")}
    types = {k: W.enum_value(repo, "order_types", k) for k in ("MARKET", "LIMIT", "STOP")}

    def mk(dec):
        it = Interp(repo, stubs=W.base_stubs(), samples=[dict(s) for s in samples], nonneg={"q", "p", "f", "B", "Q", "S", "L"},
                    decisions=dec)
        ex = make_exchange(repo, initial_state(), with_sums)
        qty = A("q") if side == "buy" else -A("q")
        o = W.make_order(repo, "O", sides[side], types[typ], qty, A("p"), symbol=SYM)
        it.ex = ex

        def thunk(it):
            for op in ops:
                it.event("op", op)
                it.call(it.getattr(ex, HANDLER[op]), [o], {})
            return None
        return it, thunk
    return explore(mk, 64)


def same_state(a, b):
    return all(isinstance(a[k], R) and a[k].same(b[k]) for k in "BQSL")


def diff_state(a, b):
    return {k: f"code {a[k]!r} vs model {b[k]!r}" for k in "BQSL" if not (isinstance(a[k], R) and a[k].same(b[k]))}


def check_handlers(repo, rep):
    rid = "C04-R1"
    rep.rule(rid, "each SpotExchange handler, for every (side, type) and every case of the reference cash account, leaves "
                  "exactly the model's symbolic state (reserve on submit, release on cancel, settle with fee on fill) and "
                  "raises InsufficientBalance exactly in the model's overspend / oversell cells")
    pts = grid()
    for side in ("buy", "sell"):
        for typ in ("MARKET", "LIMIT", "STOP"):
            for op in ("submit", "cancel", "execute"):
                # partition the grid by the model's own case split
                cells = {}
                for s in pts:
                    _, _, ck = model(op, side, typ, initial_state(), s)
                    cells.setdefault(ck, []).append(s)
                for ck, samples in sorted(cells.items()):
                    env = f"{op}|{side}|{typ}|{ck}"
                    outs = run_ops(repo, [op], side, typ, samples)
                    for out in outs:
                        s = out.interp.samples[0]
                        exp_state, exp_raise, _ = model(op, side, typ, initial_state(), s)
                        got = read_state(out.interp.ex)
                        if out.kind == "raise":
                            if not exp_raise:
                                rep.violation(rid, f"{op}|{side}|{typ}|spurious-reject",
                                              f"{HANDLER[op]} rejects a {side} {typ} order with {out.value} although the cash "
                                              f"account allows it (witness {fmt(s)}; path {out.conds})")
                            elif out.value.name != "InsufficientBalance":
                                rep.violation(rid, f"{op}|{side}|{typ}|wrong-exception", f"{HANDLER[op]} raises {out.value.name}, expected InsufficientBalance")
                        else:
                            if exp_raise:
                                rep.violation(rid, f"{op}|{side}|{typ}|missing-reject",
                                              f"{HANDLER[op]} accepts a {side} {typ} order that the cash account must reject "
                                              f"({'overspending quote' if side == 'buy' else 'overselling base'}; witness {fmt(s)}; path {out.conds})")
                            elif not same_state(got, exp_state):
                                rep.violation(rid, f"{op}|{side}|{typ}|state",
                                              f"{HANDLER[op]} for a {side} {typ} order leaves a state different from the cash "
                                              f"account ({ck}): {diff_state(got, exp_state)}", {"case": env, "witness": fmt(s)})
                        rep.instance(rid, env + "|" + str(out.conds),
                                     {"case": env, "state": {k: repr(v) for k, v in got.items()}, "raised": out.kind == "raise"})
    rep.floor(rid, 24)


def check_sequences(repo, rep):
    rid = "C04-R2"
    rep.rule(rid, "submit;cancel restores every ledger exactly (symbolically), submit;execute leaves the model's settled state, "
                  "also when the kind-sum entry did not exist before (first order of a symbol)")
    pts = [s for s in grid()]
    for side in ("buy", "sell"):
        for typ in ("MARKET", "LIMIT", "STOP"):
            for seq in (("submit", "cancel"), ("submit", "execute"), ("submit", "cancel", "submit", "cancel")):
                # accepted submissions only (a rejected submission ends the sequence)
                samples = [s for s in pts if not model("submit", side, typ, initial_state(), s)[1]]
                # model's case split for the execute step
                cells = {}
                for s in samples:
                    st = initial_state()
                    ck = []
                    for op in seq:
                        st, _, k = model(op, side, typ, st, s)
                        ck.append(k)
                    cells.setdefault(tuple(ck), []).append(s)
                for ck, ss in sorted(cells.items()):
                    for with_sums in (True, False):
                        if not with_sums:
                            ss2 = [dict(s, S=F(0), L=F(0)) for s in ss if s["S"] == 0 and s["L"] == 0]
                            if not ss2:
                                continue
                        else:
                            ss2 = ss
                        env = f"{'+'.join(seq)}|{side}|{typ}|{'/'.join(ck)}|{'sums' if with_sums else 'fresh-symbol'}"
                        outs = run_ops(repo, list(seq), side, typ, ss2, with_sums)
                        for out in outs:
                            s = out.interp.samples[0]
                            st = initial_state()
                            if not with_sums:
                                st["S"], st["L"] = num(0), num(0)
                            for op in seq:
                                st, _, _ = model(op, side, typ, st, s)
                            if out.kind != "return":
                                rep.violation(rid, f"{'+'.join(seq)}|{side}|{typ}|raises",
                                              f"sequence {seq} for an accepted {side} {typ} order raises {out.value} (witness {fmt(s)})")
                                continue
                            got = read_state(out.interp.ex)
                            if not same_state(got, st):
                                rep.violation(rid, f"{'+'.join(seq)}|{side}|{typ}|state",
                                              f"after {' ; '.join(seq)} of a {side} {typ} order the ledgers differ from the cash account: "
                                              f"{diff_state(got, st)}", {"case": env})
                            rep.instance(rid, env, {"case": env, "state": {k: repr(v) for k, v in got.items()}})
    rep.floor(rid, 30)


def check_order_histories(repo, rep):
    """the ledger after histories that go through the ORDER's own transitions (Order.execute / Order.cancel decide whether the
    exchange handler runs at all): a finished order is inert - 'also after any number of earlier cancellations'"""
    rid = "C04-R8"
    rep.rule(rid, "submit followed by every two-step history of Order.execute / Order.cancel (the repository's Order methods on the "
                  "repository's SpotExchange; position, trade store and notifications are sinks): the ledgers equal the cash account fed "
                  "with the EFFECTIVE operations only - the first transition counts, whatever is called on the finished order changes nothing")
    sides = {"buy": W.enum_value(repo, "sides", "BUY"), "sell": W.enum_value(repo, "sides", "SELL")}
    types = {k: W.enum_value(repo, "order_types", k) for k in ("MARKET", "LIMIT", "STOP")}
    smp = {"B": F(4), "Q": F(100), "S": F(1), "L": F(1), "q": F(2), "p": F(5), "f": F(1, 10), "now": F(1000), "t_created": F(0)}
    n = 0
    for side in ("buy", "sell"):
        for typ in ("MARKET", "LIMIT", "STOP"):
            for seq in (("execute", "cancel"), ("cancel", "execute"), ("cancel", "cancel"), ("execute", "execute")):
                def mk(dec, side=side, typ=typ, seq=seq):
                    it = Interp(repo, stubs=W.base_stubs(), samples=[dict(smp)], nonneg={"q", "p", "f", "B", "Q", "S", "L"}, decisions=dec)
                    ex = make_exchange(repo, initial_state())
                    trades = Obj("ClosedTrades", name="store.completed_trades", attrs={})
                    W.bind(trades, "add_executed_order", lambda i, a, k: None)
                    pos = Obj("Position", name="position", attrs={}, open_world=True)
                    W.bind(pos, "_on_executed_order", lambda i, a, k: None)
                    store = Obj("StoreClass", name="store", attrs={"completed_trades": trades}, open_world=True)
                    it.overrides[f"{W.STORE}:store"] = store
                    it.stubs[f"{W.SELECTORS}:get_exchange"] = lambda i, a, k: ex
                    it.stubs[f"{W.SELECTORS}:get_position"] = lambda i, a, k: pos
                    qty = A("q") if side == "buy" else -A("q")
                    o = W.make_order(repo, "O", sides[side], types[typ], qty, A("p"), symbol=SYM)
                    it.ex = ex

                    def thunk(it):
                        it.call(it.getattr(ex, "on_order_submission"), [o], {})
                        for m in seq:
                            it.call(it.getattr(o, m), [], {})
                    return it, thunk
                try:
                    outs = explore(mk, 32)
                except NotInFragment as e:
                    raise AnalysisError(f"C04-R8: Order.{'/'.join(seq)} on the spot ledger is outside the interpreted fragment: {e}")
                for out in outs:
                    n += 1
                    key = f"submit+{'+'.join(seq)}|{side}|{typ}"
                    if out.kind != "return":
                        rep.violation(rid, key + "|raises", f"{key}: raises {out.value}")
                        continue
                    st = initial_state()
                    for op in ("submit", seq[0]):          # the second call meets a finished order
                        st, _, _ = model(op, side, typ, st, smp)
                    got = read_state(out.interp.ex)
                    if not same_state(got, st):
                        rep.violation(rid, key, f"after submit ; Order.{seq[0]}() ; Order.{seq[1]}() of a {side} {typ} order the ledgers differ from the cash account "
                                                f"(in which the order is finished after {seq[0]} and {seq[1]} changes nothing): {diff_state(got, st)}")
                    rep.instance(rid, key, {"state": {k: repr(v) for k, v in got.items()}})
    rep.floor(rid, 24)


def check_position_qty(repo, rep):
    rid = "C04-R6"
    rep.rule(rid, "Position._update_qty (spot): set -> q(1-f), add -> P + q(1-f), subtract -> P - q, so the position size "
                  "tracks the base balance")
    for op, exp in (("set", lambda P, q, f: q * (R.const(1) - f)), ("add", lambda P, q, f: P + q * (R.const(1) - f)),
                    ("subtract", lambda P, q, f: P - q)):
        def selfobj(it):
            ex = Obj("SpotExchange", name="exchange", attrs={"type": "spot", "fee_rate": A("f")}, open_world=True)
            p = W.obj_of(repo, POSITION, "Position", "position", {"qty": A("P"), "previous_qty": num(0), "exchange": ex})
            it.pos = p
            return p
        outs = W.run_function(repo, POSITION, "Position._update_qty", lambda it: ([A("q")], {"operation": op}), self_obj_factory=selfobj,
                              samples=[{"P": F(3), "q": F(1), "f": F(1, 10)}])
        for out in outs:
            got = out.interp.pos.attrs["qty"]
            want = exp(A("P"), A("q"), A("f"))
            if out.kind != "return" or not (isinstance(got, R) and got.same(want)):
                rep.violation(rid, f"_update_qty|spot|{op}", f"Position._update_qty(spot, {op}) gives {got!r}, expected {want!r}")
            prev = out.interp.pos.attrs.get("previous_qty")
            if not (isinstance(prev, R) and prev.same(A("P"))):
                rep.violation(rid, f"_update_qty|spot|{op}|previous", f"Position._update_qty does not remember the previous size (previous_qty = {prev!r})")
            rep.instance(rid, f"spot|{op}", {"op": op, "qty": repr(got)})
    rep.floor(rid, 3)


def check_spot_never_short(repo, rep):
    rid = "C04-R7"
    rep.rule(rid, "Position._on_executed_order on a spot exchange, interpreted for a sell fill against a long position of size P and against "
                  "a flat position, for quantity <, =, > P and both reduce_only flags: the position afterwards is P - q, 0 or unchanged "
                  "0 - never negative (no short position in a cash account; the exchange fills a sell only up to the base it holds)")
    sell = W.enum_value(repo, "sides", "SELL")
    limit = W.enum_value(repo, "order_types", "LIMIT")
    cases = [("reduce", F(3), F(1)), ("close", F(3), F(3)), ("oversell", F(1), F(3)), ("flat", F(0), F(2))]
    for name, Pv, qv in cases:
        for ro in (False, True):
            smp = {"P": Pv, "q": qv, "f": F(1, 100), "p": F(10), "E": F(9), "cp": F(10), "now": F(60000)}

            def mk(dec):
                it = Interp(repo, stubs=W.base_stubs(), samples=[dict(smp)], nonneg=set(smp), decisions=dec)
                ex = Obj("SpotExchange", name="exchange", attrs={"type": "spot", "fee_rate": A("f")}, open_world=True)
                strat = Obj("Strategy", name="strategy", attrs={}, open_world=True)
                W.bind(strat, "_on_updated_position", lambda i, a, k: None)
                pos = W.obj_of(repo, POSITION, "Position", "position", {
                    "qty": A("P") if Pv else num(0), "previous_qty": num(0), "entry_price": A("E") if Pv else None, "exit_price": None,
                    "current_price": A("cp"), "opened_at": None, "closed_at": None, "exchange": ex, "exchange_name": "Sandbox",
                    "symbol": SYM, "strategy": strat, "id": "pos"})
                trades = Obj("ClosedTrades", name="store.completed_trades", attrs={}, open_world=True)
                W.bind(trades, "open_trade", lambda i, a, k: None)
                W.bind(trades, "close_trade", lambda i, a, k: None)
                it.overrides[f"{W.STORE}:store"] = Obj("StoreClass", name="store", attrs={"completed_trades": trades}, open_world=True)
                o = W.make_order(repo, "O", sell, limit, -A("q"), A("p"), reduce_only=ro, status=W.enum_value(repo, "order_statuses", "EXECUTED"), symbol=SYM)
                it.pos = pos
                return it, lambda it: it.call(it.getattr(pos, "_on_executed_order"), [o], {})
            for out in explore(mk, 32):
                key = f"{name}|reduce_only={ro}"
                if out.kind != "return":
                    rep.violation(rid, f"spot-sell|{key}|raises", f"Position._on_executed_order (spot, sell, {key}) raises {out.value}")
                    continue
                got = out.interp.pos.attrs["qty"]
                want = {"reduce": A("P") - A("q"), "close": num(0), "oversell": num(0), "flat": num(0)}[name]
                gv = out.interp.numeric(got, smp) if isinstance(got, R) else None
                if gv is None or gv < 0:
                    rep.violation(rid, f"spot-sell|{name}|negative", f"spot: a sell of {qv} against a position of {Pv} (reduce_only={ro}) leaves the position size {got!r} - a short position in a cash account")
                elif not got.same(want):
                    rep.violation(rid, f"spot-sell|{key}", f"spot: a sell of {qv} against a position of {Pv} (reduce_only={ro}) leaves the position size {got!r}, expected {want!r}")
                rep.instance(rid, key, {"case": key, "qty": repr(got)})
    rep.floor(rid, 8)


def check_decimal_discipline(repo, rep):
    rid = "C04-R5"
    rep.rule(rid, "decimal discipline: every store to assets / stop_orders_sum / limit_orders_sum in SpotExchange's "
                  "backtest handlers and to qty in Position._update_qty is the result of sum_floats / subtract_floats "
                  "(never binary float + / -), and those helpers are exact decimal add / subtract")
    cls = repo.cls(SPOT, "SpotExchange")
    n = 0
    for fn in [b for b in cls.body if isinstance(b, ast.FunctionDef) and b.name in HANDLER.values()]:
        for node in ast.walk(fn):
            if isinstance(node, ast.AugAssign) and _is_ledger(node.target):
                rep.violation(rid, f"{fn.name}|{norm(node.target)}", f"SpotExchange.{fn.name}: ledger updated with float arithmetic: {norm(node)}")
                n += 1
            if isinstance(node, ast.Assign) and any(_is_ledger(t) for t in node.targets):
                n += 1
                v = node.value
                if isinstance(v, ast.BinOp) and isinstance(v.op, (ast.Add, ast.Sub)):
                    rep.violation(rid, f"{fn.name}|{norm(node.targets[0])}", f"SpotExchange.{fn.name}: ledger updated with float arithmetic: {norm(node)[:110]}")
                rep.instance(rid, f"{fn.name}|{norm(node)[:60]}")
    upd = repo.func(POSITION, "Position._update_qty")
    for node in ast.walk(upd):
        if isinstance(node, ast.Assign) and any(norm(t) == "self.qty" for t in node.targets):
            v = node.value
            n += 1
            if isinstance(v, ast.BinOp) and isinstance(v.op, (ast.Add, ast.Sub)):
                rep.violation(rid, f"_update_qty|{norm(v)[:40]}", f"Position._update_qty: size updated with float arithmetic: {norm(node)}")
            rep.instance(rid, f"_update_qty|{norm(node)[:60]}")
        if isinstance(node, ast.AugAssign) and norm(node.target) == "self.qty":
            rep.violation(rid, "_update_qty|augassign", f"Position._update_qty: size updated with float arithmetic: {norm(node)}")
    # helpers are exact decimal arithmetic
    for name, sign in (("sum_floats", 1), ("subtract_floats", -1)):
        fn = repo.func("jesse/utils.py", name)
        src = norm(fn)
        outs = W.run_function(repo, "jesse/utils.py", name, lambda it: ([A("a"), A("b")], {}))
        for out in outs:
            want = A("a") + A("b") if sign == 1 else A("a") - A("b")
            # every conversion to Decimal on this path (through helpers too): of the shortest decimal text str(x) of an operand -
            # not of the binary float itself, not of a text with a fixed number of digits
            convs = [e for e in out.events if e[0] == "decimal"]
            lossy = [e[1] for e in convs if e[1] != "str"]
            operands = [e[2] for e in convs if e[1] == "str"]
            both = any(isinstance(x, R) and x.same(A("a")) for x in operands) and any(isinstance(x, R) and x.same(A("b")) for x in operands)
            if lossy or not both:
                rep.violation(rid, f"utils.{name}|decimal", f"utils.{name} does not compute on Decimal(str(.)) of both operands: conversions on the path {out.conds}: "
                                                             f"{[e[1] for e in convs]}" + (f" - {lossy[0]} is not the exact decimal text of the operand" if lossy else ""))
            elif out.kind != "return" or not (isinstance(out.value, R) and out.value.same(want)):
                rep.violation(rid, f"utils.{name}|value", f"utils.{name}(a, b) evaluates to {out.value!r}")
        rep.instance(rid, f"utils.{name}", {"source": src[-80:]})
    if n < 8:
        raise AnalysisError(f"C04-R5: only {n} ledger stores found (anchor moved)")
    rep.floor(rid, 10)


def check_update_qty_decimal(repo, rep, rid):
    """the position size is updated with the same exact-decimal helpers the closing test `sum_floats(self.qty, qty) == 0`
    relies on: a binary-float `+=` / `-` leaves dust (0.1 + 0.2) and the exact-size exit no longer closes the position"""
    upd = repo.func(POSITION, "Position._update_qty")
    n = 0
    for node in ast.walk(upd):
        if isinstance(node, ast.Assign) and any(norm(t) == "self.qty" for t in node.targets):
            v = node.value
            n += 1
            if isinstance(v, ast.BinOp) and isinstance(v.op, (ast.Add, ast.Sub)):
                rep.violation(rid, f"_update_qty|{norm(v)[:40]}", f"Position._update_qty: size updated with binary float arithmetic: {norm(node)} (the close test uses exact decimal sums)")
            rep.instance(rid, f"_update_qty|{norm(node)[:60]}")
        if isinstance(node, ast.AugAssign) and norm(node.target) == "self.qty":
            n += 1
            rep.violation(rid, "_update_qty|augassign", f"Position._update_qty: size updated with binary float arithmetic: {norm(node)} (the close test uses exact decimal sums)")
    if n < 4:
        raise AnalysisError("Position._update_qty: size stores not found")


def _is_ledger(t) -> bool:
    if isinstance(t, ast.Subscript):
        b = norm(t.value)
        return b in ("self.assets", "self.stop_orders_sum", "self.limit_orders_sum")
    return False


def fmt(s):
    return "{" + ", ".join(f"{k}={v}" for k, v in s.items()) + "}"


def _shared_mutable_tables(tree):
    """constructs that give every key of a table the SAME mutable object: dict.fromkeys(keys, <mutable>), [<mutable>] * n,
    {k: shared for k in ..} with `shared` a mutable built before the comprehension"""
    import ast as _ast
    mut = lambda v: isinstance(v, (_ast.Dict, _ast.List, _ast.Set, _ast.ListComp, _ast.DictComp)) or \
        (isinstance(v, _ast.Call) and norm(v.func).split(".")[-1] in ("dict", "list", "set", "defaultdict", "zeros", "array", "DynamicNumpyArray"))
    out = []
    for f in _ast.walk(tree):
        if not isinstance(f, _ast.FunctionDef):
            continue
        local_mut = {t.id for n in _ast.walk(f) if isinstance(n, _ast.Assign) and mut(n.value) for t in n.targets if isinstance(t, _ast.Name)}
        for n in _ast.walk(f):
            if isinstance(n, _ast.Call) and isinstance(n.func, _ast.Attribute) and n.func.attr == "fromkeys" and len(n.args) == 2 and \
                    (mut(n.args[1]) or (isinstance(n.args[1], _ast.Name) and n.args[1].id in local_mut)):
                out.append((f.name, n))
            if isinstance(n, _ast.BinOp) and isinstance(n.op, _ast.Mult) and isinstance(n.left, _ast.List) and n.left.elts and all(mut(e) for e in n.left.elts):
                out.append((f.name, n))
            if isinstance(n, _ast.DictComp) and isinstance(n.value, _ast.Name) and n.value.id in local_mut:
                out.append((f.name, n))
    return out


def check_tables_per_symbol(repo, rep):
    """'a sell plus the already resting sells OF ITS KIND' is per symbol: the reservation tables must not share one object between symbols"""
    import ast as _ast
    rid = "C04-R10"
    rep.rule(rid, "the per-symbol / per-asset tables of the exchange models are not built with one shared mutable value for every key "
                  "(dict.fromkeys(keys, {}), [{}] * n, {k: shared ..}): reservations of one symbol would count against every other")
    probe = _ast.parse("def f(keys):\n    a = dict.fromkeys(keys, {'STOP': 0})\n    b = dict.fromkeys(keys, 0)\n    c = [[]] * 3\n    d = {k: {} for k in keys}\n    return a, b, c, d\n")
    if len(_shared_mutable_tables(probe)) != 2:
        raise AnalysisError("C04-R10 does not decide its own probe")
    n = 0
    for rel in (SPOT, "jesse/models/Exchange.py", "jesse/models/FuturesExchange.py"):
        mod = repo.module(rel)
        for fname, node in _shared_mutable_tables(mod.tree):
            rep.violation(rid, f"{rel}:{fname}", f"{rel}: {fname}: `{norm(node)[:90]}` gives every key the same mutable object - what one symbol reserves is seen by all")
        n += 1
        rep.instance(rid, rel)
    rep.floor(rid, 3)


LEDGER_FIELDS = {"stop_orders_sum", "limit_orders_sum", "assets", "available_assets"}
LEDGER_OWNERS = ("jesse/models/SpotExchange.py", "jesse/models/FuturesExchange.py", "jesse/models/Exchange.py")


def check_ledger_writers(repo, rep):
    """only the exchange model posts to its ledgers: the reference cash account is fed with submissions, cancellations and fills -
    a reset or adjustment made from elsewhere (the position, the store, a strategy helper) has no counterpart in it"""
    import ast as _ast
    rid = "C04-R11"
    rep.rule(rid, "who may write the spot ledgers: every store into `<x>.assets[..]`, `<x>.stop_orders_sum[..]`, `<x>.limit_orders_sum[..]` "
                  "(assignment, augmented assignment, mutating call, rebinding of the table) sits in the exchange models themselves")
    n_mod = n_own = 0
    MUT = {"update", "pop", "clear", "setdefault", "popitem", "__setitem__"}
    for rel, mod in sorted(repo.modules.items()):
        if not rel.startswith("jesse/") or rel.startswith(("jesse/strategies/", "jesse/static/")) or "/tests/" in rel:
            continue
        n_mod += 1
        for node in _ast.walk(mod.tree):
            hits = []
            tgts = node.targets if isinstance(node, _ast.Assign) else [node.target] if isinstance(node, (_ast.AugAssign, _ast.AnnAssign)) else []
            for t in tgts:
                for tt in (t.elts if isinstance(t, (_ast.Tuple, _ast.List)) else [t]):
                    b = tt
                    while isinstance(b, _ast.Subscript):
                        b = b.value
                    if isinstance(b, _ast.Attribute) and b.attr in LEDGER_FIELDS and (isinstance(tt, _ast.Subscript) or not (isinstance(b.value, _ast.Name) and b.value.id == "self")):
                        hits.append(b.attr)
            if isinstance(node, _ast.Call) and isinstance(node.func, _ast.Attribute) and node.func.attr in MUT:
                b = node.func.value
                while isinstance(b, _ast.Subscript):
                    b = b.value
                if isinstance(b, _ast.Attribute) and b.attr in LEDGER_FIELDS:
                    hits.append(b.attr)
            for h in hits:
                if rel in LEDGER_OWNERS:
                    n_own += 1
                else:
                    rep.violation(rid, f"{rel}|{h}", f"{rel}: `{norm(node)[:100]}` writes the exchange ledger `{h}` from outside the exchange model: the cash account has no such posting")
        rep.instance(rid, rel, None)
    rep.extra["ledger_writes_in_exchange_models"] = n_own
    if n_own < 8:
        raise AnalysisError(f"C04-R11: only {n_own} ledger writes found inside the exchange models (the recogniser lost them)")
    rep.floor(rid, 50)


def run(repo: Repo, rep, tier: str):
    rep.guarded(check_ledger_writers, repo, rep)
    rep.guarded(check_tables_per_symbol, repo, rep)
    from vlib import memo
    rep.guarded(memo.check, repo, rep, "C04-R9", [(SPOT, "SpotExchange")], "spot ledger")
    rep.exhaustive = True
    rep.assume("sum_floats/subtract_floats are exact (decimal) addition/subtraction - checked structurally in R5 - and are modelled as + and - over the rationals")
    rep.assume("backtest mode (is_livetrading False); base/quote/sums/qty/price/fee are non-negative reals")
    rep.guarded(check_handlers, repo, rep)
    rep.guarded(check_sequences, repo, rep)
    rep.guarded(check_order_histories, repo, rep)
    rep.guarded(check_position_qty, repo, rep)
    rep.guarded(check_spot_never_short, repo, rep)
    rep.guarded(check_decimal_discipline, repo, rep)
    rep.undecided_item("non-negativity of balances as a numeric invariant over arbitrarily long histories (follows from the rejection rule in exact arithmetic; float rounding of Decimal(str(.)) not modelled)")
    rep.undecided_item("IEEE rounding inside sum_floats / subtract_floats: they convert back to a double after every step, so running totals of quantities with 16-17 significant "
                       "digits (thirds of a position) need not return to their start after submit ; cancel - observed by a dynamic defect hunt (findings/hunters/c04/finding_1.py, "
                       "finding_3.py: a sell of exactly the base balance rejected as 2.0000000000000004 > 2.0); outside what this real-arithmetic analysis decides")


CLAIM = {
    "engine": "absint",
    "technique": "symbolic effect summaries of the SpotExchange handlers (abstract interpretation, polynomial normal forms) compared with a reference cash account per (side,type,case)",
    "text": "Static. on_order_submission / on_order_execution / on_order_cancellation are interpreted from /repo's source on a "
            "symbolic account (base, quote, stop-sum, limit-sum, fee) and a symbolic order for all 6 (side,type) environments; the "
            "resulting ledgers must equal the reference cash account's as polynomials, and InsufficientBalance must be raised in "
            "exactly the model's overspend/oversell cells (cells witnessed by a 1080-point grid; code that splits a cell differently "
            "forks on witnessed points). submit;cancel restores all ledgers exactly, submit;execute settles with fee, also for the "
            "first order of a symbol. Deltas are state independent, so this extends to every operation sequence. Position size "
            "update mirrors the base balance, and Position._on_executed_order on a spot exchange never leaves a negative size (sell "
            "<, =, > the position, flat position, both reduce_only flags); ledger stores go through exact decimal helpers. Not decided: float rounding inside Decimal(str(.)). Histories through the order's own transitions (submit, then every two-step sequence of Order.execute / Order.cancel on the repository's SpotExchange) equal the cash account fed with the effective operations only (R8). The per-symbol tables share no mutable value (R10); memo invalidation completeness of SpotExchange (R9).",
    "note": "Trusted: interpreter semantics; exact-arithmetic model of sum_floats/subtract_floats; grid distinguishes linear predicates over the small integers used.",
}
