"""C07 - every timeframe is the exact aggregation of the one-minute candles."""
from __future__ import annotations

import ast
import re
from fractions import Fraction as F

from vlib.absint import Interp, Obj, Arr, Arr2, FuncV, ClassV, Frame, BoundBuiltin, explore, R, num, Unknown, NotInFragment
from vlib.poly import Op, Poly
from vlib.loader import Repo, AnalysisError, norm
from vlib import world as W
from vlib import simloops as SL
from vlib.affine import to_poly
from props.c20 import make_store, stored, DNA, CANDLES_STATE

CANDLE = "jesse/services/candle.py"
BT = W.BT
UTILS = "jesse/utils.py"
MIN = 60000


def A(n):
    return R.atom(n)


def sym_candles(k, t0=None):
    return Arr2([Arr([A(f"ts{i}") if t0 is None else num(t0 + i * MIN), A(f"o{i}"), A(f"c{i}"), A(f"h{i}"), A(f"l{i}"), A(f"v{i}")]) for i in range(k)])


def agg_spec(k, t0=None):
    ts = A("ts0") if t0 is None else num(t0)
    hi = A("h0") if k == 1 else R.atom(Op("max", tuple(sorted([A(f"h{i}") for i in range(k)], key=repr))))
    lo = A("l0") if k == 1 else R.atom(Op("min", tuple(sorted([A(f"l{i}") for i in range(k)], key=repr))))
    vol = sum((A(f"v{i}") for i in range(k)), num(0))
    return [ts, A("o0"), A(f"c{k - 1}"), hi, lo, vol]


def same_candle(got, want):
    return isinstance(got, Arr) and len(got.items) == 6 and all(isinstance(x, R) and x.same(y) for x, y in zip(got.items, want))


# ------------------------------------------------------------------ R1 aggregation formula
def check_formula(repo, rep):
    rid = "C07-R1"
    rep.rule(rid, "generate_candle_from_one_minutes(k symbolic 1m candles) = [first timestamp, first open, last close, max high, "
                  "min low, summed volume] for k = 1..4; a wrong number of candles is rejected unless forming candles are accepted; "
                  "the inlined aggregation of the fast simulator (real_candle) has the same normal form")
    mod = repo.module(CANDLE)
    fn = repo.func(CANDLE, "generate_candle_from_one_minutes")
    tf_minutes = {"3m": 3, "5m": 5}
    for k in (1, 2, 3, 4):
        for accept in (True, False):
            for tf in ("3m",):
                outs = W.run_function(repo, CANDLE, "generate_candle_from_one_minutes",
                                      lambda it: ([tf, sym_candles(k)], {"accept_forming_candles": accept}))
                for out in outs:
                    key = f"k={k}|accept_forming={accept}"
                    complete = (k == tf_minutes[tf])
                    if not accept and not complete:
                        if out.kind != "raise":
                            rep.violation(rid, "generate|length-check", f"generate_candle_from_one_minutes accepts {k} candles for a {tf} candle without accept_forming_candles")
                    elif out.kind != "return" or not same_candle(out.value, agg_spec(k)):
                        rep.violation(rid, "generate|formula", f"generate_candle_from_one_minutes({k} candles) = {out.value!r}, expected {agg_spec(k)!r}")
                    rep.instance(rid, key, {"k": k, "result": repr(out.value)})
    # empty input is rejected
    for out in W.run_function(repo, CANDLE, "generate_candle_from_one_minutes", lambda it: (["3m", Arr2([])], {"accept_forming_candles": True})):
        if out.kind != "raise":
            rep.violation(rid, "generate|empty", "generate_candle_from_one_minutes accepts an empty window")
        rep.instance(rid, "empty")
    # sibling: inlined aggregation in the fast simulator
    fast = repo.func(BT, "_simulate_price_change_effect_multiple_candles")
    cand = [n for n in fast.body if isinstance(n, ast.Assign) and any(isinstance(t, ast.Name) and t.id == "real_candle" for t in n.targets)]
    if not cand:
        raise AnalysisError("fast simulator: assignment to real_candle not found")
    for k in (1, 2, 3):
        it = Interp(repo, stubs=W.base_stubs())
        fr = Frame(repo.module(BT), {"short_timeframes_candles": sym_candles(k)})
        v = it.eval(cand[0].value, fr)
        if not same_candle(v, agg_spec(k)):
            rep.violation(rid, "fast|real_candle", f"fast simulator's chunk candle for {k} minutes is {v!r}, expected the aggregation {agg_spec(k)!r}")
        rep.instance(rid, f"fast-real_candle|k={k}", {"value": repr(v)})
    rep.floor(rid, 10)


# ------------------------------------------------------------------ R2 window arithmetic
def _enclosing_ifs(fn, target):
    """tests of the If statements whose body contains `target`"""
    out = []

    def rec(node, stack):
        for child in ast.iter_child_nodes(node):
            if child is target:
                out.extend(stack)
                return True
            if isinstance(child, ast.If):
                # only the body side counts as guarded by the test
                for b in child.body:
                    if b is target or any(x is target for x in ast.walk(b)):
                        if rec_in(b, stack + [child.test]):
                            return True
                for b in child.orelse:
                    if b is target or any(x is target for x in ast.walk(b)):
                        if rec_in(b, stack):
                            return True
            else:
                if any(x is target for x in ast.walk(child)):
                    if rec(child, stack):
                        return True
        return False

    def rec_in(node, stack):
        if node is target:
            out.extend(stack)
            return True
        return rec(node, stack)
    rec(fn, [])
    return out


def check_windows(repo, rep):
    rid = "C07-R2"
    rep.rule(rid, "every completed-window site has the shape: guard E % count == 0, slice [E - count : E] of the 1m input for one "
                  "affine E (i+1 in the step simulator / warm-up injection / research helper, i+candles_step in the fast simulator): "
                  "window length = count and right edge = guard expression; in the simulators the sites are found by following the "
                  "input through helpers, aliases and recursive calls (index-flow engine), not by name")
    found = 0
    # the simulators: followed through helpers, aliases and renamed variables by the index-flow engine (vlib/idxflow.py)
    from vlib.idxflow import Flow, Slice
    for sim in ("_step_simulator", "_skip_simulator"):
        fl = Flow(repo, BT, interest={"generate_candle_from_one_minutes"})
        fl.run_simulator(sim)
        for c in fl.calls:
            if not c.in_loop:
                continue
            a1 = c.args[1] if len(c.args) > 1 else None
            if not isinstance(a1, Slice):
                if a1 == "STORED" or c.fn == "_update_all_routes_a_partial_candle":
                    continue            # partial candle from the stored 1m candles: C07-R2b
                rep.violation(rid, f"{c.fn}|shape", f"{c.fn}: aggregation input is not a slice of the 1m candles: {norm(c.node)[:100]}")
                continue
            found += 1
            ok = any(a1.hi == E and (a1.hi - a1.lo) == cnt for E, cnt in c.mods)
            if not ok:
                rep.violation(rid, f"{c.fn}|window", f"{c.fn} (through {' > '.join(c.chain)}): window [{a1.lo!r} : {a1.hi!r}] of the 1m input is aggregated under the guards "
                                                    f"{[(repr(E) + ' % ' + repr(cnt) + ' == 0') for E, cnt in c.mods] or 'none'}: its length must be the guard's count and its right edge the guard's expression")
            rep.instance(rid, f"{sim}|{c.fn}|{' > '.join(c.chain)}", {"site": c.fn, "slice": f"[{a1.lo!r}:{a1.hi!r}]", "guards": [f"{E!r} % {cnt!r} == 0" for E, cnt in c.mods]})
    # warm-up injection and the research helper: the 1m array is a parameter there
    from vlib.idxflow import ARRAY
    for rel, fname, param in ((CANDLE, "inject_warmup_candles_to_store", "candles"), (CANDLE, "_get_generated_candles", "trading_candles")):
        fl = Flow(repo, rel, interest={"generate_candle_from_one_minutes"})
        fn_ = repo.func(rel, fname)
        if param not in [a_.arg for a_ in fn_.args.args]:
            raise AnalysisError(f"{rel}:{fname}: parameter {param} (the 1m candles) not found")
        fl.run_function(fname, {param: ARRAY})
        for c in fl.calls:
            a1 = c.args[1] if len(c.args) > 1 else None
            if not isinstance(a1, Slice):
                rep.violation(rid, f"{fname}|shape", f"{fname}: aggregation input is not a slice of the 1m candles: {norm(c.node)[:100]}")
                continue
            found += 1
            ok = any(a1.hi == E and (a1.hi - a1.lo) == cnt for E, cnt in c.mods)
            if not ok:
                rep.violation(rid, f"{fname}|window", f"{fname}: window [{a1.lo!r} : {a1.hi!r}] of the 1m candles is aggregated under the guards "
                                                      f"{[(repr(E) + ' % ' + repr(cnt) + ' == 0') for E, cnt in c.mods] or 'none'}: its length must be the guard's count and its right edge the guard's expression")
            rep.instance(rid, f"{fname}|{' > '.join(c.chain)}", {"site": fname, "slice": f"[{a1.lo!r}:{a1.hi!r}]", "guards": [f"{E!r} % {cnt!r} == 0" for E, cnt in c.mods]})
    if found < 4:
        raise AnalysisError(f"C07-R2: only {found} completed-window sites found (expected 4)")
    rep.floor(rid, 4)


def check_windows_sessions(repo, rep, tier="quick"):
    from props import sessions as S
    rep.rule("C07-R2s", "both simulator functions interpreted whole on mini sessions (props/sessions.py): every completed window of the route "
                        "timeframe is generated exactly once per symbol, from exactly that symbol's 1m candles of the aligned window, before "
                        "the strategies of that step run; no window that does not complete inside the session is generated")
    S.check_generation(repo, rep, "C07-R2s", cfgs=S.for_tier(tier))


# ------------------------------------------------------------------ R2b partial candle count
def check_partial(repo, rep, tier, rid="C07-R2b"):
    rep.rule(rid, "partial candle published at a fill: the number of 1m candles aggregated is (minutes since the window start) + 1 "
                  "for every residue of the fill minute modulo the timeframe (enumerated per timeframe), where the windows are the "
                  "simulators' own (counted from the first stored candle) - also for 3D / 1W windows of a session that starts on a day "
                  "which is not a multiple of the timeframe from the epoch; taken from the tail of the stored 1m candles")
    fn = repo.func(BT, "_update_all_routes_a_partial_candle")
    tfs = [3, 5, 15, 30, 45, 60] if tier == "quick" else [3, 5, 15, 30, 45, 60, 120, 180, 240, 360, 480, 720, 1440]
    day = 1440
    # (timeframe minutes, session start in minutes since the epoch, residues to try): the last two start on a day that is not a
    # multiple of 3D / 1W from the epoch (2021-01-01 = day 18628 = 3 * 6209 + 1 = 7 * 2661 + 1)
    cases = [(tf, (1_600_000_000_000 // (43200 * MIN)) * 43200, list(range(tf))) for tf in tfs]
    cases += [(4320, 18628 * day, [0, 1, 1439, 1440, 2000, 2880, 4319]), (10080, 18628 * day, [0, 1440, 5000, 10079])]
    name_by_minutes = {v: k for k, v in {"3m": 3, "5m": 5, "15m": 15, "30m": 30, "45m": 45, "1h": 60, "2h": 120, "3h": 180, "4h": 240, "6h": 360, "8h": 480,
                                         "12h": 720, "1D": 1440, "3D": 4320, "1W": 10080}.items()}
    tail_bad = None
    for tf, start_min, residues, history in [c + (h,) for c in cases for h in ("minute-stored", "minute-not-stored-yet")]:
        # minute-stored: the normal simulator has stored the minute before it matches it (add_candle replaces it by the partial candle);
        # minute-not-stored-yet: the fast matcher publishes the partial candle of a minute the store has not seen (add_candle appends it)
        bad = None
        if history == "minute-not-stored-yet" and tf > 60 and tier == "quick":
            continue
        for k in residues:
            windows_before = 2
            count = windows_before * tf + k + 1                  # stored 1m candles, the executing one included
            ts = (start_min + windows_before * tf + k) * MIN
            # the function itself is interpreted against a model of the candle store: `count` stored 1m candles (row j carries the
            # atoms r<j>), the aggregation function recorded
            cells = [A(x + "s") for x in "ochlv"]          # rows are told apart by identity and timestamp
            rows = [Arr([num((start_min + j) * MIN)] + cells) for j in range(max(0, count - tf - 2), count)]
            stored = Arr2(rows)
            got = []
            stubs = W.base_stubs()
            stubs["jesse/services/candle.py:generate_candle_from_one_minutes"] = lambda i, a, kk, got=got: (got.append(a[1]), Arr([num(0)] + [A(f"g.{x}") for x in "ochlv"]))[1]
            it = Interp(repo, stubs=stubs)
            # the model store is stateful: the number of stored 1m candles and what get_candles returns follow add_candle
            state = {"n": len(rows) if history == "minute-stored" else len(rows) - 1}
            off = count - len(rows)
            storage = Obj("DynamicNumpyArray", name="storage-1m", attrs={"__len__": BoundBuiltin(lambda i, a, kk, st=state, off=off: num(off + st["n"]))})
            cs = Obj("CandlesState", name="store.candles", attrs={}, open_world=True)
            W.bind(cs, "get_storage", lambda i, a, kk, st_=storage: st_)
            W.bind(cs, "get_candles", lambda i, a, kk, st=state, rows=rows: Arr2(rows[:st["n"]]))

            def add_candle(i, a, kk, st=state, rows=rows):
                tf_arg = a[3] if len(a) > 3 else kk.get("timeframe")
                if tf_arg == "1m":
                    st["n"] = len(rows)          # the executing minute is in the store now (appended or replaced)
            W.bind(cs, "add_candle", add_candle)
            it.overrides[f"{W.STORE}:store"] = Obj("StoreClass", name="store", attrs={"candles": cs}, open_world=True)
            route = {"timeframe": name_by_minutes[tf], "exchange": "Sandbox", "symbol": "BTC-USDT"}
            it.overrides["jesse/routes/__init__.py:router"] = Obj("RouterClass", name="router", attrs={"all_formatted_routes": [route], "formatted_routes": [route]}, open_world=True)
            try:
                it.call(FuncV(fn, repo.module(BT), qual=fn.name), ["Sandbox", "BTC-USDT", Arr([num(ts)] + [A(x) for x in "ochlv"])], {})
            except NotInFragment as e:
                raise AnalysisError(f"_update_all_routes_a_partial_candle: not interpretable: {e}")
            if len(got) != 1 or not isinstance(got[0], Arr2):
                bad = (k, f"{len(got)} aggregations")
                break
            n_rows = len(got[0].rows)
            if n_rows != k + 1:
                bad = (k, n_rows)
                break
            if got[0].rows and got[0].rows[-1] is not rows[-1] or any(x is not y for x, y in zip(got[0].rows, rows[len(rows) - n_rows:])):
                tail_bad = (tf, k)
        if bad:
            aligned = start_min % tf == 0
            rep.violation(rid, "partial|count" + ("" if aligned else "|session-start-not-on-the-epoch-grid") + ("" if history == "minute-stored" else "|fast"),
                          f"partial {name_by_minutes[tf]} candle at minute {bad[0]} of its window aggregates {bad[1]!r} one-minute candles, expected {bad[0] + 1}"
                          + ("" if history == "minute-stored" else " (history: the store has not seen the executing minute yet - the fast matcher; the count must be taken after the partial 1m candle is stored)")
                          + ("" if aligned else f" (session start = day {start_min // day} since the epoch, which is not a multiple of the timeframe: the windows are counted from the first candle)"))
        rep.instance(rid, f"tf={tf}|start={start_min}|{history}", {"timeframe_minutes": tf, "residues": len(residues), "history": history})
    # the aggregated slice is the tail of the stored 1m candles of that length
    if tail_bad:
        rep.violation(rid, "partial|tail", f"partial candle ({name_by_minutes[tail_bad[0]]}, minute {tail_bad[1]} of its window) is not generated from the LAST stored 1m candles")
    rep.instance(rid, "tail-slice")
    rep.floor(rid, 5)


# ------------------------------------------------------------------ R3 tables
UNIT = {"m": 1, "h": 60, "D": 1440, "W": 10080, "M": 43200}


def label_minutes(lbl: str) -> int:
    m = re.fullmatch(r"(\d+)([mhDWM])", lbl)
    if not m:
        raise AnalysisError(f"unparsable timeframe label {lbl!r}")
    return int(m.group(1)) * UNIT[m.group(2)]


def enum_members(repo, cls):
    c = repo.cls("jesse/enums/__init__.py", cls)
    out = {}
    for b in c.body:
        if isinstance(b, ast.Assign) and isinstance(b.value, ast.Constant):
            out[b.targets[0].id] = b.value.value
    return out


def check_tables(repo, rep):
    rid = "C07-R3"
    rep.rule(rid, "timeframe tables: utils.timeframe_to_one_minutes, backtest_mode.timeframe_to_one_minutes and enums.timeframes "
                  "have the same key set, equal values, and each value equals the minutes spelled by its label")
    tfs = enum_members(repo, "timeframes")
    it = Interp(repo, stubs=W.base_stubs())
    bt_table = it.lookup_global(Frame(repo.module(BT), {}), "timeframe_to_one_minutes")
    if not isinstance(bt_table, dict):
        raise AnalysisError("backtest_mode.timeframe_to_one_minutes is not a literal table")
    for name, lbl in tfs.items():
        want = label_minutes(lbl)
        outs = W.run_function(repo, UTILS, "timeframe_to_one_minutes", lambda it: ([lbl], {}))
        for out in outs:
            v = out.value
            if out.kind != "return" or not (isinstance(v, R) and v.is_const() and v.const_value() == want):
                rep.violation(rid, f"utils|{lbl}", f"utils.timeframe_to_one_minutes('{lbl}') = {v!r}, the label spells {want} minutes")
        b = bt_table.get(lbl)
        if not (isinstance(b, R) and b.is_const() and b.const_value() == want):
            rep.violation(rid, f"backtest_mode|{lbl}", f"backtest_mode.timeframe_to_one_minutes['{lbl}'] = {b!r}, the label spells {want} minutes")
        rep.instance(rid, lbl, {"label": lbl, "minutes": want})
    extra = set(bt_table) - set(tfs.values())
    if extra:
        rep.violation(rid, "backtest_mode|extra-keys", f"backtest_mode.timeframe_to_one_minutes has keys outside enums.timeframes: {sorted(map(str, extra))}")
    rep.floor(rid, 17)


# ------------------------------------------------------------------ R4 forming candle on read
def check_forming(repo, rep):
    rid = "C07-R4"
    rep.rule(rid, "CandlesState.get_candles / get_current_candle interpreted on stored 1m and 3m candles for n = 0..7 stored minutes: "
                  "exactly one candle per started window, the last one (if the window is incomplete) being the aggregation of the "
                  "stored 1m candles of that window; get_current_candle returns that last candle")
    t0 = 1_600_000_000_000 // (3 * MIN) * (3 * MIN)
    dna_mod, dna_cls = repo.module(DNA), repo.cls(DNA, "DynamicNumpyArray")
    for n, partial in [(n, False) for n in range(0, 8)] + [(n, True) for n in range(0, 8) if n % 3] + [(n, "reread") for n in range(1, 8) if n % 3]:
        # partial=True: the history in which an order got executed earlier inside the current window, so the 3m storage already
        # holds a (by now outdated) partial candle for that window (_update_all_routes_a_partial_candle), then more minutes arrived
        for method in ("get_candles", "get_current_candle"):
            def mk(dec):
                it = Interp(repo, stubs=W.base_stubs(), overrides={"jesse/config.py:config": {"app": {"considering_timeframes": ("1m", "3m")}, "env": {}}}, decisions=dec)
                arr1 = it.instantiate(ClassV(dna_cls, dna_mod), [(num(16), num(6))], {})
                arr3 = it.instantiate(ClassV(dna_cls, dna_mod), [(num(8), num(6))], {})
                reread = partial == "reread"
                for k in range(n):
                    # reread: the newest minute first holds the partial candle of a fill (S..), is read by a hook, and is then overwritten
                    # in place by the whole minute (what the matching loop does at every fill) - the number of stored candles does not change
                    it.call(it.getattr(arr1, "append"), [Arr([num(t0 + k * MIN)] + [A(f"S{x}" if (reread and k == n - 1) else f"{x}{k}") for x in "ochlv"])], {})
                for w in range(n // 3):
                    it.call(it.getattr(arr3, "append"), [Arr([num(t0 + 3 * w * MIN)] + [A(f"L{w}_{j}") for j in range(1, 6)])], {})
                if partial is True:
                    it.call(it.getattr(arr3, "append"), [Arr([num(t0 + 3 * (n // 3) * MIN)] + [A(f"P{j}") for j in range(1, 6)])], {})
                cs = W.obj_of(repo, CANDLES_STATE, "CandlesState", "store.candles",
                              {"storage": {"Sandbox-BTC-USDT-1m": arr1, "Sandbox-BTC-USDT-3m": arr3}, "are_all_initiated": False, "initiated_pairs": {}})

                def go(it):
                    if reread:
                        it.call(it.getattr(cs, "get_candles"), ["Sandbox", "BTC-USDT", "3m"], {})
                        it.call(it.getattr(cs, "get_current_candle"), ["Sandbox", "BTC-USDT", "3m"], {})
                        it.call(it.getattr(arr1, "__setitem__"), [num(-1), Arr([num(t0 + (n - 1) * MIN)] + [A(f"{x}{n - 1}") for x in "ochlv"])], {})
                    return it.call(it.getattr(cs, method), ["Sandbox", "BTC-USDT", "3m"], {})
                return it, go
            for out in explore(mk, 32):
                key = f"{method}|n={n}" + ("|after-partial" if partial is True else "|reread" if partial else "")
                hist = " after a partial candle of this window was stored at an order execution" if partial is True else \
                       " read for the second time in one minute, after the newest 1m candle was overwritten in place (fill -> whole minute)" if partial else ""
                windows = (n + 2) // 3
                rem = n % 3
                if out.kind != "return":
                    rep.violation(rid, f"{method}|raises", f"{method} raises {out.value} with {n} stored minutes")
                    continue
                v = out.value
                # expected forming candle
                if rem:
                    base = 3 * (n // 3)
                    hi = A(f"h{base}") if rem == 1 else R.atom(Op("max", tuple(sorted([A(f"h{base + i}") for i in range(rem)], key=repr))))
                    lo = A(f"l{base}") if rem == 1 else R.atom(Op("min", tuple(sorted([A(f"l{base + i}") for i in range(rem)], key=repr))))
                    forming = [num(t0 + base * MIN), A(f"o{base}"), A(f"c{n - 1}"), hi, lo, sum((A(f"v{base + i}") for i in range(rem)), num(0))]
                else:
                    forming = None
                if method == "get_candles":
                    rows = v.rows if isinstance(v, Arr2) else None
                    if rows is None or len(rows) != windows:
                        rep.violation(rid, "get_candles|one-per-window", f"get_candles returns {len(rows) if rows is not None else v!r} candles of 3m for {n} stored minutes (started windows: {windows}){hist}")
                    elif forming is not None and not same_candle(rows[-1], forming):
                        rep.violation(rid, "get_candles|forming" + ("|after-partial" if partial is True else "|reread" if partial else ""), f"forming 3m candle with {rem} of 3 minutes{hist} is {rows[-1]!r}, expected {forming!r}")
                    elif rows is not None and windows:
                        tss = [int(r.items[0].const_value()) for r in rows]
                        if tss != [t0 + 3 * w * MIN for w in range(windows)]:
                            rep.violation(rid, "get_candles|alignment", f"3m candles start at minutes {[(t - t0) // MIN for t in tss]}")
                else:
                    if windows == 0:
                        pass
                    elif forming is not None:
                        if not same_candle(v, forming):
                            rep.violation(rid, "get_current_candle|forming" + ("|after-partial" if partial is True else "|reread" if partial else ""), f"get_current_candle with {rem} of 3 minutes{hist} is {v!r}, expected {forming!r}")
                    else:
                        lastw = n // 3 - 1
                        if not (isinstance(v, Arr) and v.items[1].same(A(f"L{lastw}_1"))):
                            rep.violation(rid, "get_current_candle|complete", f"get_current_candle on a complete window is {v!r}")
                rep.instance(rid, key, {"stored_minutes": n, "result": repr(v)[:160]})
    rep.floor(rid, 30)


def check_stored_1m(repo, rep):
    rid = "C07-R6"
    rep.rule(rid, "stored 1m candles: the step simulator stores the (gap-normalised) input candle before matching and the unsplit "
                  "candle again at the end of the minute (shared matching-loop runs: C02-R1 store-real); the fast simulator stores "
                  "the chunk via add_multiple_1m_candles after matching on every path")
    fn = repo.func(BT, "_simulate_price_change_effect_multiple_candles")
    from vlib.traces import Tracer, Cfg, RAISE
    cfg = Cfg(call=lambda label, node: ("call", SL.last(label), norm(node.args[0]) if node.args else "") if SL.last(label) in ("add_multiple_1m_candles",) else None, loop_unroll=1)
    n = 0
    for evs, ex in Tracer(repo, cfg).block(fn.body, (repo.module(BT), None), 0):
        if ex == RAISE:
            continue
        calls = [e for e in evs if e[0] == "call"]
        chunk = fn.args.args[0].arg
        whole = [c for c in calls if c[2] == chunk]
        other = [c for c in calls if c[2] != chunk and not c[2].startswith(chunk + "[")]
        # the whole chunk is stored on every path; storing a leading part of it earlier (minutes nothing can happen in) is harmless
        if len(whole) != 1 or other:
            rep.violation(rid, "fast|store-chunk", f"fast simulator does not store the whole input chunk (once) on every path of a call: {calls}")
        n += 1
        rep.instance(rid, f"fast|{calls}")
    rep.floor(rid, 1)


def check_normalisation_visible(repo, rep):
    rid = "C07-R7"
    rep.rule(rid, "the gap normalisation of a 1m candle must be visible in the array the higher timeframes are aggregated from: "
                  "_get_fixed_jumped_candle edits its argument row in place and returns that same row, or the call site writes the "
                  "result back into the input array (otherwise stored 1m candles and completed higher-timeframe candles disagree)")
    fn = repo.func(BT, "_get_fixed_jumped_candle")
    from fractions import Fraction as F
    inplace = True
    smp = [{"pc": F(5), "o": F(7), "c": F(8), "h": F(9), "l": F(6), "ts": F(0), "v": F(1), "pts": F(0), "po": F(1), "ph": F(1), "pl": F(1), "pv": F(1)},
           {"pc": F(9), "o": F(7), "c": F(8), "h": F(8), "l": F(6), "ts": F(0), "v": F(1), "pts": F(0), "po": F(1), "ph": F(1), "pl": F(1), "pv": F(1)}]
    for s1 in smp:
        def mk(dec):
            it = Interp(repo, samples=[dict(s1)], decisions=dec)
            prev = Arr([A("pts"), A("po"), A("pc"), A("ph"), A("pl"), A("pv")])
            c = Arr([A("ts"), A("o"), A("c"), A("h"), A("l"), A("v")])
            it.c = c
            return it, lambda it: it.call(FuncV(fn, repo.module(BT), qual="_get_fixed_jumped_candle"), [prev, c], {})
        for out in explore(mk, 16):
            same_obj = out.kind == "return" and out.value is out.interp.c
            mutated = isinstance(out.interp.c.items[1], R) and out.interp.c.items[1].same(A("pc"))
            if not (same_obj and mutated):
                inplace = False
            rep.instance(rid, f"in-place|pc={s1['pc']}", {"returns_argument": same_obj, "argument_mutated": mutated})
    # call sites
    for fname in ("_step_simulator", "_simulate_new_candles"):
        f2 = repo.func(BT, fname)
        for st in ast.walk(f2):
            if isinstance(st, ast.Assign) and isinstance(st.value, ast.Call) and SL.last(SL.dotted(st.value.func)) == "_get_fixed_jumped_candle":
                writes_back = isinstance(st.targets[0], ast.Subscript)
                if not writes_back and not inplace:
                    rep.violation(rid, f"{fname}|normalisation-lost",
                                  f"{fname}: `{norm(st)[:90]}` keeps the normalised candle in a local only and _get_fixed_jumped_candle does not edit "
                                  f"the input row in place: higher timeframes are aggregated from the un-normalised input while the normalised candle is stored as 1m")
                rep.instance(rid, f"{fname}|{norm(st.targets[0])}", {"writes_back": writes_back, "callee_in_place": inplace})
    rep.floor(rid, 3)


def check_chunk_divides_routes(repo, rep):
    """the fast simulator stores at most one candle per route and chunk (_simulate_new_candles), so 'one candle per started
    window' needs every route timeframe - trading AND data - to be a multiple of the chunk step"""
    from props.c12 import check_chunk_step
    check_chunk_step(repo, rep, rid="C07-R8")


def check_chunks_inside_session(repo, rep):
    """for every session length (not necessarily a multiple of the timeframe): the fast simulator's chunks partition the session"""
    from props.c12 import check_chunks_partition
    check_chunks_partition(repo, rep, rid="C07-R9")


def check_partial_before_execution(repo, rep):
    rid = "C07-R10"
    rep.rule(rid, "hooks triggered by an execution that the simulator performs itself (matching in both simulators, liquidation) read "
                  "up-to-date candles of every timeframe: on every control-flow path of _simulate_price_change_effect, "
                  "_simulate_price_change_effect_multiple_candles and _check_for_liquidations each `order.execute()` is preceded, "
                  "since the previous execution, by _update_all_routes_a_partial_candle (which rebuilds the routes' candles from the "
                  "stored 1m candles)")
    from vlib.traces import Tracer, Cfg, RAISE
    n = 0
    for fname in ("_simulate_price_change_effect", "_simulate_price_change_effect_multiple_candles", "_check_for_liquidations"):
        fn = repo.func(BT, fname)

        def call(label, node):
            ln = SL.last(label)
            if ln == "_update_all_routes_a_partial_candle":
                return ("publish",)
            if ln == "execute" and isinstance(node.func, ast.Attribute):
                return ("execute", norm(node.func.value))
            return None
        # module-local helpers (other than the publisher itself) are inlined, so the rule does not depend on how the function is cut
        from vlib.traces import make_inliner
        inl = make_inliner(repo, lambda label: "." not in label.rstrip("()") and SL.last(label) not in ("_update_all_routes_a_partial_candle", "_get_executing_orders",
                                                                                                          "_sort_execution_orders", "_check_for_liquidations"))
        cfg = Cfg(call=call, inline=inl, max_depth=2, loop_unroll=2)
        execs = 0
        for evs, ex in Tracer(repo, cfg).block(fn.body, (repo.module(BT), None), 0):
            if ex == RAISE:
                continue
            fresh = False
            for e in evs:
                if e[0] == "publish":
                    fresh = True
                elif e[0] == "execute":
                    execs += 1
                    if not fresh:
                        rep.violation(rid, f"{fname}|execute-without-partial-candles",
                                      f"{fname}: `{e[1]}.execute()` runs without the routes' candles having been rebuilt from the stored 1m candles "
                                      f"(_update_all_routes_a_partial_candle) since the previous execution: its hooks read outdated / missing candles of the larger timeframes")
                    fresh = False
            n += 1
        if execs == 0:
            raise AnalysisError(f"{fname}: no order execution found")
        rep.instance(rid, fname, {"function": fname, "paths": n})
    rep.floor(rid, 3)


def check_partial_candle_so_far(repo, rep, tier):
    rid = "C07-R11"
    rep.rule(rid, "the 1m candle a fill hook reads (the partial candle published before the execution) is the minute SO FAR: over the "
                  "exhaustive match-loop runs (every weak ordering of O/H/L/C, up to three orders and reaction orders) its open is the "
                  "minute's own open and its high / low are the extremes of the price path travelled up to that fill - also at the "
                  "second and third fill inside one minute")
    from props import matchloop
    n = 0
    for desc, viols, sample in matchloop.run_all(repo, tier):
        n += 1
        for r, key, msg in viols:
            if r == rid:
                rep.violation(rid, "match-loop|partial-so-far", msg, {"ordering": desc})
        rep.instance(rid, desc, sample if n % 800 == 1 else None)
    rep.floor(rid, 500)


def check_symbols_minute_major(repo, rep):
    """C07 at fill hooks with several symbols: 'exactly one candle per started window' for the OTHER symbols' candles needs all symbols to
    advance minute by minute; the fast simulator replays a whole chunk per symbol (the same construct as C02-R7)"""
    from props import sessions as S
    rep.rule("C07-R12", "both simulator functions interpreted whole on mini sessions with the matcher recorded: every minute of every symbol is "
                       "matched exactly once, in order, and with several symbols minute-major (every symbol's minute m before any symbol's minute m+1)")
    S.check_cover(repo, rep, "C07-R12")


def run(repo: Repo, rep, tier: str):
    from vlib import memo
    rep.guarded(memo.check, repo, rep, "C07-R13", [(CANDLES_STATE, "CandlesState")], "candle store")
    rep.exhaustive = True
    rep.assume("sessions start and warm-up lengths are aligned to every route timeframe (stated in the property)")
    rep.guarded(check_formula, repo, rep)
    rep.guarded(check_windows, repo, rep)
    rep.guarded(check_windows_sessions, repo, rep, tier)
    rep.guarded(check_partial, repo, rep, tier)
    rep.guarded(check_tables, repo, rep)
    rep.guarded(check_forming, repo, rep)
    rep.guarded(check_stored_1m, repo, rep)
    rep.guarded(check_normalisation_visible, repo, rep)
    rep.guarded(check_chunk_divides_routes, repo, rep)
    rep.guarded(check_chunks_inside_session, repo, rep)
    rep.guarded(check_partial_before_execution, repo, rep)
    rep.guarded(check_partial_candle_so_far, repo, rep, tier)
    rep.guarded(check_symbols_minute_major, repo, rep)
    # the 1m candles a later hook of the same chunk reads: the fast matcher must leave every minute it has passed in the store as the
    # WHOLE input candle (shared runs with C12-R4d: both matchers on a two-minute span with a hook-submitted market order)
    from props.c12 import check_hook_market_orders
    rep.guarded(check_hook_market_orders, repo, rep, tier, "C07-R14")
    rep.undecided_item("numerical equality of every stored candle at every observation time of a whole run (the per-site formulas and window arithmetic are decided)")


CLAIM = {
    "engine": "absint+affine",
    "technique": "symbolic normal form of the aggregation (incl. the fast simulator's inlined copy), affine window arithmetic at every aggregation site, constant-folded timeframe tables, forming-candle reads interpreted on the repository's DynamicNumpyArray",
    "text": "Static. (1) generate_candle_from_one_minutes is interpreted on k symbolic 1m candles and equals [first ts, first open, last "
            "close, max high, min low, sum volume]; the fast simulator's inlined chunk aggregation has the same normal form. (2) All "
            "four completed-window sites have guard E % count == 0 with slice [E-count : E] (affine forms compared as polynomials); "
            "the partial-candle count (interpreted with the store's 1m count) is exact for every residue of every enumerated timeframe, also "
            "for 3D / 1W windows of a session that does not start on the epoch grid of the timeframe. (3) The two timeframe tables agree "
            "with enums.timeframes and with the minutes their labels spell. (4) CandlesState.get_candles/get_current_candle are "
            "interpreted for 0..7 stored minutes of a 3m route: one candle per started window, forming candle = aggregation of the "
            "stored minutes of that window - also in the history where a partial candle of that window was stored at an earlier order execution (it must not be served once newer minutes arrived). (5) Fast simulator: the chunk step equals the gcd of all route timeframes (trading and data, 15 route sets), and its time loop, interpreted for session lengths 1..13 and steps 1/3/5, partitions the session into consecutive chunks that end exactly at the session length. (6) Every order execution the simulators perform themselves (both matchers, liquidation) is preceded on every path by the rebuild of the routes' candles from the stored 1m candles, so the hooks it triggers read current candles; the partial candle published at every fill is the minute so far (own open, extremes of the path travelled) over all match-loop runs; with several symbols the matcher must advance minute by minute (decided by executing `_simulate_new_candles` for two symbols, rule C07-R12). Not decided: equality of every stored candle at every observation time of a whole run. The minutes a fast chunk has passed stay in the store as whole input candles (R14); the partial-candle publisher is interpreted against a stateful store model in the history of either simulator (R2b); memo invalidation completeness of CandlesState (R13).",
    "note": "Trusted: interpreter semantics, numpy table model; windows assumed aligned as the property states.",
}
