"""Exhaustive abstract execution of the 1m matching loop over the order domain (shared by C02/C05/C08/C09).
See vlib/simworld.py for the abstract world and props/c08.py for the rationale."""
from __future__ import annotations

import os
from fractions import Fraction
from concurrent.futures import ProcessPoolExecutor

from vlib.absint import R
from vlib.loader import Repo, AnalysisError
from vlib.orderdom import weak_orderings, embeddings, describe
from vlib import world as W
from vlib import simworld as S

CANDLE_CONS = [("l", "<=", "o"), ("l", "<=", "c"), ("o", "<=", "h"), ("c", "<=", "h")]


def _val(x, s):
    return x.evaluate(lambda a: s[a])


# ------------------------------------------------------------------ R2 / R3 matching loop
def _expected_fills(s, case: S.SimCase):
    """Reference model: orders fill where the continuous path first reaches their price."""
    o, c, h, l = s["o"], s["c"], s["h"], s["l"]
    segs = S.path_segments(o, c, h, l)
    pos = {}
    for i, p in enumerate(case.order_prices):
        if i in case.inactive:
            continue
        fp = S.first_position(segs, s[p])
        if fp is not None:
            pos[f"O{i}"] = fp
    return segs, pos


def _check_case(repo, case: S.SimCase, rank, fast: bool = False):
    """Returns (violations, sample) for one weak ordering.  fast=True: the fast simulator's matcher on a one-candle chunk; the
    same path reference applies (the remaining path covers the same prices), only the per-minute epilogue rules are skipped."""
    desc = describe(rank)
    samples = embeddings(rank, 2)
    # the same ordering with every level a tick apart (within 0.01 % of each other): exact comparisons must stay exact
    levels = sorted(set(samples[0].values()))
    samples.append({k: Fraction(100) + Fraction(levels.index(v), 1000) for k, v in samples[0].items()})
    for s in samples:
        s.update({"ts": Fraction(60000), "v": Fraction(5), "cp0": Fraction(1), "now": Fraction(120000),
                  "t_created": Fraction(0)})
        for i in range(len(case.order_prices)):
            s[f"q{i}"] = Fraction(1)
        s["qr"] = Fraction(1)
    try:
        outs = S.run_match_loop(repo, case, samples, fast=fast)
    except AnalysisError as e:
        if "while loop exceeded" in str(e):
            return [("C02-R2", f"match-loop|nonterminating|{desc}",
                     f"the matching loop does not terminate for {desc} (a touched order never becomes final)")], None
        raise
    viols = []
    trace_sample = None
    for out in outs:
        s = out.interp.samples[0] if out.interp.samples else samples[0]
        w = out.interp.world
        if out.kind != "return":
            viols.append(("C08-R3", f"match-loop|raises|{desc}", f"matching loop raises {out.value} for {desc}"))
            continue
        segs, pos = _expected_fills(s, case)
        fills = [ev for ev in out.events if ev[0] == "fill"]
        names = [f[1] for f in fills]
        # reaction order
        rnames = []
        if case.reaction is not None:
            rnames = list(case.reaction[1]) if isinstance(case.reaction[1], (list, tuple)) else [case.reaction[1]]
        if case.reaction is not None and len(names) > case.reaction[0]:
            trig = names[case.reaction[0]]
            if trig in pos:
                t0 = pos.get(trig)
                if t0 is not None:
                    for j, rn in enumerate(rnames):
                        rp = S.first_position(segs, s[rn], start=t0)
                        if rp is not None:
                            pos["REACT" if j == 0 else f"REACT{j + 1}"] = rp
        exp_names = set(pos)
        got = [n for n in names]
        if len(set(got)) != len(got):
            viols.append(("C08-R3", f"match-loop|double-fill|{desc}", f"an order is filled twice in one minute for {desc}: {got}"))
        # boundary: a reaction order placed exactly at the triggering fill price may or may not fill
        optional = set()
        if case.reaction is not None and len(names) > case.reaction[0]:
            trig = names[case.reaction[0]]
            if trig.startswith("O"):
                tp = s[case.order_prices[int(trig[1:])]]
                for j, rn in enumerate(rnames):
                    if s[rn] == tp:
                        optional.add("REACT" if j == 0 else f"REACT{j + 1}")
        missing = exp_names - set(got) - optional
        extra = set(got) - exp_names - optional
        if missing:
            viols.append(("C02-R2", f"match-loop|unfilled|{desc}",
                          f"active order(s) {sorted(missing)} whose price lies on the remaining path are left unfilled for {desc}"))
        if extra:
            viols.append(("C08-R3", f"match-loop|spurious|{desc}",
                          f"order(s) {sorted(extra)} filled although the (remaining) path never reaches their price for {desc}"))
        # path order
        seq = [(n, pos[n]) for n in got if n in pos]
        for a, b in zip(seq, seq[1:]):
            if a[1] > b[1]:
                viols.append(("C08-R2", f"match-loop|order|{desc}",
                              f"fills are not in path order for {desc}: {a[0]} at path position {a[1]} before {b[0]} at {b[1]}"))
                break
        # fill price = own price = published partial close = current price at the hook
        for f in fills:
            cp, own = f[2], f[3]
            # (also for a fill exactly at the open of the remaining candle: split_candle returns the whole remaining candle for it,
            #  whose close is still in the future - the simulator must not take the current price from it)
            if not (isinstance(cp, R) and _val(cp, s) == _val(own, s)):
                viols.append(("C02-R4", f"match-loop|fillprice|{desc}",
                              f"order {f[1]} is filled with current price {cp!r}, not at its own price {own!r} for {desc}"))
        # ordering of events: partial candle published before the execution it belongs to
        last_partial = None
        pts = [segs[0][0]] + [b for _, b in segs]          # the path's corner points: open, low/high, high/low, close
        for ev in out.events:
            if ev[0] == "partial":
                last_partial = ev[1]
            if ev[0] == "fill":
                if last_partial is None or _val(last_partial[2], s) != _val(ev[3], s):
                    viols.append(("C08-R3", f"match-loop|partial|{desc}",
                                  f"partial candle published before fill of {ev[1]} does not close at the fill price for {desc}"))
                elif ev[1] in pos:
                    # the candle so far: from the minute's own open, with the extremes of the path travelled up to this fill
                    seg_i = pos[ev[1]][0]
                    travelled = pts[:seg_i + 1] + [_val(ev[3], s)]
                    want_o, want_h, want_l = s["o"], max(travelled), min(travelled)
                    got_o, got_h, got_l = _val(last_partial[1], s), _val(last_partial[3], s), _val(last_partial[4], s)
                    if (got_o, got_h, got_l) != (want_o, want_h, want_l):
                        viols.append(("C07-R11", f"match-loop|partial-so-far|{desc}",
                                      f"partial candle published at the fill of {ev[1]} is (open {got_o}, high {got_h}, low {got_l}), the minute so far is (open {want_o}, "
                                      f"high {want_h}, low {want_l}) for {desc}: it starts at the previous fill instead of the minute's open"))
                last_partial = None
        if fast:
            if trace_sample is None:
                trace_sample = {"ordering": desc, "fills": got, "expected_positions": {k: [v[0], str(v[1])] for k, v in pos.items()}}
            continue
        # epilogue: real candle stored, current price = close, liquidation check after matching
        adds = [ev for ev in out.events if ev[0] == "add_candle"]
        real = tuple(W.candle().items)
        if not adds or not all(x.same(y) for x, y in zip(adds[-1][1], real)):
            viols.append(("C02-R1", f"match-loop|store-real|{desc}", f"the unsplit 1m candle is not stored at the end of the minute for {desc}"))
        cpe = w["position"].attrs.get("current_price")
        if not (isinstance(cpe, R) and cpe.same(R.atom("c"))):
            viols.append(("C02-R1", f"match-loop|close-price|{desc}", f"current price after the minute is {cpe!r}, not the close, for {desc}"))
        liq = [i for i, ev in enumerate(out.events) if ev[0] == "liqcheck"]
        last_fill = max([i for i, ev in enumerate(out.events) if ev[0] == "fill"], default=-1)
        if len(liq) != 1 or liq[0] < last_fill:
            viols.append(("C09-R2", f"match-loop|liqcheck|{desc}", f"liquidation check not run exactly once after matching for {desc}"))
        else:
            lc = out.events[liq[0]][1]
            if not all(isinstance(x, R) and _val(x, s) == _val(y, s) for x, y in zip(lc, real)):
                viols.append(("C09-R2", f"match-loop|liqcheck-range|{desc}",
                              f"the liquidation check does not look at the whole minute's range but at {[repr(x) for x in lc[1:5]]} (o,c,h,l) for {desc}"))
        if trace_sample is None:
            trace_sample = {"ordering": desc, "fills": got,
                            "expected_positions": {k: [v[0], str(v[1])] for k, v in pos.items()}}
    return viols, trace_sample


def _cases(tier):
    cases = []
    # k resting orders, no reaction
    ks = [1, 2] if tier == "quick" else [1, 2, 3]
    for k in ks:
        cases.append(S.SimCase([f"p{i}" for i in range(k)]))
    if tier == "quick":
        # three resting orders at distinct prices (symmetry broken: p0 < p1 < p2); ties are covered by the thorough tier
        cases.append(S.SimCase(["p0", "p1", "p2"], extra_cons=[("p0", "<", "p1"), ("p1", "<", "p2")]))
    # reaction orders: triggered by first fill
    cases.append(S.SimCase(["p0"], reaction=(0, "r")))
    # two exits placed from the fill hook (stop-loss + take-profit): re-sorting must use the REMAINING candle
    cases.append(S.SimCase(["p0"], reaction=(0, ["r", "r2"]), extra_cons=[("r", "<", "r2")]))
    if tier != "quick":
        cases.append(S.SimCase(["p0", "p1"], reaction=(0, "r")))
        cases.append(S.SimCase(["p0", "p1"], reaction=(1, "r")))
    # an already-cancelled order in the active list must be skipped
    cases.append(S.SimCase(["p0", "p1"], inactive=[0]))
    # a one-for-one replacement from the fill hook (a trailing stop: cancel one order, submit one - the number of active orders drops
    # by exactly the filled one): the new order must be a candidate for the rest of the minute.  The replaced order rests below the
    # candle, so the path reference needs no notion of cancellation
    cases.append(S.SimCase(["p0", "p1"], reaction=(0, "r"), extra_cons=[("p1", "<", "l")], replaces=1))
    return cases


def _work(args):
    root, case_spec, ranks = args[:3]
    fast = len(args) > 3 and args[3]
    repo = Repo(root)
    case = S.SimCase(*case_spec)
    res = []
    for rank in ranks:
        try:
            res.append((rank, _check_case(repo, case, rank, fast), None))
        except AnalysisError as e:
            res.append((rank, ([], None), str(e)))
    return res




def _fast_cases(tier):
    cases = [S.SimCase(["p0", "p1"]),
             # three resting orders in both storage orders relative to their prices (the matcher re-reads them in storage order)
             S.SimCase(["p0", "p1", "p2"], extra_cons=[("p0", "<", "p1"), ("p1", "<", "p2")]),
             S.SimCase(["p0", "p1", "p2"], extra_cons=[("p0", "<", "p2"), ("p2", "<", "p1")]),
             S.SimCase(["p0"], reaction=(0, "r"))]
    if tier != "quick":
        cases.append(S.SimCase(["p0", "p1", "p2"]))
        cases.append(S.SimCase(["p0"], reaction=(0, ["r", "r2"]), extra_cons=[("r", "<", "r2")]))
    return cases


def run_all(repo: Repo, tier: str, fast: bool = False):
    """Yield (ordering description, [(rule, key, message)], sample) for every case x weak ordering."""
    jobs = []
    for case in (_fast_cases(tier) if fast else _cases(tier)):
        rsyms = []
        if case.reaction:
            rsyms = list(case.reaction[1]) if isinstance(case.reaction[1], (list, tuple)) else [case.reaction[1]]
        syms = ["o", "c", "h", "l"] + case.order_prices + rsyms
        ranks = list(weak_orderings(syms, CANDLE_CONS + list(case.extra_cons)))
        spec = (case.order_prices, case.reaction, case.inactive, case.extra_cons, case.replaces)
        chunk = max(1, len(ranks) // 64)
        for i in range(0, len(ranks), chunk):
            jobs.append((repo.root, spec, ranks[i:i + chunk], fast))
    nproc = min(16, os.cpu_count() or 1)
    with ProcessPoolExecutor(max_workers=nproc) as ex:
        for res in ex.map(_work, jobs):
            for rank, (viols, sample), err in res:
                if err:
                    raise AnalysisError(err)
                yield describe(rank), viols, sample
