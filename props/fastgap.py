"""Fast-simulator chunk with a gap INSIDE the chunk (shared by C02 and C12).

A two-minute chunk [m1, m2] is pushed through /repo's `_simulate_new_candles` (so that whatever normalisation the fast
simulator applies to the chunk's candles is part of the run): m1 is flat at the level `a` (open = close = high = low = a),
m2 = (o2, c2, h2, l2) is a raw input candle whose open may differ from the previous close a.  One or two resting orders.
The same two minutes are pushed through the normal simulator's per-minute protocol (`_get_fixed_jumped_candle` on the
previous candle, then `_simulate_price_change_effect`).  Every weak ordering of (a, o2, c2, h2, l2, p[, r]) is one case."""
from __future__ import annotations

import os
from fractions import Fraction as F
from concurrent.futures import ProcessPoolExecutor

from vlib.absint import Interp, Obj, Arr, Arr2, FuncV, explore, R, num
from vlib.loader import Repo, AnalysisError
from vlib.orderdom import weak_orderings, embeddings, describe
from vlib import world as W
from vlib import simworld as S

MIN = 60_000
T0 = 1_600_000_020_000 // MIN * MIN
BT = W.BT
CONS = [("l2", "<=", "o2"), ("l2", "<=", "c2"), ("o2", "<=", "h2"), ("c2", "<=", "h2")]


def A(n):
    return R.atom(n)


def _candles():
    flat = lambda k: Arr([num(T0 + k * MIN), A("a"), A("a"), A("a"), A("a"), A("v")])
    m2 = Arr([num(T0 + 2 * MIN), A("o2"), A("c2"), A("h2"), A("l2"), A("v")])
    return flat(0), flat(1), m2


def run_mode(repo, mode, samples, prices):
    case = S.SimCase(list(prices))

    def mk(dec):
        it = S.build(repo, case, samples, dec)
        app = it.world["store"].attrs["app"]
        pos = it.world["position"]
        orig = pos.attrs["_on_executed_order"]

        def hook(i, a, k):
            i.event("fill_at", a[0].name, a[0].attrs["price"], app.attrs.get("time"))
            return i.call(orig, a, k)
        W.bind(pos, "_on_executed_order", hook)
        it.stubs[f"{W.HELPERS}:is_backtesting"] = lambda i, a, k: True
        it.overrides["jesse/config.py:config"] = {"app": {"considering_timeframes": ("1m",)}, "env": {}}
        mod = repo.module(BT)
        m0, m1, m2 = _candles()
        if mode == "normal":
            fix = repo.func(BT, "_get_fixed_jumped_candle")
            fn = repo.func(BT, "_simulate_price_change_effect")

            def thunk(it):
                prev = m0
                for c in (m1, m2):
                    c = it.call(FuncV(fix, mod, qual="_get_fixed_jumped_candle"), [prev, c], {})
                    app.attrs["time"] = c.items[0] + num(MIN)
                    it.call(FuncV(fn, mod, qual="_simulate_price_change_effect"), [c, "Sandbox", "BTC-USDT"], {})
                    prev = c
            return it, thunk
        fn = repo.func(BT, "_simulate_new_candles")
        cd = {"Sandbox-BTC-USDT": {"exchange": "Sandbox", "symbol": "BTC-USDT", "candles": Arr2([m0, m1, m2])}}
        return it, lambda it: it.call(FuncV(fn, mod, qual="_simulate_new_candles"), [cd, num(1), num(2)], {})
    return explore(mk, 64)


def _work(args):
    root, prices, ranks = args
    repo = Repo(root)
    out = []
    for rank in ranks:
        samples = embeddings(rank, 2)
        for s in samples:
            s.update({"v": F(2), "cp0": F(1), "now": F(T0), "t_created": F(0), "q0": F(1), "q1": F(1), "qr": F(1)})
        res, err = {}, None
        for mode in ("normal", "fast"):
            try:
                outs = run_mode(repo, mode, samples, prices)
            except AnalysisError as e:
                err = f"{mode}: {e}"
                break
            runs = []
            for o in outs:
                s = o.interp.samples[0] if o.interp.samples else samples[0]
                f = tuple((e[1], o.interp.numeric(e[2], s), o.interp.numeric(e[3], s) if isinstance(e[3], R) else None) for e in o.events if e[0] == "fill_at")
                runs.append((o.kind, f))
            res[mode] = sorted(set(runs), key=repr)
        out.append((rank, res, err))
    return out


def run_all(repo: Repo, tier: str):
    """yield (description, sample, {'normal': [(kind, fills)], 'fast': [...]}) with fills = ((order, price, time), ...)"""
    fams = [(("p",), [])]
    fams.append((("p", "r"), [("p", "<", "r")]))
    jobs = []
    for prices, extra in fams:
        ranks = list(weak_orderings(["a", "o2", "c2", "h2", "l2"] + list(prices), CONS + extra))
        if tier == "quick" and len(prices) > 1:
            ranks = ranks[::6]
        chunk = max(1, len(ranks) // 64)
        for i in range(0, len(ranks), chunk):
            jobs.append((repo.root, prices, ranks[i:i + chunk]))
    with ProcessPoolExecutor(max_workers=min(16, os.cpu_count() or 1)) as ex:
        for res in ex.map(_work, jobs):
            for rank, r, err in res:
                if err:
                    raise AnalysisError(err)
                yield describe(rank), embeddings(rank, 1)[0], r
