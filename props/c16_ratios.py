"""C16-R4: the ratio helpers of jesse/services/metrics.py interpreted on a symbolic daily-return series.

The series is what metrics.trades builds: pct_change() of N+1 equity samples, i.e. [NaN, r1, ..., rN].  A small pandas
Series model (NaN-skipping reductions, cumprod, expanding().max(), boolean-mask selection, fillna, count) is enough for
max_drawdown, sharpe_ratio, sortino_ratio, calmar_ratio, cagr and omega_ratio.  Each helper is run for every sign pattern
(loss / flat / gain) of the N returns - the data-dependent branches (masks, running maxima) are decided per pattern by a
witness - and its result must equal the textbook definition built independently here, as a rational function with opaque
sqrt / pow atoms."""
from __future__ import annotations

import ast
import itertools
from fractions import Fraction as F

from vlib.absint import (Interp, Obj, Arr, BoolVec, FuncV, BoundBuiltin, explore, R, num, NAN, Unknown, NotInFragment, is_num)
from vlib.poly import Op
from vlib.loader import Repo, AnalysisError
from vlib import world as W

METRICS = "jesse/services/metrics.py"


def A(n):
    return R.atom(n)


def sqrt(x):
    return R.atom(Op("sqrt", (x,)))


def _skip(xs):
    return [x for x in xs if x is not NAN]


def rseries(it, items, days=None):
    """Series of abstract numbers / NaN.  `days` are the integer day offsets of the index."""
    n = len(items)
    days = list(days) if days is not None else list(range(n))
    s = Obj("Series", name="returns", attrs={"items": list(items), "days": days})

    def new(xs, dd=None):
        return rseries(it, xs, days if dd is None else dd)

    def binop(i, a, k):
        op, other, swapped = a
        if isinstance(other, Obj) and other.cls == "Series":
            ys = other.attrs["items"]
            if len(ys) != n:
                raise NotInFragment("Series alignment")
        elif is_num(other) or other is NAN:
            ys = [other] * n
        else:
            raise NotInFragment(f"Series arithmetic with {type(other).__name__}")
        out = []
        for x, y in zip(s.attrs["items"], ys):
            l, r = (y, x) if swapped else (x, y)
            out.append(NAN if (l is NAN or r is NAN) else i.binop(l, op, r))
        return new(out)

    def cmp_(i, a, k):
        op, other = a
        return BoolVec([False if x is NAN else i.compare(x, op, other) for x in s.attrs["items"]])

    def getitem(i, a, k):
        key = a[0]
        if isinstance(key, BoolVec):
            keep = [j for j, b in enumerate(key.items) if b]
            return new([s.attrs["items"][j] for j in keep], [days[j] for j in keep])
        if is_num(key) and key.is_const():
            return s.attrs["items"][int(key.const_value())]
        raise NotInFragment("Series index")

    def total(i, a, k):
        t = num(0)
        for x in _skip(s.attrs["items"]):
            t = t + x
        return t

    def prod(i, a, k):
        t = num(1)
        for x in _skip(s.attrs["items"]):
            t = t * x
        return t

    def count(i, a, k):
        return num(len(_skip(s.attrs["items"])))

    def mean(i, a, k):
        xs = _skip(s.attrs["items"])
        return total(i, a, k) / num(len(xs)) if xs else NAN

    def std(i, a, k):
        xs = _skip(s.attrs["items"])
        ddof = k.get("ddof", num(1))
        ddof = int(ddof.const_value()) if is_num(ddof) else 1
        if len(xs) - ddof <= 0:
            return NAN
        m = total(i, a, k) / num(len(xs))
        var = num(0)
        for x in xs:
            var = var + (x - m) * (x - m)
        return sqrt(var / num(len(xs) - ddof))

    def ext(which):
        def f(i, a, k):
            xs = _skip(s.attrs["items"])
            if not xs:
                return NAN
            best = xs[0]
            for x in xs[1:]:
                if i.decide_num(x, ast.Lt() if which == "min" else ast.Gt(), best):
                    best = x
            return best
        return f

    def cumprod(i, a, k):
        out, acc = [], None
        for x in s.attrs["items"]:
            if x is NAN:
                out.append(NAN)
            else:
                acc = x if acc is None else acc * x
                out.append(acc)
        return new(out)

    def fillna(i, a, k):
        v = a[0]
        return new([v if x is NAN else x for x in s.attrs["items"]])

    def expanding(i, a, k):
        ex = Obj("Expanding", name="expanding", attrs={})

        def emax(i2, a2, k2):
            out, best = [], None
            for x in s.attrs["items"]:
                if x is not NAN:
                    if best is None or i2.decide_num(x, ast.Gt(), best):
                        best = x
                out.append(NAN if best is None else best)
            return new(out)
        ex.attrs["max"] = BoundBuiltin(emax)
        return ex

    def rolling(i, a, k):
        w = a[0] if a else k.get("window")
        if not (is_num(w) and w.is_const()):
            raise NotInFragment("rolling window that is not a constant")
        w = int(w.const_value())
        mp = k.get("min_periods", a[1] if len(a) > 1 else None)
        mp = w if mp is None else int(mp.const_value())
        ro = Obj("Rolling", name="rolling", attrs={})

        def agg(kind):
            def f(i2, a2, k2):
                out = []
                xs_all = s.attrs["items"]
                for j in range(len(xs_all)):
                    xs = _skip(xs_all[max(0, j - w + 1):j + 1])
                    if len(xs) < max(mp, 1):
                        out.append(NAN)
                        continue
                    if kind in ("max", "min"):
                        best = xs[0]
                        for x in xs[1:]:
                            if i2.decide_num(x, ast.Gt() if kind == "max" else ast.Lt(), best):
                                best = x
                        out.append(best)
                    else:
                        t = num(0)
                        for x in xs:
                            t = t + x
                        out.append(t if kind == "sum" else t / num(len(xs)))
                return new(out)
            return f
        for kind in ("max", "min", "sum", "mean"):
            ro.attrs[kind] = BoundBuiltin(agg(kind))
        return ro

    def cummax(i, a, k):
        out, best = [], None
        for x in s.attrs["items"]:
            if x is NAN:
                out.append(NAN)
                continue
            if best is None or i.decide_num(x, ast.Gt(), best):
                best = x
            out.append(best)
        return new(out)

    idx = Obj("Index", name="index", attrs={})

    def idx_get(i, a, k):
        j = int(a[0].const_value())
        d = Obj("Timestamp", name=f"day{days[j]}", attrs={"day": days[j]})

        def tsub(i2, a2, k2):
            op, other, swapped = a2
            if not isinstance(op, ast.Sub) or not (isinstance(other, Obj) and other.cls == "Timestamp"):
                raise NotInFragment("timestamp arithmetic")
            dd = (other.attrs["day"] - d.attrs["day"]) if swapped else (d.attrs["day"] - other.attrs["day"])
            return Obj("Timedelta", name="delta", attrs={"days": num(dd)})
        d.attrs["__binop__"] = BoundBuiltin(tsub)
        return d
    idx.attrs["__getitem__"] = BoundBuiltin(idx_get)

    s.attrs.update({
        "__binop__": BoundBuiltin(binop), "__compare__": BoundBuiltin(cmp_), "__getitem__": BoundBuiltin(getitem),
        "__len__": BoundBuiltin(lambda i, a, k: num(n)), "sum": BoundBuiltin(total), "prod": BoundBuiltin(prod), "count": BoundBuiltin(count),
        "mean": BoundBuiltin(mean), "std": BoundBuiltin(std), "min": BoundBuiltin(ext("min")), "max": BoundBuiltin(ext("max")),
        "cumprod": BoundBuiltin(cumprod), "fillna": BoundBuiltin(fillna), "expanding": BoundBuiltin(expanding), "rolling": BoundBuiltin(rolling), "cummax": BoundBuiltin(cummax), "index": idx,
        "shape": (num(n),),
    })
    return s


def _series_ctor(it, args, kw):
    v = args[0]
    return rseries(it, list(v) if isinstance(v, (list, tuple)) else [v])


def _np_sqrt(it, args, kw):
    v = args[0]
    if is_num(v):
        if v.is_const() and v.const_value() >= 0:
            c = v.const_value()
            import math
            rn, rd = math.isqrt(c.numerator), math.isqrt(c.denominator)
            if rn * rn == c.numerator and rd * rd == c.denominator:
                return num(F(rn, rd))
        return sqrt(v)
    return Unknown("sqrt")


EXT = {"pandas.Series": _series_ctor, "numpy.sqrt": _np_sqrt}

SIGNS = {"loss": F(-1, 10), "flat": F(0), "gain": F(1, 20)}


def _pow(a, b):
    return R.atom(Op("pow", (a, b)))


def references(rs, n_days):
    """textbook definitions on the returns r1..rN (N returns over N days, 365-day year); max / min decided by the caller's witness"""
    N = len(rs)
    mean = sum(rs, num(0)) / num(N)
    var = sum(((r - mean) * (r - mean) for r in rs), num(0)) / num(N - 1) if N > 1 else None
    return mean, var


def check_ratio_formulas(repo: Repo, rep, tier: str):
    rid = "C16-R4"
    rep.rule(rid, "ratio helpers interpreted on the daily-return series [NaN, r1..rN] that metrics.trades builds (pandas Series modelled), "
                  "for every loss / flat / gain pattern of N = 2, 3 returns: max_drawdown = min_t P_t / max_{s<=t} P_s - 1 with P_0 = 1 "
                  "(the starting balance is a peak) and never positive; sharpe = mean / std(ddof=1) * sqrt(365); sortino = mean / "
                  "sqrt(sum of squared negative returns / N) * sqrt(365); cagr = prod(1+r)^(365/days) - 1; calmar = cagr / |max "
                  "drawdown|; omega = sum of gains / sum of losses")
    Ns = (2, 3) if tier == "quick" else (2, 3, 4)
    n_inst = 0
    for N in Ns:
        for pat in itertools.product(sorted(SIGNS), repeat=N):
            smp = {f"r{j + 1}": SIGNS[p] * (j + 2) / 2 for j, p in enumerate(pat)}     # distinct magnitudes
            rs = [A(f"r{j + 1}") for j in range(N)]
            vals = [smp[f"r{j + 1}"] for j in range(N)]
            # ---- references, with max / min resolved on the witness (they are piecewise by pattern)
            P = [num(1)]
            Pv = [F(1)]
            for r, v in zip(rs, vals):
                P.append(P[-1] * (num(1) + r))
                Pv.append(Pv[-1] * (1 + v))
            best_t, best_dd = None, None
            for t in range(len(P)):
                peak = max(range(t + 1), key=lambda s_: (Pv[s_], -s_))
                ddv = Pv[t] / Pv[peak] - 1
                if best_dd is None or ddv < best_dd:
                    best_dd, best_t = ddv, (t, peak)
            mdd = P[best_t[0]] / P[best_t[1]] - num(1)
            mean = sum(rs, num(0)) / num(N)
            var = sum(((r - mean) * (r - mean) for r in rs), num(0)) / num(N - 1)
            neg = [r for r, v in zip(rs, vals) if v < 0]
            downside = sum((r * r for r in neg), num(0)) / num(N)
            total = P[-1]
            years = F(N, 365)
            cagr = _pow(total, num(1 / years)) - num(1)
            gains = sum((r for r, v in zip(rs, vals) if v > 0), num(0))
            losses = sum((-r for r, v in zip(rs, vals) if v < 0), num(0))
            want = {
                "max_drawdown": mdd,
                "sharpe_ratio": None if var.n.is_zero() or all(v == vals[0] for v in vals) else mean / sqrt(var) * sqrt(num(365)),
                "sortino_ratio": None if not neg else mean / sqrt(downside) * sqrt(num(365)),
                "cagr": cagr,
                "calmar_ratio": None if best_dd == 0 else cagr / (-mdd),
                "omega_ratio": None if not neg else gains / losses,
            }
            for helper, ref in want.items():
                if ref is None:
                    continue        # degenerate (zero deviation / no losing day): the helper's conventions (inf / nan / 0) are not part of the property

                def mk(dec, helper=helper):
                    it = Interp(repo, stubs=W.base_stubs(), samples=[dict(smp)], decisions=dec, ext_stubs=dict(EXT))
                    ser = rseries(it, [NAN] + rs, days=list(range(N + 1)))
                    fn = repo.func(METRICS, helper)
                    kw = {"periods": num(365)} if helper in ("sharpe_ratio", "sortino_ratio", "cagr", "omega_ratio") else {}
                    return it, lambda it: it.call(FuncV(fn, repo.module(METRICS), qual=helper), [ser], kw)
                try:
                    outs = explore(mk, 32)
                except NotInFragment as e:
                    raise AnalysisError(f"{helper}: outside the modelled pandas fragment: {e}")
                for out in outs:
                    key = f"{helper}|N={N}|{'/'.join(pat)}"
                    n_inst += 1
                    if out.kind != "return":
                        rep.violation(rid, f"{helper}|raises", f"{helper} raises {out.value} on the returns pattern {pat}")
                        continue
                    v = out.value
                    got = v.attrs["items"][0] if isinstance(v, Obj) and v.cls == "Series" and v.attrs.get("items") else v
                    if isinstance(got, Obj) and got.cls == "Series":
                        got = got.attrs["items"][0]
                    if not is_num(got):
                        raise AnalysisError(f"{helper}: result {got!r} is not a number for pattern {pat}")
                    ok = got.same(ref)
                    if not ok:
                        # compare numerically on the witness (opaque sqrt / pow atoms evaluated)
                        try:
                            gv, rv = _num(got, smp), _num(ref, smp)
                            ok = abs(gv - rv) <= 1e-9 * max(1.0, abs(gv), abs(rv))
                        except Exception as e:      # noqa
                            raise AnalysisError(f"{helper}: cannot evaluate {got!r} / {ref!r}: {e}")
                        if not ok:
                            rep.violation(rid, f"{helper}|definition", f"{helper} on daily returns {[str(x) for x in vals]} (after the NaN first row) is {gv:.6g}, its "
                                                                        f"definition gives {rv:.6g}: {str(got)[:160]} vs {str(ref)[:160]}")
                    if helper == "max_drawdown" and _num(got, smp) > 1e-12:
                        rep.violation(rid, "max_drawdown|positive", f"max_drawdown is positive ({_num(got, smp)}) for returns {vals}")
                    rep.instance(rid, key, {"returns": [str(x) for x in vals], "value": str(got)[:120]} if n_inst % 40 == 1 else None)
    # ---- a history longer than a year: the running peak is the peak since the START, however long ago (a steady decline of 400 days:
    # the trough lies more than 365 samples after the peak).  Returns are written g_t - 1, so the equity curve is a monomial in the g_t
    NL = 400
    smpL = {f"g{j + 1}": F(199, 200) for j in range(NL)}
    gs = [A(f"g{j + 1}") for j in range(NL)]
    totalL = num(1)
    for g in gs:
        totalL = totalL * g
    wantL = {"max_drawdown": totalL - num(1)}
    cagrL = _pow(totalL, num(F(365, NL))) - num(1)
    wantL["calmar_ratio"] = cagrL / (num(1) - totalL)
    for helper, ref in wantL.items():
        def mkL(dec, helper=helper):
            it = Interp(repo, stubs=W.base_stubs(), samples=[dict(smpL)], decisions=dec, ext_stubs=dict(EXT))
            ser = rseries(it, [NAN] + [g - num(1) for g in gs], days=list(range(NL + 1)))
            fn = repo.func(METRICS, helper)
            return it, lambda it: it.call(FuncV(fn, repo.module(METRICS), qual=helper), [ser], {})
        try:
            outs = explore(mkL, 8)
        except NotInFragment as e:
            raise AnalysisError(f"{helper}: outside the modelled pandas fragment: {e}")
        for out in outs:
            n_inst += 1
            if out.kind != "return":
                rep.violation(rid, f"{helper}|raises", f"{helper} raises {out.value} on a {NL}-day decline")
                continue
            v = out.value
            got = v.attrs["items"][0] if isinstance(v, Obj) and v.cls == "Series" and v.attrs.get("items") else v
            if not is_num(got):
                raise AnalysisError(f"{helper}: result {got!r} is not a number on the {NL}-day series")
            if not got.same(ref):
                gv, rv = _num(got, smpL), _num(ref, smpL)
                if abs(gv - rv) > 1e-9 * max(1.0, abs(gv), abs(rv)):
                    rep.violation(rid, f"{helper}|long-history", f"{helper} on a steady decline of {NL} days (every daily return -0.5 %) is {gv:.6g}, its definition - the fall from the "
                                                                   f"peak since the START of the series - gives {rv:.6g}: the running peak forgets what lies more than a year back")
            rep.instance(rid, f"{helper}|N={NL}|steady-decline", {"value": str(got)[:80]})
    rep.floor(rid, 62)


def _num(r, env) -> float:
    """numeric value of a rational function with sqrt / pow atoms"""
    import math

    def atom(a):
        if isinstance(a, Op):
            args = [_num(x, env) if isinstance(x, R) else x for x in a.args]
            if a.name == "sqrt":
                return math.sqrt(args[0])
            if a.name == "pow":
                return args[0] ** args[1]
            raise ValueError(f"atom {a.name}")
        return float(env[a])

    def poly(p):
        tot = 0.0
        for m, c in p.t.items():
            term = float(c)
            for at, e in m:
                term *= atom(at) ** e
            tot += term
        return tot
    return poly(r.n) / poly(r.d)
