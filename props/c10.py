"""C10 - smart order routing and declarative exit orders."""
from __future__ import annotations

import ast
from fractions import Fraction as F

from vlib.absint import Interp, Obj, Arr, Arr2, FuncV, ClassV, explore, R, num, Unknown, NotInFragment
from vlib.loader import Repo, AnalysisError, norm
from vlib import world as W
from vlib import simloops as SL
from vlib.traces import Tracer, Cfg, make_inliner, RAISE

STRAT = "jesse/strategies/Strategy.py"
BROKER = "jesse/services/broker.py"
POSITION = "jesse/models/Position.py"
KEY = "Sandbox-BTC-USDT"
SYM = "BTC-USDT"


def A(n):
    return R.atom(n)


CUR = F(10000)
# price cases relative to the current price 10000 (threshold 0.015% = 1.5)
PRICE_CASES = {
    "equal": CUR, "near-above": CUR + 1, "near-below": CUR - 1, "boundary-above": CUR + F(3, 2), "boundary-below": CUR - F(3, 2),
    "just-above": CUR + F(151, 100), "just-below": CUR - F(151, 100), "far-above": CUR * 2, "far-below": CUR / 2,
}


def near(p):
    return abs(1 - p / CUR) <= F(15, 100000)


def build(repo, it: Interp, pos_sign: int):
    """Strategy + Broker + API + Sandbox + OrdersState from /repo's classes; exchange ledger is a sink."""
    exch = Obj("Exchange", name="exchange", attrs={"type": "futures"}, open_world=True)
    for h in ("on_order_submission", "on_order_cancellation", "on_order_execution"):
        W.bind(exch, h, (lambda hh: (lambda i, a, k: i.event("ledger", hh, a[0].name)))(h))
    orders_state = W.obj_of(repo, "jesse/store/state_orders.py", "OrdersState", "store.orders",
                            {"storage": {KEY: []}, "active_storage": {KEY: []}, "to_execute": []})
    store = Obj("StoreClass", name="store", attrs={"orders": orders_state}, open_world=True)
    it.overrides[f"{W.STORE}:store"] = store
    it.stubs[f"{W.SELECTORS}:get_exchange"] = lambda i, a, k: exch
    it.stubs[f"{W.ORDER_PY}:Order"] = W.order_ctor(repo)
    pos = W.obj_of(repo, POSITION, "Position", "position", {"qty": R.const(pos_sign) * A("P"), "previous_qty": num(0), "entry_price": A("E"),
                                                            "current_price": A("cur"), "exchange": exch, "symbol": SYM, "strategy": None})
    it.stubs[f"{W.SELECTORS}:get_position"] = lambda i, a, k: pos
    sandbox = W.obj_of(repo, "jesse/exchanges/sandbox/Sandbox.py", "Sandbox", "sandbox", {"name": "Sandbox"})
    api = W.obj_of(repo, "jesse/services/api.py", "API", "api", {"drivers": {"Sandbox": sandbox}})
    broker = W.obj_of(repo, BROKER, "Broker", "broker", {"position": pos, "symbol": SYM, "exchange": "Sandbox", "timeframe": "1m", "api": api})
    strat = W.obj_of(repo, STRAT, "Strategy", "strategy", {
        "position": pos, "broker": broker, "symbol": SYM, "exchange": "Sandbox", "timeframe": "1m", "price": A("cur"),
        "buy": None, "_buy": None, "sell": None, "_sell": None, "stop_loss": None, "_stop_loss": None, "take_profit": None, "_take_profit": None,
        "increased_count": num(0), "reduced_count": num(0), "id": "S1"})

    def fmt_order(i, a, k):
        v = a[0]
        if isinstance(v, Arr2):
            return v
        if v is None or v == []:
            return []
        rows = v if isinstance(v[0], (list, tuple)) else [v]
        return Arr2([Arr(list(r)) for r in rows])
    W.bind(strat, "_get_formatted_order", fmt_order)
    W.bind(strat, "_broadcast", lambda i, a, k: None)
    it.w = {"strat": strat, "broker": broker, "pos": pos, "orders": orders_state, "store": store}
    return it.w


def submitted(w):
    return list(w["orders"].attrs["storage"][KEY])


def describe(o):
    a = o.attrs
    return {k: repr(a.get(k)) for k in ("type", "side", "qty", "price", "reduce_only", "status", "submitted_via")}


def check_entries(repo, rep):
    rid = "C10-R1"
    rep.rule(rid, "entry routing (_submit_buy_orders / _submit_sell_orders through Broker, API, Sandbox to the Order record): "
                  "for each relation of p to the current price (equal, inside / exactly on / just outside the 0.015% band, far): "
                  "near -> MARKET at the current price, worse price -> STOP at p, better price -> LIMIT at p; quantity exactly q "
                  "on the entry side, not reduce-only")
    T = {k: W.enum_value(repo, "order_types", k) for k in ("MARKET", "LIMIT", "STOP")}
    S = {"buy": W.enum_value(repo, "sides", "BUY"), "sell": W.enum_value(repo, "sides", "SELL")}
    for side, meth, attr in (("buy", "_submit_buy_orders", "_buy"), ("sell", "_submit_sell_orders", "_sell")):
        for cname, pv in PRICE_CASES.items():
            smp = {"cur": CUR, "p": pv, "q": F(2), "P": F(0), "E": F(1)}

            def mk(dec):
                it = Interp(repo, stubs=W.base_stubs(), samples=[dict(smp)], nonneg={"cur", "p", "q", "P"}, decisions=dec)
                w = build(repo, it, 0)
                w["strat"].attrs[attr] = Arr2([Arr([A("q"), A("p")])])
                return it, lambda it: it.call(it.getattr(w["strat"], meth), [], {})
            for out in explore(mk, 16):
                key = f"{side}|{cname}"
                if near(pv):
                    exp = ("MARKET", A("cur"))
                elif (pv > CUR) == (side == "buy"):
                    exp = ("STOP", A("p"))
                else:
                    exp = ("LIMIT", A("p"))
                if out.kind != "return":
                    rep.violation(rid, f"entry|{side}|{cname}", f"{meth} raises {out.value} for a price {cname} the current price")
                    continue
                subs = submitted(out.interp.w)
                probs = []
                if len(subs) != 1:
                    probs.append(f"{len(subs)} orders submitted")
                else:
                    a = subs[0].attrs
                    if a.get("type") != T[exp[0]]:
                        probs.append(f"type {a.get('type')} (expected {exp[0]})")
                    if not (isinstance(a.get("price"), R) and a["price"].same(exp[1])):
                        probs.append(f"price {a.get('price')!r} (expected {exp[1]!r})")
                    wantq = A("q") if side == "buy" else -A("q")
                    if not (isinstance(a.get("qty"), R) and a["qty"].same(wantq)):
                        probs.append(f"qty {a.get('qty')!r} (expected {wantq!r})")
                    if a.get("side") != S[side]:
                        probs.append(f"side {a.get('side')!r}")
                    if a.get("reduce_only") is not False:
                        probs.append("reduce_only set on an entry")
                    if exp[0] == "MARKET" and subs[0] not in out.interp.w["orders"].attrs["to_execute"]:
                        probs.append("market order not queued for execution")
                if probs:
                    rep.violation(rid, f"entry|{side}|{cname}", f"{side} entry at a price {cname} the current price: " + "; ".join(probs))
                rep.instance(rid, key, {"case": key, "order": describe(subs[0]) if subs else None})
    rep.floor(rid, 18)


def check_exits(repo, rep):
    rid = "C10-R2"
    rep.rule(rid, "exit routing (Broker.reduce_position_at): for long/short x each relation of p to the current price: near -> "
                  "MARKET, profit side -> LIMIT, loss side -> STOP; always reduce-only, on the closing side, exactly |q| at p")
    T = {k: W.enum_value(repo, "order_types", k) for k in ("MARKET", "LIMIT", "STOP")}
    S = {"buy": W.enum_value(repo, "sides", "BUY"), "sell": W.enum_value(repo, "sides", "SELL")}
    for pos_sign, ptype in ((1, "long"), (-1, "short")):
        for cname, pv in PRICE_CASES.items():
            for qsign in (1, -1):
                smp = {"cur": CUR, "p": pv, "q": F(2), "P": F(3), "E": CUR}

                def mk(dec):
                    it = Interp(repo, stubs=W.base_stubs(), samples=[dict(smp)], nonneg={"cur", "p", "q", "P", "E"}, decisions=dec)
                    w = build(repo, it, pos_sign)
                    return it, lambda it: it.call(it.getattr(w["broker"], "reduce_position_at"), [R.const(qsign) * A("q"), A("p"), A("cur")], {})
                for out in explore(mk, 16):
                    key = f"{ptype}|{cname}|q{'+' if qsign > 0 else '-'}"
                    if near(pv):
                        exp = "MARKET"
                    elif (pv > CUR) == (ptype == "long"):
                        exp = "LIMIT"
                    else:
                        exp = "STOP"
                    if out.kind != "return":
                        rep.violation(rid, f"exit|{ptype}|{cname}", f"reduce_position_at raises {out.value} for a {ptype} position, price {cname}")
                        continue
                    subs = submitted(out.interp.w)
                    probs = []
                    if len(subs) != 1:
                        probs.append(f"{len(subs)} orders submitted")
                    else:
                        a = subs[0].attrs
                        side = "sell" if ptype == "long" else "buy"
                        if a.get("type") != T[exp]:
                            probs.append(f"type {a.get('type')} (expected {exp})")
                        if not (isinstance(a.get("price"), R) and a["price"].same(A("p"))):
                            probs.append(f"price {a.get('price')!r} (expected p)")
                        wantq = A("q") if side == "buy" else -A("q")
                        if not (isinstance(a.get("qty"), R) and a["qty"].same(wantq)):
                            probs.append(f"qty {a.get('qty')!r} (expected {wantq!r})")
                        if a.get("side") != S[side]:
                            probs.append(f"side {a.get('side')!r} is not the closing side")
                        if a.get("reduce_only") is not True:
                            probs.append("exit is not reduce-only")
                    if probs:
                        rep.violation(rid, f"exit|{ptype}|{cname}", f"exit of a {ptype} position at a price {cname} the current price: " + "; ".join(probs))
                    rep.instance(rid, key, {"case": key, "order": describe(subs[0]) if subs else None})
    rep.floor(rid, 36)


def check_threshold(repo, rep):
    rid = "C10-R4"
    rep.rule(rid, "is_price_near(a, b) <=> |1 - a/b| <= 0.00015 (default threshold read from the source; boundary inclusive)")
    fn = repo.func(W.HELPERS, "is_price_near")
    dflt = fn.args.defaults[-1] if fn.args.defaults else None
    if not (isinstance(dflt, ast.Constant) and F(str(dflt.value)) == F(15, 100000)):
        rep.violation(rid, "threshold|default", f"is_price_near default threshold is {norm(dflt) if dflt is not None else None}, expected 0.00015")
    rep.instance(rid, "default", {"default": norm(dflt) if dflt is not None else None})
    for cname, pv in PRICE_CASES.items():
        for swap in (False, True):
            a, b = (pv, CUR) if not swap else (CUR, pv)
            outs = W.run_function(repo, W.HELPERS, "is_price_near", lambda it: ([A("a"), A("b")], {}), samples=[{"a": a, "b": b}])
            for out in outs:
                exp = abs(1 - a / b) <= F(15, 100000)
                got = out.value if out.kind == "return" else None
                if got is not exp:
                    rep.violation(rid, f"threshold|{cname}", f"is_price_near({a}, {b}) = {got}, expected {exp}")
                rep.instance(rid, f"{cname}|{swap}", {"a": str(a), "b": str(b), "near": got})
    rep.floor(rid, 10)


def check_modifications(repo, rep):
    rid = "C10-R5"
    rep.rule(rid, "_detect_and_handle_entry_and_exit_modifications interpreted with resting tagged exits: a modified stop-loss / "
                  "take-profit declaration cancels exactly the active orders of that kind and submits one order per row of the "
                  "new declaration with that tag; the other kind is untouched; an unmodified declaration changes nothing")
    SV = {"sl": W.enum_value(repo, "order_submitted_via", "STOP_LOSS"), "tp": W.enum_value(repo, "order_submitted_via", "TAKE_PROFIT")}
    S = {"buy": W.enum_value(repo, "sides", "BUY"), "sell": W.enum_value(repo, "sides", "SELL")}
    T = {k: W.enum_value(repo, "order_types", k) for k in ("MARKET", "LIMIT", "STOP")}
    ACTIVE = W.enum_value(repo, "order_statuses", "ACTIVE")
    CANCELED = W.enum_value(repo, "order_statuses", "CANCELED")
    smp = {"cur": CUR, "P": F(3), "E": CUR, "q": F(3), "q2": F(1), "sl_old": CUR - 100, "sl_new": CUR - 50, "sl_new2": CUR - 70,
           "tp_old": CUR + 100, "tp_new": CUR + 200, "tp_new2": CUR + 300, "now": F(0), "t_created": F(0)}
    for ptype, sg in (("long", 1), ("short", -1)):
        for changed in ("sl", "tp", "none", "sl-two-rows", "tp-two-rows", "sl+read-average", "tp+read-average"):
            def mk(dec):
                it = Interp(repo, stubs=W.base_stubs(), samples=[{k: (2 * CUR - v if sg < 0 and k.startswith(("sl_", "tp_")) else v) for k, v in smp.items()}],
                            nonneg=set(smp), decisions=dec)
                w = build(repo, it, sg)
                st = w["strat"]
                exit_side = S["sell"] if sg > 0 else S["buy"]
                qx = -A("q") if sg > 0 else A("q")
                o_sl = W.make_order(repo, "OLD_SL", exit_side, T["STOP"], qx, A("sl_old"), reduce_only=True, status=ACTIVE, extra={"submitted_via": SV["sl"]})
                o_tp = W.make_order(repo, "OLD_TP", exit_side, T["LIMIT"], qx, A("tp_old"), reduce_only=True, status=ACTIVE, extra={"submitted_via": SV["tp"]})
                for o in (o_sl, o_tp):
                    w["orders"].attrs["storage"][KEY].append(o)
                    w["orders"].attrs["active_storage"][KEY].append(o)
                row = lambda *r: Arr2([Arr(list(x)) for x in r])
                st.attrs["_stop_loss"] = row((A("q"), A("sl_old")))
                st.attrs["_take_profit"] = row((A("q"), A("tp_old")))
                st.attrs["stop_loss"] = row((A("q"), A("sl_old")))
                st.attrs["take_profit"] = row((A("q"), A("tp_old")))
                read_avg = changed.endswith("+read-average")
                changed_ = changed.split("+")[0]
                if changed_ == "sl":
                    st.attrs["stop_loss"] = (A("q"), A("sl_new"))
                elif changed_ == "sl-two-rows":
                    st.attrs["stop_loss"] = [(A("q") - A("q2"), A("sl_new")), (A("q2"), A("sl_new2"))]
                elif changed_ == "tp":
                    st.attrs["take_profit"] = (A("q"), A("tp_new"))
                elif changed_ == "tp-two-rows":
                    st.attrs["take_profit"] = [(A("q") - A("q2"), A("tp_new")), (A("q2"), A("tp_new2"))]
                # entries (position is open: the entry declaration of the open side is compared too)
                ent = row((A("P"), A("E")))
                st.attrs["buy" if sg > 0 else "sell"] = ent
                st.attrs["_buy" if sg > 0 else "_sell"] = Arr2([Arr(list(r.items)) for r in ent.rows])
                def go(it):
                    if read_avg:
                        # the hook that re-declared the exit also READS the average exit price (a getter must not disturb the
                        # remembered declaration the modification test compares with)
                        try:
                            it.getattr(st, "average_stop_loss" if changed_ == "sl" else "average_take_profit")
                        except NotInFragment:
                            pass
                    return it.call(it.getattr(st, "_detect_and_handle_entry_and_exit_modifications"), [], {})
                return it, go
            for out in explore(mk, 64):
                key = f"{ptype}|{changed}"
                if out.kind != "return":
                    rep.violation(rid, f"modify|{changed}|raises", f"{key}: raises {out.value}")
                    continue
                allo = submitted(out.interp.w)
                by = {o.name: o for o in allo}
                new = [o for o in allo if o.name not in ("OLD_SL", "OLD_TP")]
                probs = []
                sl_cancelled = by["OLD_SL"].attrs["status"] == CANCELED
                tp_cancelled = by["OLD_TP"].attrs["status"] == CANCELED
                changed_ = changed.split("+")[0]
                exp_rows = {"sl": [("sl_new", A("q"))], "sl-two-rows": [("sl_new", A("q") - A("q2")), ("sl_new2", A("q2"))],
                            "tp": [("tp_new", A("q"))], "tp-two-rows": [("tp_new", A("q") - A("q2")), ("tp_new2", A("q2"))], "none": []}[changed_]
                kind = {"sl": "sl", "sl-two-rows": "sl", "tp": "tp", "tp-two-rows": "tp", "none": None}[changed_]
                if sl_cancelled != (kind == "sl"):
                    probs.append(f"old stop-loss {'cancelled' if sl_cancelled else 'left active'}")
                if tp_cancelled != (kind == "tp"):
                    probs.append(f"old take-profit {'cancelled' if tp_cancelled else 'left active'}")
                if len(new) != len(exp_rows):
                    probs.append(f"{len(new)} new orders for {len(exp_rows)} declared rows")
                else:
                    for o, (pn, qq) in zip(new, exp_rows):
                        a = o.attrs
                        if not (isinstance(a.get("price"), R) and a["price"].same(A(pn))):
                            probs.append(f"new order price {a.get('price')!r} (declared {pn})")
                        wantq = -qq if sg > 0 else qq
                        if not (isinstance(a.get("qty"), R) and a["qty"].same(wantq)):
                            probs.append(f"new order qty {a.get('qty')!r} (declared {wantq!r})")
                        if a.get("submitted_via") != SV[kind]:
                            probs.append(f"new order tagged {a.get('submitted_via')!r} (expected {SV[kind]!r})")
                        if a.get("reduce_only") is not True:
                            probs.append("new exit not reduce-only")
                # active exits now correspond one-to-one to the rows of the latest declaration
                if probs:
                    rep.violation(rid, f"modify|{changed}", f"{key}: " + "; ".join(probs))
                rep.instance(rid, key, {"case": key, "orders": {o.name: describe(o) for o in allo}})
    # a declaration that went through one pass and is then changed IN PLACE (self.stop_loss[0, 1] = x on the array the strategy
    # holds - a trailing stop): the remembered declaration must be a copy, or the change is compared with itself and the stale exit survives
    for ptype, sg in (("long", 1), ("short", -1)):
        for kind in ("sl", "tp"):
            def mk(dec, sg=sg, kind=kind):
                it = Interp(repo, stubs=W.base_stubs(), samples=[{k: (2 * CUR - v if sg < 0 and k.startswith(("sl_", "tp_")) else v) for k, v in smp.items()}],
                            nonneg=set(smp), decisions=dec)
                w = build(repo, it, sg)
                st = w["strat"]
                exit_side = S["sell"] if sg > 0 else S["buy"]
                qx = -A("q") if sg > 0 else A("q")
                o_sl = W.make_order(repo, "OLD_SL", exit_side, T["STOP"], qx, A("sl_old"), reduce_only=True, status=ACTIVE, extra={"submitted_via": SV["sl"]})
                o_tp = W.make_order(repo, "OLD_TP", exit_side, T["LIMIT"], qx, A("tp_old"), reduce_only=True, status=ACTIVE, extra={"submitted_via": SV["tp"]})
                for o in (o_sl, o_tp):
                    w["orders"].attrs["storage"][KEY].append(o)
                    w["orders"].attrs["active_storage"][KEY].append(o)
                row = lambda *r: Arr2([Arr(list(x)) for x in r])
                st.attrs["_stop_loss"] = row((A("q"), A("sl_old")))
                st.attrs["_take_profit"] = row((A("q"), A("tp_old")))
                st.attrs["stop_loss"] = row((A("q"), A("sl_old")))
                st.attrs["take_profit"] = row((A("q"), A("tp_old")))
                attr = "stop_loss" if kind == "sl" else "take_profit"
                st.attrs[attr] = (A("q"), A(f"{kind}_new"))
                ent = row((A("P"), A("E")))
                st.attrs["buy" if sg > 0 else "sell"] = ent
                st.attrs["_buy" if sg > 0 else "_sell"] = Arr2([Arr(list(r.items)) for r in ent.rows])

                def go(it):
                    it.call(it.getattr(st, "_detect_and_handle_entry_and_exit_modifications"), [], {})
                    cur = st.attrs[attr]
                    if not isinstance(cur, Arr2):
                        raise NotInFragment(f"self.{attr} is not normalised to an array after a pass: {cur!r}")
                    cur.rows[0].items[1] = A(f"{kind}_new2")          # self.stop_loss[0, 1] = x
                    it.call(it.getattr(st, "_detect_and_handle_entry_and_exit_modifications"), [], {})
                return it, go
            for out in explore(mk, 64):
                key = f"{ptype}|{kind}|in-place-after-a-pass"
                if out.kind != "return":
                    rep.violation(rid, f"modify|{kind}|in-place|raises", f"{key}: raises {out.value}")
                    continue
                allo = submitted(out.interp.w)
                mine = [o for o in allo if o.attrs.get("submitted_via") == SV[kind]]
                act = [o for o in mine if o.attrs["status"] == ACTIVE]
                if not (len(act) == 1 and isinstance(act[0].attrs.get("price"), R) and act[0].attrs["price"].same(A(f"{kind}_new2"))):
                    rep.violation(rid, f"modify|{kind}|in-place", f"{key}: the declaration was changed to {kind}_new, went through one pass, and was then changed in place to {kind}_new2; "
                                  f"active {kind} orders are now {[describe(o) for o in act]} - expected exactly one at {kind}_new2 (a stale exit survives the modification)")
                rep.instance(rid, key, {"case": key, "orders": {o.name: describe(o) for o in allo}})
    # a two-row declaration re-declared with the same quantities and the same prices PAIRED differently: every old row is gone, so both
    # resting orders are replaced (a row-insensitive comparison - columns sorted or matched independently - sees no change)
    for ptype, sg in (("long", 1), ("short", -1)):
        for kind in ("sl", "tp"):
            def mk(dec, sg=sg, kind=kind):
                it = Interp(repo, stubs=W.base_stubs(), samples=[{k: (2 * CUR - v if sg < 0 and k.startswith(("sl_", "tp_")) else v) for k, v in smp.items()}],
                            nonneg=set(smp), decisions=dec)
                w = build(repo, it, sg)
                st = w["strat"]
                exit_side = S["sell"] if sg > 0 else S["buy"]
                sgn = -1 if sg > 0 else 1
                qa, qb = A("q") - A("q2"), A("q2")
                pa, pb = A(f"{kind}_new"), A(f"{kind}_new2")
                typ_ = T["STOP"] if kind == "sl" else T["LIMIT"]
                olds = [W.make_order(repo, "OLD_A", exit_side, typ_, R.const(sgn) * qa, pa, reduce_only=True, status=ACTIVE, extra={"submitted_via": SV[kind]}),
                        W.make_order(repo, "OLD_B", exit_side, typ_, R.const(sgn) * qb, pb, reduce_only=True, status=ACTIVE, extra={"submitted_via": SV[kind]})]
                for o in olds:
                    w["orders"].attrs["storage"][KEY].append(o)
                    w["orders"].attrs["active_storage"][KEY].append(o)
                row = lambda *r: Arr2([Arr(list(x)) for x in r])
                attr = "stop_loss" if kind == "sl" else "take_profit"
                other = "take_profit" if kind == "sl" else "stop_loss"
                st.attrs["_" + attr] = row((qa, pa), (qb, pb))
                st.attrs[attr] = [(qb, pa), (qa, pb)]
                st.attrs["_" + other] = None
                st.attrs[other] = None
                ent = row((A("P"), A("E")))
                st.attrs["buy" if sg > 0 else "sell"] = ent
                st.attrs["_buy" if sg > 0 else "_sell"] = Arr2([Arr(list(r.items)) for r in ent.rows])
                return it, lambda it: it.call(it.getattr(st, "_detect_and_handle_entry_and_exit_modifications"), [], {})
            try:
                outs = explore(mk, 64)
            except NotInFragment as e:
                rep.undecided_item(f"C10-R5 {ptype} {kind} re-paired rows: {e}")
                continue
            for out in outs:
                key = f"{ptype}|{kind}|rows-re-paired"
                if out.kind != "return":
                    rep.undecided_item(f"C10-R5 {key}: raises {out.value!r}")
                    continue
                allo = submitted(out.interp.w)
                act = [o for o in allo if o.attrs.get("submitted_via") == SV[kind] and o.attrs["status"] == ACTIVE]
                got = sorted((repr(o.attrs.get("qty")), repr(o.attrs.get("price"))) for o in act)
                sgn = -1 if sg > 0 else 1
                want = sorted([(repr(R.const(sgn) * A("q2")), repr(A(f"{kind}_new"))), (repr(R.const(sgn) * (A("q") - A("q2"))), repr(A(f"{kind}_new2")))])
                if got != want:
                    rep.violation(rid, f"modify|{kind}|rows-re-paired", f"{key}: declared [(q - q2, {kind}_new), (q2, {kind}_new2)] -> [(q2, {kind}_new), (q - q2, {kind}_new2)]: the active {kind} orders "
                                  f"are now {got}, expected exactly the two new rows {want} (a stale exit survives, or a new row is missing)")
                rep.instance(rid, key, {"active": got})
    rep.floor(rid, 12)


def check_open_position_tags(repo, rep):
    rid = "C10-R5b"
    rep.rule(rid, "_on_open_position submits one exit per declared stop-loss / take-profit row with the matching tag "
                  "(so later modifications find and replace them)")
    SV = {"sl": W.enum_value(repo, "order_submitted_via", "STOP_LOSS"), "tp": W.enum_value(repo, "order_submitted_via", "TAKE_PROFIT")}
    smp = {"cur": CUR, "P": F(3), "E": CUR, "q": F(3), "sl": CUR - 100, "tp": CUR + 100, "now": F(0)}
    for ptype, sg in (("long", 1), ("short", -1)):
        def mk(dec):
            it = Interp(repo, stubs=W.base_stubs(), samples=[{k: (2 * CUR - v if sg < 0 and k in ("sl", "tp") else v) for k, v in smp.items()}],
                        nonneg=set(smp), decisions=dec)
            w = build(repo, it, sg)
            st = w["strat"]
            row = lambda *r: Arr2([Arr(list(x)) for x in r])
            st.attrs["stop_loss"] = st.attrs["_stop_loss"] = row((A("q"), A("sl")))
            st.attrs["take_profit"] = st.attrs["_take_profit"] = row((A("q"), A("tp")))
            W.bind(st, "on_open_position", lambda i, a, k: None)
            W.bind(st, "_detect_and_handle_entry_and_exit_modifications", lambda i, a, k: None)
            o = W.make_order(repo, "ENTRY", "buy", "LIMIT", A("P"), A("E"))
            return it, lambda it: it.call(it.getattr(st, "_on_open_position"), [o], {})
        for out in explore(mk, 32):
            if out.kind != "return":
                rep.violation(rid, f"open|{ptype}|raises", f"_on_open_position raises {out.value}")
                continue
            subs = submitted(out.interp.w)
            tags = sorted((o.attrs.get("submitted_via"), repr(o.attrs.get("price"))) for o in subs)
            want = sorted([(SV["sl"], "sl"), (SV["tp"], "tp")])
            if tags != want:
                rep.violation(rid, f"open|{ptype}|tags", f"_on_open_position ({ptype}) submits exits {tags}, expected {want}")
            rep.instance(rid, f"open|{ptype}", {"exits": tags})
    rep.floor(rid, 2)


def check_open_position_exits(repo, rep):
    rid = "C10-R5c"
    rep.rule(rid, "exits declared before the position opens (go_long / go_short) and submitted by _on_open_position, for long/short x "
                  "stop-loss/take-profit x every relation of the declared price to the entry (= current) price: exactly one order per "
                  "row, reduce-only, on the closing side, of the declared quantity; routed by its price relative to the current price "
                  "(near -> MARKET, profit side -> LIMIT, loss side -> STOP) at the declared price")
    T = {k: W.enum_value(repo, "order_types", k) for k in ("MARKET", "LIMIT", "STOP")}
    S = {"buy": W.enum_value(repo, "sides", "BUY"), "sell": W.enum_value(repo, "sides", "SELL")}
    for ptype, sg in (("long", 1), ("short", -1)):
        for kind in ("stop_loss", "take_profit"):
            for cname, pv in PRICE_CASES.items():
                smp = {"cur": CUR, "P": F(1), "E": CUR, "q": F(2), "x": pv, "now": F(0)}

                def mk(dec):
                    it = Interp(repo, stubs=W.base_stubs(), samples=[dict(smp)], nonneg=set(smp), decisions=dec)
                    w = build(repo, it, sg)
                    st = w["strat"]
                    st.attrs[kind] = st.attrs["_" + kind] = Arr2([Arr([A("q"), A("x")])])
                    W.bind(st, "on_open_position", lambda i, a, k: None)
                    W.bind(st, "_detect_and_handle_entry_and_exit_modifications", lambda i, a, k: None)
                    o = W.make_order(repo, "ENTRY", "buy", "LIMIT", A("P"), A("E"))
                    return it, lambda it: it.call(it.getattr(st, "_on_open_position"), [o], {})
                for out in explore(mk, 32):
                    key = f"{ptype}|{kind}|{cname}"
                    if out.kind != "return":
                        rep.violation(rid, f"open-exit|raises|{key}", f"_on_open_position raises {out.value} for a {ptype} position with {kind} {cname} the entry price")
                        continue
                    subs = submitted(out.interp.w)
                    if len(subs) != 1:
                        rep.violation(rid, f"open-exit|count|{key}", f"_on_open_position submits {len(subs)} orders for one declared {kind} row ({ptype}, {cname} the entry price)")
                        continue
                    a = subs[0].attrs
                    closing = S["sell"] if sg > 0 else S["buy"]
                    probs = []
                    if a.get("reduce_only") is not True:
                        probs.append("not reduce-only")
                    if a.get("side") != closing:
                        probs.append(f"side {a.get('side')} is not the closing side")
                    if not (isinstance(a.get("qty"), R) and abs(out.interp.numeric(a["qty"], smp)) == smp["q"]):
                        probs.append(f"quantity {a.get('qty')!r} is not the declared {smp['q']}")
                    if probs:
                        rep.violation(rid, f"open-exit|reduce-only-closing-qty|{ptype}|{kind}", f"exit declared before the open ({ptype}, {kind} {cname} the entry price): " + "; ".join(probs))
                    if near(pv):
                        et = "MARKET"
                    elif (pv > CUR) == (sg > 0):
                        et = "LIMIT"
                    else:
                        et = "STOP"
                    price_ok = isinstance(a.get("price"), R) and out.interp.numeric(a["price"], smp) == pv
                    if a.get("type") != T[et] or not price_ok:
                        tname = [k for k, v in T.items() if v == a.get("type")]
                        # the order that jesse's 'validation' substitutes: an immediate market close at the current price
                        replaced = a.get("type") == T["MARKET"] and isinstance(a.get("price"), R) and out.interp.numeric(a["price"], smp) == CUR
                        rep.violation(rid, "open-exit|market-replacement" if replaced else f"open-exit|routing|{key}",
                                      f"exit declared before the open ({ptype}, {kind} at a price {cname} the entry = current price): submitted as {tname} at "
                                      f"{a.get('price')!r}, the routing rule gives {et} at the declared price")
                    rep.instance(rid, key, {"type": repr(a.get("type")), "price": repr(a.get("price")), "reduce_only": a.get("reduce_only")})
    rep.floor(rid, 36)


def check_liquidate_after_consumed_exit(repo, rep):
    rid = "C10-R6"
    rep.rule(rid, "liquidate() always submits its exit: Strategy.liquidate followed by _detect_and_handle_entry_and_exit_modifications is "
                  "interpreted in the state after a partial exit was FILLED, when the remembered declaration of that kind happens to be "
                  "equal to what liquidate() declares (same remaining quantity, same price) and no exit order is active any more - the consumed "
                  "declaration being of the kind liquidate() uses, or of the other kind (a stop-loss filled in profit, a take-profit at a loss): "
                  "exactly one reduce-only MARKET order for the remaining quantity must be submitted (winning position -> the "
                  "take-profit declaration, losing -> the stop-loss declaration)")
    S = {"buy": W.enum_value(repo, "sides", "BUY"), "sell": W.enum_value(repo, "sides", "SELL")}
    T = {k: W.enum_value(repo, "order_types", k) for k in ("MARKET", "LIMIT", "STOP")}
    for ptype, sg in (("long", 1), ("short", -1)):
        for winning, consumed in ((True, 'same'), (False, 'same'), (True, 'other'), (False, 'other')):
            smp = {"cur": CUR, "P": F(1, 2), "E": (CUR - 10 * sg) if winning else (CUR + 10 * sg), "now": F(0), "t_created": F(0)}

            def mk(dec):
                it = Interp(repo, stubs=W.base_stubs(), samples=[dict(smp)], nonneg={"cur", "P", "E"}, decisions=dec)
                w = build(repo, it, sg)
                st, pos = w["strat"], w["pos"]
                pos.attrs["pnl"] = (A("cur") - A("E")) * A("P") * R.const(sg)
                row = lambda *r: Arr2([Arr(list(x)) for x in r])
                kind = "take_profit" if winning else "stop_loss"
                if consumed == "other":
                    # the filled partial exit was of the other kind (a stop-loss in profit / a take-profit at a loss)
                    kind = "stop_loss" if winning else "take_profit"
                # the consumed declaration: (remaining qty, current price) - its order has been executed, nothing is active
                st.attrs[kind] = row((A("P"), A("cur")))
                st.attrs["_" + kind] = row((A("P"), A("cur")))
                ent = row((A("P"), A("E")))
                st.attrs["buy" if sg > 0 else "sell"] = ent
                st.attrs["_buy" if sg > 0 else "_sell"] = Arr2([Arr(list(r.items)) for r in ent.rows])

                def thunk(it):
                    it.call(it.getattr(st, "liquidate"), [], {})
                    it.call(it.getattr(st, "_detect_and_handle_entry_and_exit_modifications"), [], {})
                return it, thunk
            for out in explore(mk, 64):
                key = f"{ptype}|{'winning' if winning else 'losing'}" + ("" if consumed == "same" else "|consumed-other-kind")
                if out.kind != "return":
                    rep.violation(rid, "liquidate|raises" + ("" if consumed == "same" else "|consumed-other-kind"),
                                  f"liquidate() after a consumed identical declaration ({key}) raises {out.value}")
                    continue
                subs = submitted(out.interp.w)
                ok = len(subs) == 1 and subs[0].attrs.get("type") == T["MARKET"] and subs[0].attrs.get("reduce_only") is True \
                    and subs[0].attrs.get("side") == (S["sell"] if sg > 0 else S["buy"]) \
                    and isinstance(subs[0].attrs.get("qty"), R) and abs(out.interp.numeric(subs[0].attrs["qty"], smp)) == smp["P"]
                if not ok:
                    rep.violation(rid, "liquidate|ignored" + ("" if consumed == "same" else "|consumed-other-kind"), f"liquidate() on a {ptype} position ({'winning' if winning else 'losing'}) whose remembered "
                                                            f"{'take-profit' if winning else 'stop-loss'} declaration equals (remaining qty, current price) submits "
                                                            f"{[describe(o) for o in subs] or 'nothing'}: the declaration is compared with the remembered one, found unmodified, and the "
                                                            f"position stays open without an exit")
                rep.instance(rid, key, {"case": key, "submitted": [describe(o) for o in subs]})
    rep.floor(rid, 8)


def check_close_and_cancel(repo, rep):
    rid = "C10-R6"
    rep.rule(rid, "nothing survives a close: _on_close_position -> _execute_cancel -> broker.cancel_all_orders -> "
                  "Sandbox.cancel_all_orders cancels every active order; _reset clears all eight declaration fields; entry "
                  "cancellation in _check is guarded by exactly entry orders present, position closed, should_cancel_entry()")
    ACTIVE = W.enum_value(repo, "order_statuses", "ACTIVE")
    CANCELED = W.enum_value(repo, "order_statuses", "CANCELED")
    smp = {"cur": CUR, "P": F(0), "E": CUR, "q": F(3), "now": F(0), "t_created": F(0), "p1": CUR + 5, "p2": CUR - 5}

    def mk(dec):
        it = Interp(repo, stubs=W.base_stubs(), samples=[dict(smp)], nonneg=set(smp), decisions=dec)
        w = build(repo, it, 0)
        st = w["strat"]
        for i, pn in enumerate(("p1", "p2")):
            o = W.make_order(repo, f"R{i}", "sell", "LIMIT", -A("q"), A(pn), reduce_only=True, status=ACTIVE)
            w["orders"].attrs["storage"][KEY].append(o)
            w["orders"].attrs["active_storage"][KEY].append(o)
        for f in ("buy", "_buy", "sell", "_sell", "stop_loss", "_stop_loss", "take_profit", "_take_profit"):
            st.attrs[f] = Arr2([Arr([A("q"), A("p1")])])
        W.bind(st, "on_cancel", lambda i, a, k: None)
        it.orders0 = list(w["orders"].attrs["storage"][KEY])
        return it, lambda it: it.call(it.getattr(st, "_execute_cancel"), [], {})
    for out in explore(mk, 32):
        if out.kind != "return":
            rep.violation(rid, "execute_cancel|raises", f"_execute_cancel raises {out.value}")
            continue
        st = out.interp.w["strat"]
        left = [o.name for o in out.interp.orders0 if o.attrs["status"] != CANCELED]
        if left:
            rep.violation(rid, "execute_cancel|survivors", f"orders {left} stay active after _execute_cancel")
        notreset = [f for f in ("buy", "_buy", "sell", "_sell", "stop_loss", "_stop_loss", "take_profit", "_take_profit") if st.attrs.get(f) is not None]
        if notreset:
            rep.violation(rid, "execute_cancel|reset", f"declaration fields {notreset} are not cleared by _execute_cancel/_reset")
        rep.instance(rid, "_execute_cancel", {"cancelled": [o.name for o in out.interp.orders0]})
    # guard of the entry cancellation in _check
    chk = repo.func(STRAT, "Strategy._check")
    guards = []
    for n in ast.walk(chk):
        if isinstance(n, ast.If) and any(isinstance(c, ast.Call) and SL.last(SL.dotted(c.func)) == "_execute_cancel" for s in n.body for c in ast.walk(s)):
            guards.append(n.test)
    if len(guards) != 1:
        raise AnalysisError("Strategy._check: guarded call of _execute_cancel not found exactly once")
    g = guards[0]
    parts = sorted(norm(v) for v in (g.values if isinstance(g, ast.BoolOp) and isinstance(g.op, ast.And) else [g]))
    want = sorted(["len(self.entry_orders)", "self.is_close", "self.should_cancel_entry()"])
    alt = sorted(["self.entry_orders", "self.is_close", "self.should_cancel_entry()"])
    alt2 = sorted(["self.entry_orders != []", "self.is_close", "self.should_cancel_entry()"])
    alt3 = sorted(["len(self.entry_orders) > 0", "self.is_close", "self.should_cancel_entry()"])
    alt4 = sorted(["len(self.entry_orders)", "self.position.is_close", "self.should_cancel_entry()"])
    if parts not in (want, alt, alt2, alt3, alt4):
        rep.violation(rid, "_check|cancel-guard", f"entry cancellation in Strategy._check is guarded by {parts}, expected entry orders present AND position closed AND should_cancel_entry()")
    rep.instance(rid, "_check|guard", {"guard": parts})
    rep.floor(rid, 2)


GETTER_MEMOS = {"metrics": {"_cached_metrics"}}          # a getter's own memo field (its key is decided by C16-R5)


def check_getters_observe_only(repo, rep):
    """what a strategy READS (self.average_take_profit, self.is_open, self.metrics ...) must not change what the next step does: the
    modification test compares the declarations with remembered copies, and a getter that re-prepares them makes a fresh declaration
    look unmodified"""
    import ast as _ast
    rid = "C10-R7"
    rep.rule(rid, "every @property of Strategy is an observer: it assigns no attribute of the strategy (except its own named memo field) and "
                  "calls no method of the strategy that - directly or through other methods - assigns one")
    cls = repo.cls(STRAT, "Strategy")
    methods = {f.name: f for f in cls.body if isinstance(f, _ast.FunctionDef)}

    def self_writes(f):
        out = set()
        me = f.args.args[0].arg if f.args.args else "self"
        for n in _ast.walk(f):
            tgts = n.targets if isinstance(n, _ast.Assign) else [n.target] if isinstance(n, (_ast.AugAssign, _ast.AnnAssign)) else []
            for t in tgts:
                for tt in (t.elts if isinstance(t, (_ast.Tuple, _ast.List)) else [t]):
                    b = tt
                    while isinstance(b, (_ast.Subscript, _ast.Attribute)) and not (isinstance(b, _ast.Attribute) and isinstance(b.value, _ast.Name) and b.value.id == me):
                        b = b.value
                    if isinstance(b, _ast.Attribute) and isinstance(b.value, _ast.Name) and b.value.id == me:
                        out.add(b.attr)
        return out

    def self_calls(f):
        me = f.args.args[0].arg if f.args.args else "self"
        return {n.func.attr for n in _ast.walk(f) if isinstance(n, _ast.Call) and isinstance(n.func, _ast.Attribute) and isinstance(n.func.value, _ast.Name)
                and n.func.value.id == me and n.func.attr in methods}
    writers = {name for name, f in methods.items() if self_writes(f)}
    changed = True
    while changed:
        changed = False
        for name, f in methods.items():
            if name not in writers and self_calls(f) & writers:
                writers.add(name)
                changed = True
    n = 0
    for name, f in methods.items():
        if not any(isinstance(d, _ast.Name) and d.id == "property" for d in f.decorator_list):
            continue
        n += 1
        w = self_writes(f) - GETTER_MEMOS.get(name, set())
        c = self_calls(f) & writers
        if w:
            rep.violation(rid, f"getter|{name}|writes", f"Strategy.{name} (a @property) assigns self.{sorted(w)[0]}: reading it changes the strategy's state")
        if c:
            rep.violation(rid, f"getter|{name}|calls", f"Strategy.{name} (a @property) calls self.{sorted(c)[0]}(), which assigns attributes of the strategy: reading it changes the strategy's state")
        rep.instance(rid, name)
    if n < 30:
        raise AnalysisError(f"C10-R7: only {n} properties of Strategy found")
    rep.floor(rid, 30)


def run(repo: Repo, rep, tier: str):
    rep.exhaustive = True
    rep.guarded(check_getters_observe_only, repo, rep)
    rep.assume("backtest mode; _get_formatted_order is modelled as list-of-rows normalisation; exchange ledger is a sink")
    rep.guarded(check_entries, repo, rep)
    rep.guarded(check_exits, repo, rep)
    rep.guarded(check_threshold, repo, rep)
    rep.guarded(check_modifications, repo, rep)
    rep.guarded(check_open_position_tags, repo, rep)
    rep.guarded(check_open_position_exits, repo, rep)
    rep.guarded(check_liquidate_after_consumed_exit, repo, rep)
    rep.guarded(check_close_and_cancel, repo, rep)
    rep.undecided_item("one-to-one correspondence of active exits to declaration rows after arbitrary interleavings of user hooks (the replace discipline is decided per call)")


CLAIM = {
    "engine": "absint",
    "technique": "abstract interpretation of the routing chain Strategy -> Broker -> API -> Sandbox -> Order (from /repo's source) for every ordinal relation of the order price to the current price incl. the 0.015% boundary",
    "text": "Static. _submit_buy_orders/_submit_sell_orders and Broker.reduce_position_at are interpreted through the repository's own "
            "Broker, API, Sandbox, Order.__init__ and OrdersState code for 9 price cases (equal, inside, exactly on, just outside the "
            "0.015% band on both sides, far) x side / position type x sign of the requested quantity: the resulting order record must "
            "have the type the property prescribes, exactly |q| on the right side at exactly p (market: current price), reduce-only "
            "for exits. is_price_near's threshold and inclusive boundary are checked. _detect_and_handle_entry_and_exit_modifications "
            "is interpreted with resting tagged exits: a changed declaration cancels exactly the old orders of that kind and submits "
            "one tagged order per new row; _on_open_position tags its exits and - for every relation of a pre-declared exit price to the "
            "entry price - submits one reduce-only closing order of the declared quantity (its replacement of wrong-side exits by an "
            "immediate market close is a recorded known finding); liquidate() after a consumed identical declaration still submits its exit; _execute_cancel cancels everything and clears all "
            "declaration fields; the entry-cancel guard in _check is the stated conjunction. A declaration that went through one pass and is then changed in place (self.stop_loss[0, 1] = x) is replaced as well. Every @property of Strategy is an observer (R7).",
    "note": "Trusted: interpreter semantics; price cases are concrete witnesses of the ordinal/boundary cells of |1-p/cur| vs 0.00015.",
}
