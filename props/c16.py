"""C16 - reported metrics are consistent with the trades and the equity series."""
from __future__ import annotations

import ast
import itertools
from fractions import Fraction as F

from vlib.absint import (Interp, Obj, Arr, BoolVec, FuncV, BoundBuiltin, explore, R, num, Unknown, NAN, NotInFragment, is_num, _b_sum)
from vlib.loader import Repo, AnalysisError, norm
from vlib import world as W
from vlib import simloops as SL

METRICS = "jesse/services/metrics.py"
MODES_UTILS = "jesse/modes/utils.py"
STRATEGY = "jesse/strategies/Strategy.py"


def A(n):
    return R.atom(n)


# ------------------------------------------------------------------ a small pandas model (only what metrics.trades uses)
def make_series(it, items):
    s = Obj("Series", name="series", attrs={"items": list(items)})

    def cmp_(i, a, k):
        op, other = a
        return BoolVec([i.compare(x, op, other) for x in s.attrs["items"]])
    s.attrs["__compare__"] = BoundBuiltin(cmp_)
    s.attrs["__len__"] = BoundBuiltin(lambda i, a, k: num(len(s.attrs["items"])))
    s.attrs["sum"] = BoundBuiltin(lambda i, a, k: _b_sum(i, [list(s.attrs["items"])], {}))

    def mean(i, a, k):
        xs = s.attrs["items"]
        return (_b_sum(i, [list(xs)], {}) / num(len(xs))) if xs else NAN

    def ext(which):
        def f(i, a, k):
            xs = list(s.attrs["items"])
            if not xs:
                return NAN
            best = xs[0]
            for x in xs[1:]:
                if i.decide_num(x, ast.Lt() if which == "min" else ast.Gt(), best):
                    best = x
            return best
        return f
    s.attrs["mean"] = BoundBuiltin(mean)
    s.attrs["min"] = BoundBuiltin(ext("min"))
    s.attrs["max"] = BoundBuiltin(ext("max"))
    s.attrs["to_numpy"] = BoundBuiltin(lambda i, a, k: Arr(list(s.attrs["items"])))
    return s


def make_df(it, rows):
    df = Obj("DataFrame", name="df", attrs={"rows": list(rows)})

    def getitem(i, a, k):
        key = a[0]
        if isinstance(key, str):
            return make_series(i, [r[key] for r in df.attrs["rows"]])
        if isinstance(key, BoolVec):
            return make_df(i, [r for r, keep in zip(df.attrs["rows"], key.items) if keep])
        raise NotInFragment("DataFrame index")
    df.attrs["__getitem__"] = BoundBuiltin(getitem)
    df.attrs["__len__"] = BoundBuiltin(lambda i, a, k: num(len(df.attrs["rows"])))
    loc = Obj("loc", name="df.loc", attrs={"__getitem__": BoundBuiltin(getitem)})
    df.attrs["loc"] = loc
    return df


def from_records(it, args, kw):
    return make_df(it, [dict(r) for r in args[0]])


PANDAS = {"pandas.DataFrame.from_records": from_records}


# ------------------------------------------------------------------ metric identities on symbolic trade lists
def streaks(signs):
    """reference: current streak values (+k winning run, -k losing run; a zero-PnL trade ends a losing run and counts as 'non-negative')"""
    cur = 0
    out = []
    for s in signs:
        if s >= 0:
            cur = cur + 1 if cur > 0 else 1
            if s == 0:
                pass
        else:
            cur = cur - 1 if cur < 0 else -1
        out.append(cur)
    return out


def ref_streaks(signs):
    # the code's definition (numpy formulation): runs of arr >= 0 count positive only for entries > 0 ...
    import math
    pos = []
    c = 0
    for s in signs:
        c += 1 if s > 0 else 0
        pos.append(c)
    neg = []
    c = 0
    for s in signs:
        c += 1 if s < 0 else 0
        neg.append(c)
    out = []
    mp = mn = 0
    for i, s in enumerate(signs):
        mp = max(mp, pos[i] if s <= 0 else 0)
        mn = max(mn, neg[i] if s >= 0 else 0)
        out.append(pos[i] - mp if s >= 0 else -neg[i] + mn)
    return out


def check_trades(repo, rep, tier):
    rid = "C16-R1"
    rep.rule(rid, "metrics.trades interpreted on symbolic trade lists (PnL, fee, holding period symbolic; every sign pattern of the PnLs "
                  "of up to K trades incl. zero-PnL trades; every long/short mix): total = winners + losers + break-even, win rate = "
                  "winners/(winners+losers), net profit = sum PnL = gross profit + gross loss, net profit % = net/starting balance*100, "
                  "longs + shorts = total and their percentages sum to 100, fee = sum of fees, largest / average win and loss, expectancy, "
                  "winning / losing / current streak follow from the PnL sign sequence")
    K = 3 if tier == "quick" else 4
    fn = repo.func(METRICS, "trades")
    mod = repo.module(METRICS)
    n_cases = 0
    for k in range(1, K + 1):
        for signs in itertools.product((-1, 0, 1), repeat=k):
            types = ["long" if (i % 2 == 0) else "short" for i in range(k)]
            if k == 2 and signs == (1, 1):
                types = ["long", "long"]
            samples = []
            for scale in (F(1), F(3)):
                s = {"SB": F(1000), "CB": F(1100)}
                for i, sg in enumerate(signs):
                    s[f"p{i}"] = F(sg) * (F(i + 2) * scale + F(1, 3) * i)
                    s[f"f{i}"] = F(1, 10) * (i + 1)
                    s[f"h{i}"] = F(60 * (i + 1))
                samples.append(s)

            def mk(dec):
                it = Interp(repo, stubs=W.base_stubs(), samples=[dict(x) for x in samples], decisions=dec, ext_stubs=PANDAS)
                exch = Obj("Exchange", name="exchange", attrs={"starting_assets": {"USDT": A("SB")}, "assets": {"USDT": A("CB")}})
                exchanges = Obj("ExchangesState", name="store.exchanges", attrs={"storage": {"Sandbox": exch}})
                app = Obj("AppState", name="store.app", attrs={"starting_time": num(1_600_000_000_000), "total_open_trades": num(0), "total_open_pl": num(0)})
                it.overrides[f"{W.STORE}:store"] = Obj("StoreClass", name="store", attrs={"exchanges": exchanges, "app": app}, open_world=True)
                it.stubs[f"{W.HELPERS}:app_currency"] = lambda i, a, kk: "USDT"
                # the ratio helpers work on the pandas return series (not modelled): opaque one-element series
                for h in ("max_drawdown", "cagr", "sharpe_ratio", "calmar_ratio", "sortino_ratio", "omega_ratio", "serenity_index"):
                    it.stubs[f"{METRICS}:{h}"] = lambda i, a, kk: Obj("Series", name="ratio", attrs={"iloc": [NAN]})
                trades = []
                for i in range(k):
                    p = A(f"p{i}") if signs[i] != 0 else num(0)
                    trades.append(Obj("ClosedTrade", name=f"T{i}", attrs={"to_dict": {"PNL": p, "type": types[i], "fee": A(f"f{i}"), "holding_period": A(f"h{i}")},
                                                                            "closed_at": num(1_600_000_000_000 + 60_000 * (i + 1)), "opened_at": num(1_600_000_000_000 + 60_000 * i)}))
                return it, lambda it: it.call(FuncV(fn, mod, qual="trades"), [trades, [A("SB"), A("CB")]], {})
            try:
                outs = explore(mk, 64)
            except NotInFragment as e:
                raise AnalysisError(f"metrics.trades left the analysable fragment: {e}")
            n_cases += 1
            pn = [A(f"p{i}") if signs[i] != 0 else num(0) for i in range(k)]
            W_ = [i for i in range(k) if signs[i] > 0]
            L_ = [i for i in range(k) if signs[i] < 0]
            tot = lambda idx: sum((pn[i] for i in idx), num(0))
            longs = sum(1 for t in types if t == "long")
            shorts = k - longs
            ref_st = ref_streaks(signs)
            exp = {
                "total": num(k), "total_winning_trades": num(len(W_)), "total_losing_trades": num(len(L_)),
                "win_rate": (num(len(W_)) / num(len(W_) + len(L_))) if W_ else num(0),
                "net_profit": tot(range(k)), "gross_profit": tot(W_), "gross_loss": tot(L_),
                "net_profit_percentage": tot(range(k)) / A("SB") * num(100),
                "longs_count": num(longs), "shorts_count": num(shorts),
                "longs_percentage": num(F(longs, k) * 100), "shorts_percentage": num(100 - F(longs, k) * 100),
                "fee": sum((A(f"f{i}") for i in range(k)), num(0)),
                "starting_balance": A("SB"), "finishing_balance": A("CB"),
                "winning_streak": num(max(max(ref_st), 0)), "losing_streak": num(abs(min(ref_st)) if min(ref_st) <= 0 else 0),
                "current_streak": num(ref_st[-1]),
            }
            if W_:
                exp["average_win"] = tot(W_) / num(len(W_))
            if L_:
                exp["average_loss"] = -(tot(L_) / num(len(L_)))
            case = "PnL signs " + "".join("+" if s > 0 else "-" if s < 0 else "0" for s in signs)
            for out in outs:
                if out.kind != "return" or not isinstance(out.value, dict):
                    rep.violation(rid, "trades|raises", f"metrics.trades fails on {case}: {out.value!r}")
                    continue
                s = out.interp.samples[0]
                m = out.value
                for key, want in exp.items():
                    got = m.get(key)
                    if not (isinstance(got, R) and got.same(want)):
                        rep.violation(rid, f"trades|{key}", f"metrics.trades on {case} ({types}): '{key}' = {got!r}, the identity gives {want!r}")
                # largest win / loss and expectancy numerically at the witness (max/min are chosen per cell)
                num_ = lambda r: out.interp.numeric(r, s)
                if W_:
                    lw = m.get("largest_winning_trade")
                    if not (isinstance(lw, R) and num_(lw) == max(num_(pn[i]) for i in W_)):
                        rep.violation(rid, "trades|largest_winning_trade", f"metrics.trades on {case}: largest_winning_trade = {lw!r}")
                if L_:
                    ll = m.get("largest_losing_trade")
                    if not (isinstance(ll, R) and num_(ll) == min(num_(pn[i]) for i in L_)):
                        rep.violation(rid, "trades|largest_losing_trade", f"metrics.trades on {case}: largest_losing_trade = {ll!r}")
                if W_ and L_:
                    wr = F(len(W_), len(W_) + len(L_))
                    e_want = exp["average_win"] * num(wr) - exp["average_loss"] * num(1 - wr)
                    e_got = m.get("expectancy")
                    if not (isinstance(e_got, R) and e_got.same(e_want)):
                        rep.violation(rid, "trades|expectancy", f"metrics.trades on {case}: expectancy = {e_got!r}, expected {e_want!r}")
                # partition identities
                rep.instance(rid, case + "|" + "".join(t[0] for t in types), {"case": case, "types": types, "net_profit": repr(m.get("net_profit")), "win_rate": repr(m.get("win_rate")),
                                                                              "streaks": [repr(m.get(x)) for x in ("winning_streak", "losing_streak", "current_streak")]} if n_cases % 9 == 1 else None)
    # empty trade list
    rep.floor(rid, 30)


def check_streaks_chronological(repo, rep):
    rid = "C16-R1b"
    rep.rule(rid, "streaks follow from the PnL sequence in the order in which the trades were CLOSED: metrics.trades interpreted on a list "
                  "whose storage order differs from its closed_at order (the fast simulator with several routes appends the trades of "
                  "one symbol's whole chunk before the next symbol's) must report the streaks of the chronological sequence")
    fn = repo.func(METRICS, "trades")
    mod = repo.module(METRICS)
    # storage order: win (closed 3rd), loss (closed 1st), loss (closed 2nd)  -> chronological: loss, loss, win
    spec = [("p0", 1, 3), ("p1", -1, 1), ("p2", -1, 2)]
    smp = {"SB": F(1000), "CB": F(1100), "p0": F(5), "p1": F(-2), "p2": F(-3), "f0": F(1, 10), "f1": F(1, 10), "f2": F(1, 10), "h0": F(60), "h1": F(60), "h2": F(60)}

    def mk(dec):
        it = Interp(repo, stubs=W.base_stubs(), samples=[dict(smp)], decisions=dec, ext_stubs=PANDAS)
        exch = Obj("Exchange", name="exchange", attrs={"starting_assets": {"USDT": A("SB")}, "assets": {"USDT": A("CB")}})
        exchanges = Obj("ExchangesState", name="store.exchanges", attrs={"storage": {"Sandbox": exch}})
        app = Obj("AppState", name="store.app", attrs={"starting_time": num(1_600_000_000_000), "total_open_trades": num(0), "total_open_pl": num(0)})
        it.overrides[f"{W.STORE}:store"] = Obj("StoreClass", name="store", attrs={"exchanges": exchanges, "app": app}, open_world=True)
        it.stubs[f"{W.HELPERS}:app_currency"] = lambda i, a, kk: "USDT"
        for h in ("max_drawdown", "cagr", "sharpe_ratio", "calmar_ratio", "sortino_ratio", "omega_ratio", "serenity_index"):
            it.stubs[f"{METRICS}:{h}"] = lambda i, a, kk: Obj("Series", name="ratio", attrs={"iloc": [NAN]})
        trades = [Obj("ClosedTrade", name=f"T{i}", attrs={"to_dict": {"PNL": A(pn), "type": "long", "fee": A(f"f{i}"), "holding_period": A(f"h{i}")},
                                                          "closed_at": num(1_600_000_000_000 + 60_000 * order), "opened_at": num(1_600_000_000_000)})
                  for i, (pn, sg, order) in enumerate(spec)]
        return it, lambda it: it.call(FuncV(fn, mod, qual="trades"), [trades, [A("SB"), A("CB")]], {})
    try:
        outs = explore(mk, 64)
    except NotInFragment as e:
        raise AnalysisError(f"metrics.trades left the analysable fragment: {e}")
    for out in outs:
        if out.kind != "return" or not isinstance(out.value, dict):
            rep.violation(rid, "streaks|raises", f"metrics.trades fails on an out-of-order trade list: {out.value!r}")
            continue
        m = out.value
        got = tuple(int(m[k].const_value()) if isinstance(m.get(k), R) and m[k].is_const() else None for k in ("winning_streak", "losing_streak", "current_streak"))
        want = (1, 2, 1)          # chronological PnL signs: -, -, +
        if got != want:
            rep.violation(rid, "streaks|storage-order", f"trades stored as (win closed 3rd, loss closed 1st, loss closed 2nd): (winning_streak, losing_streak, current_streak) = {got}, "
                                                        f"the chronological PnL sequence -, -, + gives {want}")
        rep.instance(rid, "out-of-order", {"streaks": got})
    rep.floor(rid, 1)


def check_strategy_metrics_memo(repo, rep):
    rid = "C16-R5"
    rep.rule(rid, "the metrics a running strategy reads (Strategy.metrics) are memoised: the memo key must cover everything the value is "
                  "computed from - each argument of the memoised metrics.trades(...) call must occur in the key expression (resolved "
                  "through local assignments) - or a later read serves the metrics of an earlier moment")
    fn = repo.func(STRATEGY, "Strategy.metrics")
    calls = [c for c in ast.walk(fn) if isinstance(c, ast.Call) and norm(c.func).endswith("metrics.trades")]
    stores = [n for n in ast.walk(fn) if isinstance(n, ast.Assign) and isinstance(n.targets[0], ast.Subscript) and "_cached_metrics" in norm(n.targets[0].value)]
    if not calls:
        raise AnalysisError("Strategy.metrics: call of metrics.trades not found")
    if not stores:
        rep.instance(rid, "no-memo", {"memoised": False})
        rep.floor(rid, 1)
        return
    key = stores[0].targets[0].slice
    local = {n.targets[0].id: n.value for n in ast.walk(fn) if isinstance(n, ast.Assign) and isinstance(n.targets[0], ast.Name)}
    seen = 0
    while isinstance(key, ast.Name) and key.id in local and seen < 4:
        key = local[key.id]
        seen += 1
    ktxt = norm(key)
    missing = [norm(a) for a in calls[0].args if norm(a) not in ktxt]
    if missing:
        rep.violation(rid, "strategy-metrics|memo-key", f"Strategy.metrics memoises metrics.trades({', '.join(norm(a) for a in calls[0].args)}) under the key `{ktxt}`, which does not depend on "
                                                        f"{missing}: once computed, the value is served again although those inputs have changed")
    rep.instance(rid, "memo-key", {"key": ktxt, "arguments": [norm(a) for a in calls[0].args]})
    rep.floor(rid, 1)


def check_ratio_constants(repo, rep):
    rid = "C16-R2"
    rep.rule(rid, "365-day year: the ratio helpers default to periods=365, every ratio call in trades() that passes periods passes 365, and "
                  "cagr / calmar divide the day span by 365")
    for name in ("sharpe_ratio", "sortino_ratio", "cagr", "omega_ratio"):
        fn = repo.func(METRICS, name)
        args = [a.arg for a in fn.args.args]
        if "periods" in args:
            d = fn.args.defaults[args.index("periods") - (len(args) - len(fn.args.defaults))]
            if not (isinstance(d, ast.Constant) and d.value == 365):
                rep.violation(rid, f"{name}|periods-default", f"metrics.{name}: default periods is {norm(d)}, expected 365")
        rep.instance(rid, f"{name}|default")
    tr = repo.func(METRICS, "trades")
    for c in ast.walk(tr):
        if isinstance(c, ast.Call) and norm(c.func).split(".")[-1] in ("sharpe_ratio", "sortino_ratio", "cagr", "omega_ratio", "calmar_ratio", "max_drawdown"):
            for kw in c.keywords:
                if kw.arg == "periods" and not (isinstance(kw.value, ast.Constant) and kw.value.value == 365):
                    rep.violation(rid, f"trades|periods|{norm(c.func)}", f"metrics.trades calls {norm(c.func)} with periods={norm(kw.value)}")
                if kw.arg == "periods":
                    rep.instance(rid, f"trades|{norm(c.func)}")
    for name in ("cagr", "calmar_ratio"):
        fn = repo.func(METRICS, name)
        divs = [n for n in ast.walk(fn) if isinstance(n, ast.BinOp) and isinstance(n.op, ast.Div) and "days" in norm(n.left)]
        if not divs or not all(isinstance(d.right, ast.Constant) and d.right.value == 365 for d in divs):
            rep.violation(rid, f"{name}|year-length", f"metrics.{name}: the day span is not divided by 365: {[norm(d) for d in divs]}")
        rep.instance(rid, f"{name}|year")
    rep.floor(rid, 6)


def check_equity_sampling(repo, rep):
    rid = "C16-R3"
    rep.rule(rid, "equity sampling protocol in both simulators: one initial sample before the loop, daily samples after the step's strategy "
                  "executions and market-order flush (their number and timing: C16-R3b), one final sample after all routes were terminated and market orders flushed; "
                  "futures equity = wallet + sum of open positions' PnL, spot equity = cash + value of all positions + reserved value of the active "
                  "entry orders of every route (symbolic, Strategy.portfolio_value interpreted)")
    for sim in ("_step_simulator", "_skip_simulator"):
        view = SL.sim_view(repo, sim, {"save_daily_portfolio_balance", "_terminate", "execute_pending_market_orders", "_execute"},
                           guards=lambda t: "daily" if "1440" in norm(t) else None)
        for evs in view["pre"]:
            n = [e for e in evs if e[0] == "call" and e[1] == "save_daily_portfolio_balance"]
            ok = len(n) == 1 and any(kw.arg == "is_initial" and isinstance(kw.value, ast.Constant) and kw.value.value is True for kw in n[0][2].node.keywords)
            if not ok:
                rep.violation(rid, f"{sim}|initial", f"{sim}: not exactly one initial equity sample (is_initial=True) before the loop")
            rep.instance(rid, f"{sim}|pre")
        for evs in view["iters"]:
            calls = [e for e in evs if e[0] == "call" and e[1] == "save_daily_portfolio_balance"]
            g = [e for e in evs if e[0] == "guard" and e[1] == "daily"]
            taken = any(x[2] for x in g)
            # (how many samples an iteration takes, and when, is decided by interpreting the loops: C16-R3b)
            if calls:
                last_exec = max([i for i, e in enumerate(evs) if e[0] == "call" and e[1] in ("_execute", "execute_pending_market_orders")], default=-1)
                if evs.index(calls[0]) < last_exec:
                    rep.violation(rid, f"{sim}|daily-order", f"{sim}: the daily equity sample is taken before the step's strategy executions / market-order flush")
            rep.instance(rid, f"{sim}|iter|{len(calls)}|{taken}")
        # (when the samples are taken is decided by interpreting the time loops: C16-R3b)
        for evs in view["post"]:
            names = [e[1] for e in evs if e[0] == "call"]
            if "_terminate" in names:
                lt = len(names) - 1 - names[::-1].index("_terminate")
                after = names[lt + 1:]
                if after.count("save_daily_portfolio_balance") != 1 or "execute_pending_market_orders" not in after or \
                        after.index("execute_pending_market_orders") > after.index("save_daily_portfolio_balance"):
                    rep.violation(rid, f"{sim}|final", f"{sim}: the final equity sample is not taken exactly once after the last _terminate() and its market-order flush: {names}")
            elif names.count("save_daily_portfolio_balance") != 1:
                rep.violation(rid, f"{sim}|final", f"{sim}: {names.count('save_daily_portfolio_balance')} final equity samples")
            rep.instance(rid, f"{sim}|post|{' '.join(names)}")
    # futures equity formula
    def mk(dec):
        it = Interp(repo, stubs=W.base_stubs(), samples=[{"Wt": F(1000), "pnl1": F(5), "pnl3": F(-3), "lev": F(3)}], decisions=dec)
        ex = Obj("FuturesExchange", name="exchange", attrs={"type": "futures", "assets": {"USDT": A("Wt")}})
        p1 = Obj("Position", name="p1", attrs={"is_open": True, "pnl": A("pnl1")})
        p2 = Obj("Position", name="p2", attrs={"is_open": False, "pnl": num(0)})
        p3 = Obj("Position", name="p3", attrs={"is_open": True, "pnl": A("pnl3")})
        # every position knows its strategy; Strategy.portfolio_value is the repository's own property (leverage is a symbol)
        strat = W.obj_of(repo, STRATEGY, "Strategy", "strategy", {"exchange_type": "futures", "is_spot_trading": False, "is_futures_trading": True,
                                                                   "all_positions": {"a": p1, "b": p2, "c": p3}, "leverage": A("lev"), "balance": A("Wt")})
        for p_ in (p1, p2, p3):
            p_.attrs["strategy"] = strat
        app = Obj("AppState", name="store.app", attrs={"daily_balance": []})
        store = Obj("StoreClass", name="store", attrs={"exchanges": Obj("ExchangesState", name="ex", attrs={"storage": {"Sandbox": ex}}),
                                                       "positions": Obj("PositionsState", name="pos", attrs={"storage": {"a": p1, "b": p2, "c": p3}}), "app": app}, open_world=True)
        it.overrides[f"{W.STORE}:store"] = store
        it.stubs[f"{W.HELPERS}:app_currency"] = lambda i, a, k: "USDT"
        it.app = app
        fn = repo.func(MODES_UTILS, "save_daily_portfolio_balance")
        return it, lambda it: it.call(FuncV(fn, repo.module(MODES_UTILS), qual="save_daily_portfolio_balance"), [], {})
    for out in explore(mk, 16):
        db = out.interp.app.attrs["daily_balance"]
        want = A("Wt") + A("pnl1") + A("pnl3")
        if out.kind != "return" or len(db) != 1 or not (isinstance(db[0], R) and db[0].same(want)):
            rep.violation(rid, "futures-equity", f"futures equity sample is {db!r}, expected wallet + PnL of the open positions = {want!r} (independent of the leverage)")
        rep.instance(rid, "futures-equity", {"sample": repr(db)})

    # spot equity: cash + value of every position + value of the resting entry orders of EVERY route (Strategy.portfolio_value interpreted)
    def mk_spot(dec):
        it = Interp(repo, stubs=W.base_stubs(), samples=[{"Wt": F(1000), "v1": F(50), "v2": F(70), "ov1": F(20), "ov2": F(30), "ov3": F(40)}], decisions=dec)
        ex = Obj("SpotExchange", name="exchange", attrs={"type": "spot", "assets": {"USDT": A("Wt")}})
        p1 = Obj("Position", name="p1", attrs={"is_open": True, "value": A("v1"), "pnl": A("pnl1")})
        p2 = Obj("Position", name="p2", attrs={"is_open": True, "value": A("v2"), "pnl": A("pnl2")})
        o1 = Obj("Order", name="o1", attrs={"is_active": True, "value": A("ov1")})
        o2 = Obj("Order", name="o2", attrs={"is_active": False, "value": A("ov2")})
        o3 = Obj("Order", name="o3", attrs={"is_active": True, "value": A("ov3")})
        routes = []
        strats = []
        for nm, pos, eo, sym in (("s1", p1, [o1, o2], "BTC-USDT"), ("s2", p2, [o3], "ETH-USDT")):
            st = W.obj_of(repo, STRATEGY, "Strategy", nm, {"exchange_type": "spot", "is_spot_trading": True, "is_futures_trading": False, "symbol": sym,
                                                           "position": pos, "leverage": num(1), "balance": A("Wt"), "entry_orders": eo, "routes": routes})
            pos.attrs["strategy"] = st
            strats.append(st)
            routes.append(Obj("Route", name="route-" + nm, attrs={"symbol": sym, "strategy": st, "exchange": "Sandbox"}))
        app = Obj("AppState", name="store.app", attrs={"daily_balance": []})
        store = Obj("StoreClass", name="store", attrs={"exchanges": Obj("ExchangesState", name="ex", attrs={"storage": {"Sandbox": ex}}),
                                                       "positions": Obj("PositionsState", name="pos", attrs={"storage": {"a": p1, "b": p2}}), "app": app}, open_world=True)
        it.overrides[f"{W.STORE}:store"] = store
        it.stubs[f"{W.HELPERS}:app_currency"] = lambda i, a, k: "USDT"
        it.app = app
        fn = repo.func(MODES_UTILS, "save_daily_portfolio_balance")
        return it, lambda it: it.call(FuncV(fn, repo.module(MODES_UTILS), qual="save_daily_portfolio_balance"), [], {})
    for out in explore(mk_spot, 16):
        db = out.interp.app.attrs["daily_balance"]
        want = A("Wt") + A("v1") + A("v2") + A("ov1") + A("ov3")
        if out.kind != "return" or len(db) != 1 or not (isinstance(db[0], R) and db[0].same(want)):
            rep.violation(rid, "spot-equity", f"spot equity sample (two routes sharing the wallet) is {db!r}, expected cash + value of all positions + value of the active entry orders of every route = {want!r}")
        rep.instance(rid, "spot-equity", {"sample": repr(db)})
    rep.floor(rid, 8)


def check_equity_sample_times(repo, rep, tier="quick"):
    rid = "C16-R3b"
    rep.rule(rid, "one equity sample per simulated day: both simulator functions are interpreted whole (engine E10, long light-weight "
                  "sessions of one symbol; matcher, strategies, order store and the sampler recorded) for concrete session lengths and "
                  "chunk lengths: the samples taken inside the session correspond one to one to the day boundaries b = 1440k, "
                  "0 < b < length; the sample of boundary b is taken after the minute b - 1 has been matched, the strategies of that "
                  "minute have run and the market orders are flushed - exactly at b when the chunk length divides a day (the two "
                  "simulators then sample at the same instant), otherwise at the end of the chunk that contains b")
    from vlib import minisession as MS
    from props.sessions import minutes_of
    configs = {"_step_simulator": [(2880, "15m"), (2890, "15m")] + ([(4330, "15m")] if tier == "thorough" else []),
               "_skip_simulator": [(2880, "5m"), (4330, "5m"), (4330, "45m"), (2880, "12h"), (2880, "1D"), (4320, "1D"), (5770, "1D"), (12960, "3D"), (20170, "1W")]}
    for sim, cfgs in configs.items():
        for length, tf in cfgs:
            ses = MS.run(repo, sim, symbols=("AAA-USDT",), minutes=length, timeframe=tf, light=True)
            evs = ses.events
            # the length of a step is what the simulator really hands to the matcher at once (not assumed from the timeframe)
            step = max([e[3] for e in evs if e[0] == "match"] or [1])
            raised = [e for e in evs if e[0] == "raise"]
            if raised:
                rep.violation(rid, f"{sim}|raises", f"{sim} with a session of {length} minutes and a step of {step} raises {raised[0][1]}")
                rep.instance(rid, f"{sim}|{length}|{step}")
                continue
            samples, end, flushed = [], None, True
            first_match = next((i for i, e in enumerate(evs) if e[0] == "match"), len(evs))
            initial = [e for e in evs[:first_match] if e[0] == "sample"]
            last_sample = max((i for i, e in enumerate(evs) if e[0] == "sample"), default=None)
            order_bad = None
            for i, e in enumerate(evs[first_match:], first_match):
                if e[0] == "match":
                    end, flushed = e[2] + e[3], False
                elif e[0] == "flush":
                    flushed = True
                elif e[0] == "sample" and i != last_sample:
                    samples.append(end)
                    if not flushed:
                        order_bad = f"the sample after minute {end} is taken before the market orders of that step are flushed"
            bounds = list(range(1440, length, 1440))
            bad = kind = None
            if initial != [("sample", True)] or last_sample is None or evs[last_sample] != ("sample", False) or any(e[0] in ("match", "exec", "flush", "terminate") for e in evs[last_sample:]):
                bad, kind = f"the session does not start with exactly one initial sample and end with the finishing sample (before the first candle: {initial}; last events: {[e for e in evs[-4:]]})", "initial-final"
            elif order_bad:
                bad, kind = order_bad, "daily-order"
            elif len(samples) != len(bounds):
                bad, kind = f"{len(samples)} samples inside the loop for {len(bounds)} completed days", "daily-count"
            else:
                for bnd, t in zip(bounds, samples):
                    if 1440 % step == 0 and t != bnd:
                        bad, kind = f"the sample of the day ending at minute {bnd} is taken at minute {t}, not at the day boundary (the two simulators must sample at the same instant)", "daily-time"
                        break
                    if t is None or not (bnd <= t < bnd + 1440):
                        bad = f"the sample of the day ending at minute {bnd} is taken at minute {t}"
                        # a step longer than a day cannot observe the equity at the day boundaries inside it
                        kind = "daily-time|step-longer-than-a-day" if step > 1440 and t is not None and bnd <= t < bnd + step else "daily-time"
                        break
            if bad:
                rep.violation(rid, f"{sim}|{kind}", f"{sim} with a session of {length} minutes and a step of {step}: {bad} (sample minutes {samples[:6]}{'...' if len(samples) > 6 else ''})")
            rep.instance(rid, f"{sim}|{length}|{step}", {"length": length, "step": step, "sample_minutes": samples[:8]})
    rep.floor(rid, 10)


def check_metrics_pure(repo, rep):
    """'for every list of closed trades and daily balances the reported metrics satisfy ...': the metrics are a function of the two
    lists handed in (and the session's start), not of an earlier computation"""
    from vlib.purity import Purity
    rid = "C16-R6"
    rep.rule(rid, "effect analysis of jesse/services/metrics.py: no function of the module stores into module-level state (a memo of the "
                  "returns frame, of a ratio) unless the key holds every used parameter whole - the number of balances or the session "
                  "start do not identify an equity series")
    mod = repo.module("jesse/services/metrics.py")
    P = Purity(repo)
    n = 0
    for f in ast.walk(mod.tree):
        if isinstance(f, ast.FunctionDef):
            P._globals(mod, f)
            n += 1
            rep.instance(rid, f.name)
    seen = set()
    for f in P.findings:
        if f.key() in seen or (f.rel, f.func) == ("jesse/helpers.py", "get_config"):
            continue
        seen.add(f.key())
        rep.violation(rid, f"{f.rule}|{f.rel}:{f.func}", f"{f.rel}: {f.func}: {f.what} - the reported metrics then depend on an earlier computation, not only on the trades and balances handed in")
    if n < 8:
        raise AnalysisError(f"C16-R6: only {n} functions found in the metrics module")
    rep.floor(rid, 8)


def run(repo: Repo, rep, tier: str):
    rep.exhaustive = True
    rep.guarded(check_metrics_pure, repo, rep)
    rep.assume("pandas is modelled for the operations metrics.trades uses (from_records, column selection, boolean row selection, len/sum/mean/min/max/to_numpy)")
    rep.guarded(check_trades, repo, rep, tier)
    rep.guarded(check_streaks_chronological, repo, rep)
    rep.guarded(check_strategy_metrics_memo, repo, rep)
    rep.guarded(check_ratio_constants, repo, rep)
    rep.guarded(check_equity_sampling, repo, rep)
    rep.guarded(check_equity_sample_times, repo, rep, tier)
    from props.c16_ratios import check_ratio_formulas
    rep.guarded(check_ratio_formulas, repo, rep, tier)
    rep.undecided_item("ratio helpers on return series longer than 3 (4 in the thorough tier) days and their degenerate conventions (zero deviation, no losing day)")
    rep.undecided_item("spot equity: that Position.value / Order.value are the market value of the held base / the reserved quote (the sum over routes is decided)")


CLAIM = {
    "engine": "absint+traces",
    "technique": "abstract interpretation of metrics.trades on symbolic trade lists over all PnL sign patterns (pandas operations modelled), trace rules for the equity sampling protocol, constant checks for the 365-day year",
    "text": "Static. metrics.trades is interpreted from source on symbolic trade lists (PnL / fee / holding period symbolic) for every sign "
            "pattern (win / loss / break-even) of up to 3 (thorough: 4) trades and long/short mixes: each reported count, rate, sum, "
            "percentage, average, extreme, expectancy and streak must equal its defining identity over the PnL sequence - symbolically "
            "where the metric is a sum / ratio, at witnesses for max / min. The equity series protocol (initial sample, daily guard "
            "`i != 0 and i % 1440 == 0`, final sample after terminate + flush) is decided by trace rules in both simulators and the "
            "futures equity sample is wallet + open PnL symbolically (leverage-free); the spot sample, with Strategy.portfolio_value "
            "interpreted for two routes sharing the wallet, is cash + value of all positions + reserved value of the active entry "
            "orders of every route. Ratio helpers default to a 365-day year, and max_drawdown / sharpe / sortino / cagr / calmar / omega are interpreted "
            "on the series [NaN, r1..rN] that metrics.trades builds (pandas Series modelled) for every loss / flat / gain pattern of "
            "2-3 returns and must equal their textbook definitions (starting balance a peak, N returns in every denominator). The "
            "daily sample count and timing are decided by interpreting both time loops for concrete lengths / steps (incl. steps of "
            "one and several days). Streaks follow the chronological (closed_at) order of the trades, not their storage order; the memo of "
            "Strategy.metrics is keyed on everything its value is computed from. Not decided: longer return series, degenerate conventions. max_drawdown / calmar are also interpreted on a 400-day decline (the peak since the start, however long ago). Effect analysis of the metrics module (R6: no memo keyed by a projection of the equity series).",
    "note": "Trusted: pandas/numpy model for the used operations; interpreter semantics.",
}
