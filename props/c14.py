"""C14 - sequential and single-value indicator results agree."""
from __future__ import annotations

import ast
import os
from concurrent.futures import ProcessPoolExecutor

from vlib.loader import Repo, AnalysisError
from vlib import indic_run as IR
from vlib.indic_vals import NA, D, mk, hid, eval_dag, Undecided
from props.c13 import variants, EXEMPT as C13_EXEMPT

EXEMPT = {"minmax": "documented: non-sequential flags are those of the entry order+1 from the end"}
# long-input clause: computations whose older-candle terms cancel exactly (confirmed numerically: 1e-13 relative)
# (an earlier version exempted vwmacd from the long-input clause because with the DEFAULT periods the candles older than the window
#  cancel numerically; with slow_period + signal_period - 1 > warm-up they do not - the exemption was wrong and is gone)
WINDOW_EXEMPT = {}
N = 60
N2 = 130
W = 120
NL = 135


def last(v):
    if isinstance(v, NA):
        return v.data[-1] if v.ndim == 1 and v.data else None
    if isinstance(v, list):
        return v[-1] if v else None
    return v


def same(a, b):
    if isinstance(a, D) and isinstance(b, D):
        return a.h == b.h
    if isinstance(a, D) or isinstance(b, D):
        return False
    if a is None or b is None:
        return a is b
    try:
        return a == b or (a != a and b != b)
    except Exception:
        return False


def none_for_nan(seq_last, single):
    """the accepted idiom `None if np.isnan(x[-1]) else x[-1]`: equal whenever the value is a number"""
    if isinstance(seq_last, D) and isinstance(single, D):
        return single.h == mk("phi_none", mk("isnan", seq_last), seq_last).h
    if single is None and isinstance(seq_last, float) and seq_last != seq_last:
        return True
    return False


def length_of(v):
    if isinstance(v, NA) and v.ndim == 1:
        return len(v.data)
    if isinstance(v, list):
        return len(v)
    return None


def _analyse_one_unlimited(args):
    root, fname, rel, tier = args
    repo = Repo(root)
    fn = repo.func(rel, fname)
    out = []
    for vname, over in variants(fn, tier):
        n = N
        rs = IR.run_indicator(repo, rel, fn, n, True, overrides=over)
        rn = IR.run_indicator(repo, rel, fn, n, False, overrides=over)
        if rs[0] != "ok" or rn[0] != "ok":
            n = N2
            rs = IR.run_indicator(repo, rel, fn, n, True, overrides=over)
            rn = IR.run_indicator(repo, rel, fn, n, False, overrides=over)
        if rs[0] != "ok" or rn[0] != "ok":
            out.append((vname, over, "undecided", f"sequential: {rs[0]} {str(rs[1])[:50]}; single: {rn[0]} {str(rn[1])[:50]}", []))
            continue
        # a single value that is the constant NaN (series shorter than the indicator's look-back) compares equal to anything: retry on
        # a longer input, and if it is still NaN the comparison decides nothing
        def all_nan(r):
            vals = [b for g, b in IR.fields_of(r[1])]
            return bool(vals) and all(isinstance(b, float) and b != b for b in vals)
        if all_nan(rn) and n != N2:
            n = N2
            rs2 = IR.run_indicator(repo, rel, fn, n, True, overrides=over)
            rn2 = IR.run_indicator(repo, rel, fn, n, False, overrides=over)
            if rs2[0] == "ok" and rn2[0] == "ok":
                rs, rn = rs2, rn2
            else:
                n = N
        if all_nan(rn):
            out.append((vname, over, "undecided", f"the single value is NaN on {n} candles (look-back longer than the analysed series): the comparison with the last entry decides nothing", []))
            continue
        probs, notes = [], []
        fs, fn_ = IR.fields_of(rs[1]), IR.fields_of(rn[1])
        if len(fs) != len(fn_):
            probs.append(("fields", "field-count", f"sequential result has {len(fs)} fields, single-value result {len(fn_)}"))
        for (f, a), (g, b) in zip(fs, fn_):
            ln = length_of(a)
            if ln is None:
                probs.append((f, "not-a-series", f"sequential result of field '{f}' is not a 1-D series ({type(a).__name__})"))
                continue
            if ln != n:
                probs.append((f, "length", f"sequential series '{f}' has {ln} entries for {n} candles"))
            if isinstance(b, (NA, list)):
                probs.append((f, "single-is-series", f"non-sequential result of field '{f}' is a series"))
                continue
            la = last(a)
            if same(la, b):
                continue
            if none_for_nan(la, b):
                notes.append(f"{f}: None-for-NaN idiom")
                continue
            ma = la.m if isinstance(la, D) else 0
            mb = b.m if isinstance(b, D) else 0
            newest = 1 << (n - 1)
            if (ma & newest) and not (mb & newest):
                probs.append((f, "single-ignores-newest-candle", f"field '{f}': the single value does not depend on the newest candle although the last entry of the series does"))
            elif (mb & newest) and not (ma & newest) and ln == n:
                probs.append((f, "series-last-ignores-newest-candle", f"field '{f}': the last entry of the series does not depend on the newest candle although the single value does"))
            elif not isinstance(b, D) and not isinstance(la, D):
                probs.append((f, "constant-mismatch", f"field '{f}': last entry {la!r} != single value {b!r}"))
            else:
                # structurally different computations of the same inputs: look for a refuting valuation
                wit = None
                try:
                    for vn, val in IR.valuations(n):
                        x, y = eval_dag(la, val), eval_dag(b, val)
                        if x is None or y is None:
                            differ = (x is None) != (y is None) and not ((x is None and y != y) or (y is None and x != x))
                        else:
                            differ = not ((x != x and y != y) or x == y or abs(x - y) <= 1e-9 * max(1.0, abs(x), abs(y)))
                        if differ:
                            wit = (vn, x, y)
                            break
                except Undecided as e:
                    notes.append(f"{f}: different computation for the single value - undecided ({e})")
                    continue
                if wit:
                    probs.append((f, "single-differs-from-last", f"field '{f}': the single value is computed differently from the series and differs from its last "
                                                                    f"entry on the valuation '{wit[0]}' (last entry {wit[1]!r}, single value {wit[2]!r})"))
                else:
                    notes.append(f"{f}: different computation for the single value; agrees on all witness valuations - undecided")
        # long input: the single value is a function of the trailing warm-up window
        # (an indicator that slices with the literal 240 instead of helpers.slice_candles is analysed at the real window size)
        w_, nl_ = (240, 250) if any(isinstance(x, ast.Constant) and x.value == 240 for x in ast.walk(fn)) else (W, NL)
        rl = IR.run_indicator(repo, rel, fn, nl_, False, warmup=w_, overrides=over)
        if rl[0] == "ok":
            old = (1 << (nl_ - w_)) - 1
            for f, b in IR.fields_of(rl[1]):
                if isinstance(b, D) and (b.m & old):
                    probs.append((f, "reads-before-warmup-window", f"field '{f}': on a long input the single value depends on candles older than the trailing warm-up window (input not sliced)"))
        else:
            notes.append(f"long input: {rl[0]} {str(rl[1])[:40]}")
        out.append((vname, over, "ok", notes, probs))
    # short inputs (fewer candles than / about as many as the default periods): still one entry per candle, the sequential call must
    # not be the only one that raises - swept over every length from 1 to a little beyond the sum of the default periods, because the
    # branches for "not enough candles" sit at lengths like period, period + 1, period + period_stoch - 1
    from props.c13 import int_params
    total = sum(v for k, v in int_params(fn) if 0 < v < 60)
    sweep = sorted(set([1, 2, 3, 10] + list(range(1, min(max(total + 3, 12), 48 if tier == "quick" else 90)))))
    und = None
    for ns in sweep:
        rs = IR.run_indicator(repo, rel, fn, ns, True)
        rn = IR.run_indicator(repo, rel, fn, ns, False)
        probs = []
        notes_s = []
        if rs[0] == "ok":
            for f, v in IR.fields_of(rs[1]):
                if isinstance(v, NA) and v.ndim == 1:
                    if len(v.data) != ns:
                        probs.append((f, "short-input-length", f"sequential series '{f}' has {len(v.data)} entries for {ns} candles (input shorter than the default period)"))
                elif not isinstance(v, (NA, list)):
                    probs.append((f, "short-input-not-a-series", f"sequential result of field '{f}' on {ns} candle(s) is not a series ({type(v).__name__})"))
            if rn[0] == "ok":
                # at a length around the look-back the two branches must agree on WHETHER there is a value yet: the constant NaN on one
                # side and a computed number on the other is a disagreement for every (finite) input
                fs_, fn__ = IR.fields_of(rs[1]), IR.fields_of(rn[1])
                if len(fs_) == len(fn__):
                    for (f, a), (g, b) in zip(fs_, fn__):
                        if not (isinstance(a, NA) and a.ndim == 1 and len(a.data) == ns) or isinstance(b, (NA, list)):
                            continue
                        la = last(a)
                        is_nan = lambda x: isinstance(x, float) and x != x
                        if is_nan(b) and isinstance(la, D):
                            probs.append((f, "short-input-single-nan-series-has-value", f"field '{f}' on {ns} candles: sequential=False returns NaN although the last entry of the sequential series is a computed value (the two branches disagree on the length at which the first value exists)"))
                        elif is_nan(la) and isinstance(b, D):
                            probs.append((f, "short-input-series-nan-single-has-value", f"field '{f}' on {ns} candles: the last entry of the sequential series is NaN although sequential=False returns a computed value (the two branches disagree on the length at which the first value exists)"))
            if rn[0] == "raises":
                if "IndexError" in str(rn[1]) and "numba kernel" in str(rn[1]):
                    # an out-of-bounds access inside a numba kernel is undefined behaviour in the compiled code (no bounds check): not decidable here
                    notes_s.append(f"short input ({ns} candles): sequential=False indexes out of bounds ({rn[1]}) - undefined behaviour under numba, undecided")
                else:
                    probs.append(("*", "short-input-single-raises", f"sequential=False raises {rn[1]} on {ns} candles while sequential=True returns a series"))
        elif rs[0] == "raises" and rn[0] == "ok":
            if "IndexError" in str(rs[1]) and "numba kernel" in str(rs[1]):
                notes_s.append(f"short input ({ns} candles): sequential=True indexes out of bounds ({rs[1]}) - undefined behaviour under numba, undecided")
            else:
                probs.append(("*", "short-input-sequential-raises", f"sequential=True raises {rs[1]} on {ns} candles while sequential=False returns a value"))
        elif rs[0] == "undecided" or rn[0] == "undecided":
            und = und or f"{ns} candles: sequential: {rs[0]} {str(rs[1])[:50]}; single: {rn[0]} {str(rn[1])[:40]}"
            continue
        if probs or notes_s:
            out.append((f"short-input n={ns}", {}, "ok", notes_s, probs))
            if probs:
                break                 # one length per indicator is enough for the report
    else:
        out.append(("short-input", {}, "ok" if und is None else "undecided", [] if und is None else und, []))
    return fname, rel, out


def _analyse_one_timeout(args, msg):
    root, fname, rel, tier = args
    return fname, rel, [("defaults", {}, "undecided", msg, [])]


def analyse_one(args):
    """per-indicator wall-clock budget: an interpretation that blows up is reported as undecided for that indicator"""
    from vlib.indic_vals import time_limit, TimeBudget as _U
    try:
        with time_limit(240, "indicator interpretation"):
            return _analyse_one_unlimited(args)
    except _U as e:
        return _analyse_one_timeout(args, str(e))



def uses_numba(repo, rel) -> bool:
    try:
        tree = repo.module(rel).tree
    except Exception:
        return True
    return any(isinstance(n, ast.FunctionDef) and any("njit" in ast.dump(d) or "jit" in ast.dump(d) for d in n.decorator_list) for n in ast.walk(tree))


# named exemptions of the purity rule (one line of reason each)
PURITY_EXEMPT = {
    ("jesse/helpers.py", "get_config"): "configuration memo keyed by its whole argument; entry-time invalidation is decided by C11-R1",
}


def check_purity(repo: Repo, rep, rid: str):
    """indicators are functions of their input (shared by C13 / C14 / C15: a value that depends on what was computed before - an earlier
    call, another indicator on the same candles - is neither causal, nor equal to its sequential twin, nor its definition)"""
    import ast as _ast
    from vlib.purity import Purity
    from vlib import indic_run as IR
    rep.rule(rid, "effect analysis of the indicator call graph (every public indicator, the module-local helpers / numba kernels and the "
                  "jesse.helpers / jesse.utils functions they call): no in-place modification of the caller's candle array - the input, "
                  "a column or slice view of it, what get_candle_source / slice_candles hand back - by an augmented assignment, a "
                  "subscript store, out=, or an in-place method; no store into module-level state (a cache or memo) unless its key is a "
                  "whole-content digest of every array argument")
    # the analysis must still see what it is there for: a positive example of each effect, analysed on every run
    src = ("import numpy as np\n_CACHE = {}\n"
           "def probe(candles, period=3):\n    source = candles[:, 2]\n    source -= source[0]\n    key = (len(candles), candles[-1, 0])\n"
           "    _CACHE[key] = source\n    return source\n"
           "def clean(candles, period=3):\n    source = candles[:, 2] - candles[0, 2]\n    key = candles.tobytes()\n    _CACHE[key] = source\n    return source\n")
    from vlib.loader import Module
    probe_mod = Module("jesse/indicators/__purity_probe__.py", src.replace("\\n", "\n"), _ast.parse(src.replace("\\n", "\n")))
    pp = Purity(repo)
    pp.analyse(probe_mod, probe_mod.defs["probe"], (0,))
    got = {f.rule for f in pp.findings}
    pc = Purity(repo)
    pc.analyse(probe_mod, probe_mod.defs["clean"], (0,))
    if got != {"R-input", "R-global"} or pc.findings:
        raise AnalysisError(f"purity analysis does not decide its own examples any more (probe: {sorted(got)}, clean twin: {[f.what for f in pc.findings]})")
    P = Purity(repo)
    n = 0
    for name, rel, fn in IR.public_indicators(repo):
        mod = repo.module(rel)
        params = [a.arg for a in fn.args.args]
        if not params:
            continue
        P.analyse(mod, fn, (0,))
        n += 1
        rep.instance(rid, f"indicator|{name}", None)
    seen = set()
    for f in P.findings:
        if f.key() in seen:
            continue
        seen.add(f.key())
        if (f.rel, f.func) in PURITY_EXEMPT:
            rep.instance(rid, f"exempt|{f.rel}:{f.func}", {"exempt": PURITY_EXEMPT[(f.rel, f.func)]})
            continue
        rep.violation(rid, f"{f.rule}|{f.rel}:{f.func}", f"{f.rel}: {f.func}: {f.what} - the result of an indicator then depends on earlier calls, not on its input alone")
    rep.extra["purity"] = {"indicators": n, "functions_analysed": len(P.visited_funcs), "summaries": len(P.summaries)}
    if n < 150 or len(P.visited_funcs) < 250:
        raise AnalysisError(f"purity analysis covered only {n} indicators / {len(P.visited_funcs)} functions")
    rep.floor(rid, 150)


def run(repo: Repo, rep, tier: str):
    rep.guarded(check_purity, repo, rep, "C14-R3")
    rid = "C14-R1"
    rep.rule(rid, "every public indicator interpreted with sequential=True and False on the same abstract input: each series has one "
                  "entry per candle; the single value is structurally the last entry of the series (same expression on the same inputs; "
                  "the `None if isnan(x[-1])` idiom accepted); on an input longer than the warm-up window the single value depends only "
                  "on the trailing window (input sliced)")
    rep.assume("x[~isnan(x)] (NaN-stripping of a warm-up padded series): a computed element is taken to be a number, only the constant NaN padding is removed (generic finite inputs)")
    rep.assume("structural equality of the two computations implies equal values; structurally different computations of the single value are undecided unless they provably ignore the newest candle / read before the window")
    inds = [(n, rel, fn) for n, rel, fn in IR.public_indicators(repo) if any(a.arg == "sequential" for a in fn.args.args)]
    pub = {fn.name: n for n, rel, fn in inds}
    jobs = [(repo.root, fn.name, rel, tier) for n, rel, fn in inds]
    with ProcessPoolExecutor(max_workers=min(16, os.cpu_count() or 1)) as ex:
        results = list(ex.map(analyse_one, jobs, chunksize=4))
    decided = 0
    for fname, rel, res in results:
        name = pub.get(fname, fname)
        for vname, over, status, notes, probs in res:
            if status != "ok":
                rep.undecided_item(f"{name} [{vname}]: {notes}")
                continue
            decided += 1
            for f, kind, msg in probs:
                if name in EXEMPT:
                    continue
                if kind == "reads-before-warmup-window" and name in WINDOW_EXEMPT:
                    continue
                rep.violation(rid, f"{name}|{f}|{kind}", f"indicator {name} ({vname} {over or ''}) in {rel}: {msg}", {"indicator": name, "params": over})
            for nt in notes:
                if "undecided" in nt:
                    rep.undecided_item(f"{name} [{vname}]: {nt}")
            rep.instance(rid, f"{name}|{vname}", {"indicator": name, "variant": vname, "notes": notes} if decided % 30 == 1 or probs else None)
    rep.extra["indicators_analysed"] = len(inds)
    rep.extra["exempt"] = {**EXEMPT, **{k + " (window clause)": v for k, v in WINDOW_EXEMPT.items()}}
    if decided < 150:
        raise AnalysisError(f"only {decided} indicator runs reached a verdict")
    rep.floor(rid, 150)


CLAIM = {
    "engine": "indicators",
    "technique": "dependence + structural-identity analysis of the sequential and non-sequential paths of every indicator on the same abstract input",
    "text": "Static. Each indicator is interpreted from source twice (sequential=True / False) on the same abstract candles; every output "
            "element carries a structural hash of its computation and its candle-dependence set. Decided: each returned series has "
            "exactly one entry per candle; the single value is the same expression as the series' last entry (equal hash => equal "
            "value; `None if isnan` idiom accepted; a single value that ignores the newest candle is a violation); with a shortened "
            "warm-up window the single value on a longer input depends only on the trailing window (slice_candles applied). "
            "Structurally different single-value computations on the same inputs are refuted by witness evaluation or reported as undecided. "
            "Default parameters, shifted and smallest periods, a recursive matype, and a short input (10 candles: one entry per candle, a "
            "series, and sequential must not be the only call that raises). Effect analysis of the indicator call graph (R3); a witness valuation with a quiet tail (flat candles, no trades).",
    "note": "Trusted: numpy model; structural equality as a sufficient condition for value equality; source types other than the default are not varied.",
}
