"""Rules over abstractly interpreted mini sessions (engine E9, vlib/minisession.py), shared by C01, C02, C03, C05, C07, C12.

Both simulator functions are interpreted whole on tiny sessions (one / two symbols, a data-route symbol, 1m / 3m / 5m routes,
session lengths that are not a multiple of the timeframe) with the matcher, the order store, the strategies and the gap
normalisation recorded.  The rules below read the recorded event list only, so they do not depend on variable names, on how
the simulator is split into helper functions or on the form of its loops.
"""
from __future__ import annotations

from typing import Dict, List, Tuple

from vlib.loader import AnalysisError
from vlib import minisession as MS

SESSIONS = [
    dict(name="two symbols, 3m, 7 minutes", symbols=("AAA-USDT", "BBB-USDT"), minutes=7, timeframe="3m"),
    dict(name="one symbol, 3m, 7 minutes", symbols=("AAA-USDT",), minutes=7, timeframe="3m"),
    dict(name="one symbol, 1m, 3 minutes", symbols=("AAA-USDT",), minutes=3, timeframe="1m"),
    dict(name="two symbols, 1m, 3 minutes", symbols=("AAA-USDT", "BBB-USDT"), minutes=3, timeframe="1m"),
    dict(name="one symbol + data symbol, 5m, 11 minutes", symbols=("AAA-USDT",), data_symbols=("BBB-USDT",), minutes=11, timeframe="5m"),
    dict(name="one symbol, 5m, 1 minute", symbols=("AAA-USDT",), minutes=1, timeframe="5m"),
    dict(name="one symbol, 15m, 31 minutes", symbols=("AAA-USDT",), minutes=31, timeframe="15m"),
    dict(name="two symbols, 3m and 5m, 16 minutes", symbols=("AAA-USDT", "BBB-USDT"), minutes=16, timeframe=("3m", "5m")),
    dict(name="one symbol 15m + data symbol 5m, 31 minutes", symbols=("AAA-USDT",), data_symbols=("BBB-USDT",), minutes=31, timeframe=("15m", "5m")),
]
# thorough tier: three symbols, more timeframes and longer sessions
THOROUGH_EXTRA = [
    dict(name="three symbols, 5m, 23 minutes", symbols=("AAA-USDT", "BBB-USDT", "CCC-USDT"), minutes=23, timeframe="5m"),
    dict(name="two symbols + data symbol, 15m / 15m / 5m, 47 minutes", symbols=("AAA-USDT", "BBB-USDT"), data_symbols=("CCC-USDT",), minutes=47, timeframe=("15m", "15m", "5m")),
    dict(name="one symbol, 45m, 100 minutes", symbols=("AAA-USDT",), minutes=100, timeframe="45m"),
    dict(name="two symbols, 30m and 45m, 95 minutes", symbols=("AAA-USDT", "BBB-USDT"), minutes=95, timeframe=("30m", "45m")),
    dict(name="one symbol 1h + data symbol 15m, 125 minutes", symbols=("AAA-USDT",), data_symbols=("BBB-USDT",), minutes=125, timeframe=("1h", "15m")),
] + [dict(name=f"one symbol, {tf}, {n} minutes", symbols=("AAA-USDT",), minutes=n, timeframe=tf) for tf in ("15m", "30m") for n in (14, 15, 16, 29, 30, 31, 44, 46, 61)]


def for_tier(tier: str):
    if tier != "thorough":
        return SESSIONS
    names = {c["name"] for c in SESSIONS}
    return SESSIONS + [c for c in THOROUGH_EXTRA if c["name"] not in names]


SIMS = ("_step_simulator", "_skip_simulator")
_cache: Dict[str, Dict] = {}


TF_MINUTES = {"1m": 1, "3m": 3, "5m": 5, "15m": 15, "30m": 30, "45m": 45, "1h": 60, "2h": 120, "3h": 180, "4h": 240, "6h": 360, "8h": 480, "12h": 720,
              "1D": 1440, "3D": 4320, "1W": 10080}


def minutes_of(tf: str) -> int:
    return TF_MINUTES[tf]


# the fast simulator's chunking for every session length 1..13 and chunk lengths 1 / 3 / 5 (one symbol: the chunk is the route timeframe)
PARTITION_SESSIONS = [dict(name=f"one symbol, {tf}, {n} minute(s)", symbols=("AAA-USDT",), minutes=n, timeframe=tf) for tf in ("1m", "3m", "5m") for n in range(1, 14)]


def tf_of(cfg, sym: str) -> str:
    tf = cfg["timeframe"]
    if isinstance(tf, str):
        return tf
    allsyms = tuple(cfg["symbols"]) + tuple(cfg.get("data_symbols", ()))
    return tf[allsyms.index(sym)]


def all_tfs(cfg):
    tf = cfg["timeframe"]
    return sorted({t for t in ([tf] if isinstance(tf, str) else tf) if t != "1m"}, key=minutes_of)


def tag(sym: str) -> str:
    return sym.split("-")[0].lower()


def sessions(repo, cfgs=None, sims=SIMS):
    cfgs = SESSIONS if cfgs is None else cfgs
    root = repo.root if hasattr(repo, "root") else id(repo)
    out = {}
    for cfg in cfgs:
        kw = {k: v for k, v in cfg.items() if k != "name"}
        for sim in sims:
            key = (root, cfg["name"], sim)
            if key not in _cache:
                _cache[key] = (cfg, MS.run(repo, sim, **kw))
            out[(cfg["name"], sim)] = _cache[key]
    return out


def blocks(events) -> List[Dict]:
    """split the event list at the matcher calls: a block = the matcher calls that end at the same minute, with everything up to
    the first matcher call that ends at a later minute.  {'end': minute, 'events': [...], 'first': idx, 'last_match': idx}"""
    out = []
    cur = None
    for i, e in enumerate(events):
        if e[0] == "match":
            end = e[2] + e[3] - 1
            if cur is None or end != cur["end"]:
                cur = {"end": end, "events": [], "matches": []}
                out.append(cur)
            cur["matches"].append(len(cur["events"]))
        if cur is not None:
            cur["events"].append(e)
    return out


def proto(evs) -> List[Tuple]:
    return [e for e in evs if e[0] in ("exec", "prune", "flush", "terminate", "sample")]


def raised(repo, rep, rid, cfgs=None, sims=SIMS) -> set:
    """sessions in which the simulator raises: reported once per rule that looks at them, and skipped by it"""
    out = set()
    for (name, sim), (cfg, ses) in sessions(repo, cfgs, sims).items():
        r = [e for e in ses.events if e[0] == "raise"]
        if r:
            out.add((name, sim))
            rep.violation(rid, f"{sim}|raises", f"{sim} ({name}): the simulator raises {r[0][1]}")
            rep.instance(rid, f"{sim}|{name}|raises")
    return out


# ---------------------------------------------------------------------------------------------------- rules
def check_cover(repo, rep, rid, cfgs=None, sims=SIMS, clock=False):
    """S1: every symbol's minutes are fed to the matcher exactly once, in order, minute-major across symbols"""
    n = 0
    skip = raised(repo, rep, rid, cfgs, sims)
    for (name, sim), (cfg, ses) in sessions(repo, cfgs, sims).items():
        if (name, sim) in skip:
            continue
        syms = tuple(cfg["symbols"]) + tuple(cfg.get("data_symbols", ()))
        calls = [(e[1], e[2], e[3]) for e in ses.events if e[0] == "match"]
        want = list(range(cfg["minutes"]))
        # the normal simulator advances the clock to the END of the minute before it stores and matches it (the hooks of a fill are
        # stamped with the minute they belong to; the fast matcher sets the clock itself, rule C12-R5 / C01-R6)
        if clock and sim == "_step_simulator":
            late = [(e[1], e[2], e[5]) for e in ses.events if e[0] == "match" and len(e) > 5 and e[5] is not None and e[5] != e[2] + 1]
            if late:
                sy, m, c = late[0]
                rep.violation(rid, f"{sim}|clock", f"{sim} ({name}): minute {m} of {sy} is matched while the clock stands at minute {c} of the session (expected {m + 1}, the end of "
                                                   f"that minute): hooks of its fills carry the wrong time")
        cover = {}
        for s, m0, ln in calls:
            cover.setdefault(s, []).extend(range(m0, m0 + ln))
        n += 1
        if any(cover.get(s, []) != want for s in syms):
            rep.violation(rid, f"{sim}|cover", f"{sim} ({name}): the matcher is fed {calls}; every minute of {want} must be fed exactly once per symbol, in order")
            continue
        if len(syms) > 1:
            fed = {}
            ok = True
            for s, m0, ln in calls:
                others_max = max([max(v) for s_, v in fed.items() if s_ != s] or [-1])
                if ln > 1 and m0 + ln - 1 > others_max + 1:
                    ok = False
                if m0 > others_max + 1 and fed:
                    ok = False
                fed.setdefault(s, []).extend(range(m0, m0 + ln))
            if not ok:
                rep.violation(rid, f"{sim}|symbol-major-chunk",
                              f"{sim} ({name}): the matcher is fed {calls} - more than one minute of one symbol before the other symbol's: an order created for another "
                              f"symbol by a hook at minute m is matched against that symbol's earlier minutes (executed before it was submitted) or misses its later ones, and "
                              f"the other symbols' candles and prices seen by a hook are up to a chunk off")
        rep.instance(rid, f"{sim}|{name}", {"session": name, "simulator": sim, "matcher_calls": calls})
    rep.floor(rid, len(sims) * len(SESSIONS if cfgs is None else cfgs))
    return n


def check_fed_candles(repo, rep, rid, cfgs=None, sims=SIMS):
    """S2: what the matcher gets for minute m of a symbol is that symbol's input candle m, gap-normalised against candle m-1 of the
    same symbol (m > 0) - exactly once"""
    skip = raised(repo, rep, rid, cfgs, sims)
    for (name, sim), (cfg, ses) in sessions(repo, cfgs, sims).items():
        if (name, sim) in skip:
            continue
        bad = None
        for e in ses.events:
            if e[0] != "match":
                continue
            sym, m0, ln, rows = e[1], e[2], e[3], e[4]
            for k, row in enumerate(rows):
                o = MS.origin(row)
                m = m0 + k
                if o is None or o[0] != tag(sym) or o[1] != m:
                    bad = f"minute {m} of {sym}: the matcher gets {row!r}, which is not that symbol's input candle of that minute"
                elif m == 0 and o[2] != "raw":
                    bad = f"minute 0 of {sym}: the first candle is gap-normalised (against {o[3]})"
                elif m > 0 and (o[2] != "fixed" or o[3] != (tag(sym), m - 1)):
                    bad = (f"minute {m} of {sym}: the candle handed to the matcher is " + ("not gap-normalised" if o[2] == "raw" else f"gap-normalised against candle {o[3]}")
                           + f", expected against candle {m - 1} of the same symbol (the documented normalisation of a gapping open)")
                if bad:
                    break
            if bad:
                break
        if bad:
            rep.violation(rid, f"{sim}|fed-candle", f"{sim} ({name}): {bad}")
        rep.instance(rid, f"{sim}|{name}")
    rep.floor(rid, len(sims) * len(SESSIONS if cfgs is None else cfgs))


def expected_protocol(cfg, end) -> List[Tuple]:
    out = []
    for s in cfg["symbols"]:
        c = minutes_of(tf_of(cfg, s))
        if (end + 1) % c == 0:
            out.append(("exec", s))
        out.append(("prune", s))
    out.append(("flush",))
    return out


def conforms(got, want, cfg, last=False):
    """None if the protocol events `got` do what `want` (the normal simulator's sequence) asks for, else what is wrong.  Harmless
    surplus is accepted: a route pruned more than once, a symbol without a route pruned, an additional flush - but every strategy
    that is due executes exactly once and none that is not, each route is pruned after its strategy ran and before the flush
    that follows the last execution, and (after the last minute) every terminate is followed by a flush and the finishing
    sample is the last event"""
    if got == want:
        return None
    routes = list(cfg["symbols"])
    due = [e[1] for e in want if e[0] == "exec"]
    execs = [e[1] for e in got if e[0] == "exec"]
    if sorted(execs) != sorted(due):
        return f"strategies executed: {execs}, due: {due}"
    body = got
    tail = []
    if last:
        k = next((i for i, e in enumerate(got) if e[0] == "terminate"), None)
        if k is None:
            return "no strategy is terminated after the last minute"
        body, tail = got[:k], got[k:]
    flushes = [i for i, e in enumerate(body) if e == ("flush",)]
    if not flushes:
        return "the pending MARKET orders are not executed"
    last_exec = max([i for i, e in enumerate(body) if e[0] == "exec"], default=-1)
    f = next((i for i in flushes if i > last_exec), None)
    if f is None:
        return "no execution of the pending MARKET orders follows the last strategy execution"
    for r in routes:
        ex = next((i for i, e in enumerate(body) if e == ("exec", r)), -1)
        if not any(e == ("prune", r) and ex < i < f for i, e in enumerate(body)):
            return f"the active orders of {r} are not pruned between its strategy execution and the execution of the pending MARKET orders"
    if any(e[0] == "exec" for e in body[f:]):
        return "a strategy executes after the pending MARKET orders were executed"
    if last:
        terms = [e[1] for e in tail if e[0] == "terminate"]
        if sorted(terms) != sorted(routes):
            return f"strategies terminated: {terms}"
        for i, e in enumerate(tail):
            if e[0] == "terminate":
                nxt = next((x for x in tail[i + 1:] if x[0] in ("terminate", "flush")), None)
                if nxt != ("flush",):
                    return f"the termination of {e[1]} is not followed by an execution of the pending MARKET orders"
        if not tail or tail[-1] != ("sample", False) or any(e[0] == "sample" for e in tail[:-1]):
            return "the finishing equity sample is not the last event (or is taken more than once)"
    return None


def check_protocol(repo, rep, rid, what="full", cfgs=None, sims=SIMS):
    """S3: at the end of every minute that the simulator itself steps over (every minute with several symbols or in the normal
    simulator; every chunk end otherwise): nothing of the protocol happens before all symbols have been matched; then, route by
    route, the strategy executes iff its candle closed at that minute and the route's active-order list is pruned; then the
    pending MARKET orders are executed.  After the last minute: every strategy terminates, each followed by a flush, and the
    finishing sample is the last event."""
    skip = raised(repo, rep, rid, cfgs, sims)
    for (name, sim), (cfg, ses) in sessions(repo, cfgs, sims).items():
        if (name, sim) in skip:
            continue
        bl = blocks(ses.events)
        if not bl:
            rep.violation(rid, f"{sim}|no-matching", f"{sim} ({name}): the matcher is never called")
            continue
        bad = None
        for bi, b in enumerate(bl):
            evs = b["events"]
            last_match = b["matches"][-1]
            early = proto(evs[:last_match])
            if early:
                bad = (f"minute {b['end']}: {early} happens before every symbol's candle of that minute has been stored and matched (a strategy would run on - or the "
                       f"protocol would close - a minute that is not complete)")
                break
            after = proto(evs[last_match + 1:])
            want = expected_protocol(cfg, b["end"])
            if bi == len(bl) - 1:
                tail = []
                for s in cfg["symbols"]:
                    tail += [("terminate", s), ("flush",)]
                want = want + tail + [("sample", False)]
            got = [e for e in after if e[0] != "sample" or bi == len(bl) - 1]
            # daily samples inside the session belong to C16
            if what == "order":
                continue                # only "nothing before every symbol is matched" is asked for
            if what == "prune":
                # only: every route's active orders are pruned in every step, after its strategy ran (if it did)
                why = None
                for r in cfg["symbols"]:
                    ex = next((i for i, e in enumerate(got) if e == ("exec", r)), -1)
                    if not any(e == ("prune", r) and i > ex for i, e in enumerate(got)):
                        why = f"the active orders of {r} are not pruned" + (" after its strategy executed" if ex >= 0 else "")
                        break
            else:
                why = conforms(got, want, cfg, last=(bi == len(bl) - 1))
            if why:
                bad = f"after minute {b['end']} the simulator does {got}; expected {want}: {why}"
                break
        if bad:
            rep.violation(rid, f"{sim}|minute-end-protocol",
                          f"{sim} ({name}): {bad} - per route: execute the strategy iff its candle closed, prune the route's active orders; then execute the pending MARKET "
                          f"orders (so that a MARKET order is filled before any later candle is processed and executed orders are not listed as active any more)")
        rep.instance(rid, f"{sim}|{name}", {"session": name, "simulator": sim, "blocks": [(b["end"], [list(map(str, e)) for e in proto(b["events"])]) for b in bl]})
    rep.floor(rid, len(sims) * len(SESSIONS if cfgs is None else cfgs))


def check_same_protocol(repo, rep, rid, cfgs=None):
    """C12: block by block the fast simulator's protocol equals the normal simulator's at the same minute"""
    ss = sessions(repo, cfgs)
    skip = raised(repo, rep, rid, cfgs)
    for cfg in (SESSIONS if cfgs is None else cfgs):
        name = cfg["name"]
        if any((name, sim) in skip for sim in SIMS):
            rep.instance(rid, name + "|raises")
            continue
        pre = {sim: [e for e in ss[(name, sim)][1].events[:next((i for i, e in enumerate(ss[(name, sim)][1].events) if e[0] == "match"), 0)] if e[0] in ("prepare", "sample")] for sim in SIMS}
        if pre[SIMS[0]] != pre[SIMS[1]] or ("sample", True) not in pre[SIMS[0]]:
            rep.violation(rid, "prologue-differs", f"({name}) before the first candle the normal simulator does {pre[SIMS[0]]}, the fast simulator {pre[SIMS[1]]} (expected: prepare times and routes, then the initial equity sample, in both)")
        nb = {b["end"]: proto(b["events"]) for b in blocks(ss[(name, "_step_simulator")][1].events)}
        fb = {b["end"]: proto(b["events"]) for b in blocks(ss[(name, "_skip_simulator")][1].events)}
        last_end = max(fb, default=None)
        diff = [(e, nb.get(e), p, w) for e, p in fb.items() for w in [("no such step" if nb.get(e) is None else conforms(p, nb[e], cfg, last=(e == last_end)))] if w]
        if diff or max(nb, default=None) != max(fb, default=None):
            e, n_, f_, w = diff[0] if diff else (None, None, None, "the sessions end at different minutes")
            rep.violation(rid, "phases-differ", f"({name}) after minute {e} the normal simulator does {n_}, the fast simulator {f_}: {w}")
        # the candles of the higher timeframes are built from the same 1m candles in both simulators
        def gens_of(sim_):
            out_ = {}
            for e in ss[(name, sim_)][1].events:
                if e[0] == "gen" and e[4] is not None:
                    os_ = tuple(MS.origin(r) for r in e[4])
                    out_[(os_[0][0] if os_ and os_[0] else None, e[1], e[2])] = os_
            return out_
        gn, gf = gens_of(SIMS[0]), gens_of(SIMS[1])
        dg = [k for k in sorted(set(gn) | set(gf), key=repr) if gn.get(k) != gf.get(k)]
        if dg:
            k = dg[0]
            rep.violation(rid, "generation-differs", f"({name}) the {k[1]} candle of {k[0]} starting at minute {k[2]} is built from {gn.get(k)} in the normal simulator and from {gf.get(k)} "
                                                     f"in the fast simulator ((symbol, minute, raw / gap-normalised, against))")
        # minutes the fast simulator leaves to its matcher must be minutes at which the normal simulator executes no strategy
        inner = [e for e in nb if e not in fb and any(x[0] == "exec" for x in nb[e])]
        if inner:
            rep.violation(rid, "exec-inside-chunk", f"({name}) the normal simulator executes strategies after minutes {inner}, which lie inside a chunk of the fast simulator")
        rep.instance(rid, name, {"session": name, "chunk_ends": sorted(fb)})
    rep.floor(rid, len(SESSIONS if cfgs is None else cfgs))


def check_generation(repo, rep, rid, cfgs=None, sims=SIMS):
    """S4: every completed window of a route timeframe is generated exactly once per symbol, from exactly the window's 1m candles of
    that symbol, after the symbol's last minute of the window has been matched and before any strategy runs; nothing is
    generated from candles of minutes that have not been matched yet"""
    skip = raised(repo, rep, rid, cfgs, sims)
    for (name, sim), (cfg, ses) in sessions(repo, cfgs, sims).items():
        if (name, sim) in skip:
            continue
        tfs = all_tfs(cfg)
        if not tfs:
            rep.instance(rid, f"{sim}|{name}")
            continue
        syms = tuple(cfg["symbols"]) + tuple(cfg.get("data_symbols", ()))
        matched = {s: -1 for s in syms}
        gens = {}
        bad = None
        for e in ses.events:
            if e[0] == "match":
                matched[e[1]] = e[2] + e[3] - 1
            elif e[0] == "gen":
                gtf, first, n, rows = e[1], e[2], e[3], e[4]
                os_ = [MS.origin(r) for r in rows]
                if any(o is None for o in os_) or len({o[0] for o in os_}) != 1 or [o[1] for o in os_] != list(range(first, first + n)):
                    bad = f"a {gtf} candle is generated from {[(o[0], o[1]) if o else None for o in os_]}: not consecutive 1m candles of one symbol"
                    break
                raw = [o[1] for o in os_ if o[1] > 0 and (o[2] != "fixed" or o[3] != (o[0], o[1] - 1))]
                if raw:
                    bad = (f"the {gtf} candle starting at minute {first} is generated from 1m candles of minutes {raw} that are not the gap-normalised ones the matcher "
                           f"got (the normalisation was applied to a copy): the stored 1m candles and the higher timeframe built from them disagree")
                    break
                sy = next(s for s in syms if tag(s) == os_[0][0])
                if gtf not in tfs or n != minutes_of(gtf) or first % minutes_of(gtf) != 0:
                    bad = f"a {gtf} candle of {sy} is generated from minutes {first}..{first + n - 1}: not an aligned window of that timeframe (session timeframes {tfs})"
                    break
                if first + n - 1 > matched[sy]:
                    bad = f"a {gtf} candle of {sy} is generated from minutes up to {first + n - 1} although only minute {matched[sy]} has been matched (look-ahead)"
                    break
                gens[(sy, gtf, first)] = gens.get((sy, gtf, first), 0) + 1
            elif e[0] == "exec":
                # every window (of every timeframe of the session, for every symbol) that closed so far must have been generated
                done = min(matched.values())
                for sy in syms:
                    for tf in tfs:
                        c = minutes_of(tf)
                        for w in range(0, done + 1 - (c - 1), c):
                            if gens.get((sy, tf, w), 0) != 1:
                                bad = f"the strategy of {e[1]} executes after minute {done} although the {tf} candle of {sy} starting at minute {w} has been generated {gens.get((sy, tf, w), 0)} times"
                if bad:
                    break
        if not bad:
            for sy in syms:
                for tf in tfs:
                    c = minutes_of(tf)
                    for w in range(0, cfg["minutes"] - c + 1, c):
                        if gens.get((sy, tf, w), 0) != 1:
                            bad = f"the {tf} candle of {sy} starting at minute {w} is generated {gens.get((sy, tf, w), 0)} times in the session"
            extra = [k for k in gens if k[2] + minutes_of(k[1]) > cfg["minutes"]]
            if extra:
                bad = f"candles are generated for windows that do not complete inside the session: {extra}"
        if bad:
            rep.violation(rid, f"{sim}|window-generation", f"{sim} ({name}): {bad}")
        rep.instance(rid, f"{sim}|{name}", {"generated": sorted(gens)})
    rep.floor(rid, len(sims) * len(SESSIONS if cfgs is None else cfgs))
