"""C20 - candle series handed to the store are gapless and strictly ordered."""
from __future__ import annotations

import ast
import itertools
from fractions import Fraction as F

from vlib.absint import Interp, Obj, Arr, Arr2, FuncV, ClassV, explore, R, num, Unknown, NotInFragment
from vlib.loader import Repo, AnalysisError, norm
from vlib import world as W
from vlib import simloops as SL
from vlib.traces import Tracer, Cfg, RAISE, FALL, RET

IMPORT = "jesse/modes/import_candles_mode/__init__.py"
CANDLES_STATE = "jesse/store/state_candles.py"
DNA = "jesse/libs/dynamic_numpy_array/__init__.py"
RESEARCH = "jesse/research/backtest.py"
MIN = 60000


def A(n):
    return R.atom(n)


# ------------------------------------------------------------------ gap filling
def check_fill(repo, rep, tier):
    rid = "C20-R1"
    rep.rule(rid, "_fill_absent_candles interpreted for every pattern of present/missing minutes of intervals of 1..N minutes "
                  "(candle values symbolic): exactly one candle per minute, timestamps start + k*60000 strictly increasing, "
                  "provided candles returned unchanged (same record), each missing minute a flat zero-volume candle at the "
                  "previous close (or the first known open before any candle exists)")
    N = 4 if tier == "quick" else 6
    start = 1_600_000_020_000 // MIN * MIN
    n_cases = 0
    for n in range(1, N + 1):
      for present, extra in [(pr, 0) for pr in itertools.product([False, True], repeat=n)] + \
                            [(pr, e) for pr in itertools.product([False, True], repeat=n) for e in (1, n - sum(pr)) if e > 0 and n <= 4]:
            # extra: the batch also holds `extra` candles AFTER the requested interval (a limit-sized batch of an exchange that skips
            # minutes without trades runs past the end): they are not part of the result
            if not any(present):
                continue
            n_cases += 1

            def mk(dec):
                it = Interp(repo, stubs=W.base_stubs(), decisions=dec)
                temp = []
                for k, pr in enumerate(list(present) + [True] * extra):
                    if pr:
                        temp.append({"id": f"id{k}", "exchange": "X", "symbol": "BTC-USDT", "timeframe": "1m", "timestamp": num(start + k * MIN),
                                     "open": A(f"o{k}"), "close": A(f"c{k}"), "high": A(f"h{k}"), "low": A(f"l{k}"), "volume": A(f"v{k}")})
                it.temp = temp
                fn = repo.func(IMPORT, "_fill_absent_candles")
                return it, lambda it: it.call(FuncV(fn, repo.module(IMPORT), qual="_fill_absent_candles"),
                                              [list(temp), num(start), num(start + (n - 1) * MIN)], {})
            pat = "".join("x" if p else "." for p in present) + ("|" + "x" * extra if extra else "")
            for out in explore(mk, 16):
                key = f"pattern {pat}"
                if out.kind != "return" or not isinstance(out.value, list):
                    rep.violation(rid, f"fill|raises", f"_fill_absent_candles raises {out.value} for presence pattern {pat}")
                    continue
                res = out.value
                probs = []
                if len(res) != n:
                    probs.append(f"{len(res)} candles for {n} minutes")
                else:
                    first_open = out.interp.temp[0]["open"]
                    last_close = None
                    ti = 0
                    for k in range(n):
                        c = res[k]
                        ts = c.get("timestamp") if isinstance(c, dict) else None
                        if not (isinstance(ts, R) and ts.is_const() and ts.const_value() == start + k * MIN):
                            probs.append(f"candle {k} has timestamp {ts!r}")
                            break
                        if present[k]:
                            if c is not out.interp.temp[ti]:
                                probs.append(f"provided candle of minute {k} is not returned unchanged")
                            ti += 1
                            last_close = c["close"]
                        else:
                            ref = last_close if last_close is not None else first_open
                            for fld in ("open", "high", "low", "close"):
                                if not (isinstance(c.get(fld), R) and c[fld].same(ref)):
                                    probs.append(f"fill candle of minute {k}: {fld} = {c.get(fld)!r}, expected {ref!r}")
                            v = c.get("volume")
                            if not (isinstance(v, R) and v.is_const() and v.const_value() == 0):
                                probs.append(f"fill candle of minute {k}: volume {v!r}")
                            last_close = c["close"] if isinstance(c.get("close"), R) else last_close
                if probs:
                    rep.violation(rid, "fill|" + probs[0].split(":")[0][:40], f"_fill_absent_candles for presence pattern {pat}: " + "; ".join(probs[:4]))
                rep.instance(rid, key, {"pattern": pat, "result_len": len(res)} if n_cases % 7 == 1 else None)
    rep.floor(rid, 20)
    # general shape: every loop iteration appends exactly once and advances the clock exactly once, outside the branches
    rid2 = "C20-R1b"
    rep.rule(rid2, "trace rule on the fill loop: on every path of the loop body exactly one append to the result and exactly one "
                   "advance of the running timestamp by 60000")
    fn = repo.func(IMPORT, "_fill_absent_candles")
    loops = [n for n in ast.walk(fn) if isinstance(n, ast.For)]
    if len(loops) != 1:
        raise AnalysisError("_fill_absent_candles: expected exactly one loop")
    cfg = Cfg(call=lambda label, node: ("call", "append") if label.endswith(".append") else None,
              store=lambda label, node: ("store", label) if label == "start_timestamp" else None, loop_unroll=1)
    for evs, ex in Tracer(repo, cfg).block(loops[0].body, (repo.module(IMPORT), None), 0):
        if ex == RAISE:
            continue
        na = sum(1 for e in evs if e == ("call", "append"))
        ns = sum(1 for e in evs if e == ("store", "start_timestamp"))
        if na != 1 or ns != 1:
            rep.violation(rid2, "fill-loop", f"_fill_absent_candles loop body path appends {na} times and advances the timestamp {ns} times")
        rep.instance(rid2, " ".join(str(e[1]) for e in evs))
    adv = [n for n in ast.walk(loops[0]) if isinstance(n, ast.AugAssign) and norm(n.target) == "start_timestamp"]
    if not (len(adv) == 1 and isinstance(adv[0].op, ast.Add) and isinstance(adv[0].value, ast.Constant) and adv[0].value.value == MIN):
        rep.violation(rid2, "fill-loop|step", "the running timestamp is not advanced by exactly 60000 per iteration")
    rep.floor(rid2, 1)


# ------------------------------------------------------------------ store append / update rules
def make_store(repo, it: Interp, n_rows: int, t0: int, timeframe="1m", minutes=None):
    dna_mod, dna_cls = repo.module(DNA), repo.cls(DNA, "DynamicNumpyArray")
    arr = it.instantiate(ClassV(dna_cls, dna_mod), [(num(8), num(6))], {})
    for k in (range(n_rows) if minutes is None else minutes):
        it.call(it.getattr(arr, "append"), [Arr([num(t0 + k * MIN)] + [A(f"s{k}_{j}") for j in range(1, 6)])], {})
    cs = W.obj_of(repo, CANDLES_STATE, "CandlesState", "store.candles", {"storage": {f"Sandbox-BTC-USDT-{timeframe}": arr},
                                                                         "are_all_initiated": False, "initiated_pairs": {}})
    it.arr = arr
    return cs


def stored(it):
    n = int(it.arr.attrs["index"].const_value()) + 1
    return [r.items for r in it.arr.attrs["array"].rows[:n]]


def check_add_candle(repo, rep):
    rid = "C20-R2"
    rep.rule(rid, "CandlesState.add_candle interpreted on the repository's DynamicNumpyArray for (new timestamp vs stored): empty "
                  "-> append; newer -> append; equal to last -> replace last; equal to an older stored one -> replace it in place (stores of 2..26 "
                  "candles, every look-back position incl. the second candle; an unknown older timestamp is ignored without raising); "
                  "never a second candle with a stored timestamp; timestamps stay strictly increasing")
    t0 = 1_600_000_000_000 // MIN * MIN
    cases = [("empty", 0, 0), ("newer", 3, 3), ("newer-gap", 3, 5), ("same-as-last", 3, 2), ("older-stored-1", 3, 1), ("older-stored-0", 3, 0)]
    # stores around and beyond the 20-candle look-back: every stored position must be replaceable, an older timestamp that is
    # not stored (before the first candle) must be ignored without raising
    for n_ in (2, 19, 20, 21, 22, 26):
        for k_ in sorted({0, 1, 2, n_ - 3, n_ - 2} & set(range(n_ - 1))):
            cases.append((f"older-stored|n={n_}|k={k_}", n_, k_))
        cases.append((f"older-absent|n={n_}", n_, -2))
    # stores that are strictly increasing but not evenly spaced (a live feed that missed minutes; nothing in the store's contract
    # promises even spacing): every stored candle but the last is replaced in place
    gapped = {}
    for mins in ([0, 1, 2, 4, 5], [0, 2, 3], [0, 1, 5, 6, 7], [0, 3], [0, 1, 2, 3, 4, 5, 6, 7, 9, 10, 11, 12, 13, 14, 15, 16, 17, 18, 19, 20, 21, 22, 24]):
        for k_ in (mins[:-1] if len(mins) < 8 else [0, 1, 7, 9, 22]):
            nm = f"older-stored|gapped={','.join(map(str, mins)) if len(mins) < 8 else '0..24 without 8, 23'}|k={k_}"
            cases.append((nm, len(mins), k_))
            gapped[nm] = mins
    for name, n, k in cases:
        def mk(dec):
            it = Interp(repo, stubs=W.base_stubs(), decisions=dec)
            cs = make_store(repo, it, n, t0, minutes=gapped.get(name))
            cnd = Arr([num(t0 + k * MIN), A("no"), A("nc"), A("nh"), A("nl"), A("nv")])
            it.cnd = cnd
            return it, lambda it: it.call(it.getattr(cs, "add_candle"), [cnd, "Sandbox", "BTC-USDT", "1m"],
                                          {"with_execution": False, "with_generation": False})
        for out in explore(mk, 32):
            if out.kind != "return":
                rep.violation(rid, f"add_candle|{name}|raises", f"add_candle raises {out.value} in case {name}")
                continue
            rows = stored(out.interp)
            ts = [int(r[0].const_value()) for r in rows]
            probs = []
            exp_len = n + 1 if name in ("empty", "newer", "newer-gap") else n
            absent = name.startswith("older-absent")
            if len(rows) != exp_len:
                probs.append(f"{len(rows)} stored candles, expected {exp_len}")
            if any(b <= a for a, b in zip(ts, ts[1:])):
                probs.append(f"timestamps not strictly increasing: {[(t - t0) // MIN for t in ts]}")
            tgt = [r for r in rows if int(r[0].const_value()) == t0 + k * MIN]
            if absent:
                if tgt:
                    probs.append("a candle older than everything stored was inserted")
            elif len(tgt) != 1:
                probs.append(f"{len(tgt)} stored candles carry the new candle's timestamp")
            elif not all(x.same(y) for x, y in zip(tgt[0], out.interp.cnd.items)):
                probs.append("the stored candle with that timestamp is not the new candle")
            others_ok = all(all(x.same(A(f"s{(int(r[0].const_value()) - t0) // MIN}_{j}")) for j, x in enumerate(r[1:], 1))
                            for r in rows if int(r[0].const_value()) != t0 + k * MIN)
            if not others_ok:
                probs.append("another stored candle was modified")
            if probs:
                rep.violation(rid, f"add_candle|{name}", f"add_candle case {name}: " + "; ".join(probs))
            rep.instance(rid, name, {"case": name, "stored_minutes": [(t - t0) // MIN for t in ts]})
    rep.floor(rid, 45)


def check_add_multiple(repo, rep):
    rid = "C20-R2b"
    rep.rule(rid, "CandlesState.add_multiple_1m_candles: empty / newer -> append the chunk; chunk overlapping the stored tail -> "
                  "overwrite the overlap and keep timestamps strictly increasing without duplicates; a chunk of older candles that "
                  "are all stored already replaces them")
    t0 = 1_600_000_000_000 // MIN * MIN
    # (name, stored rows, chunk first minute, chunk length)
    cases = [("empty", 0, 0, 3), ("newer", 3, 3, 3), ("same-chunk-again", 3, 0, 3), ("tail-overlap-full", 4, 2, 2),
             ("tail-overlap-partial", 4, 3, 3), ("overlap-longer-than-store", 2, 1, 3), ("overlap-whole-store", 2, 0, 4),
             # older candles that are all stored already (the chunk ends before the last stored candle): replaced, as add_candle does
             ("inner-chunk", 6, 2, 2), ("inner-single", 6, 4, 1), ("head-chunk", 6, 0, 3), ("inner-up-to-the-last-but-one", 6, 3, 2)]
    # ... and systematically: every store length up to 5, every chunk of 1..4 candles that starts inside or right after the
    # stored candles (the branches differ by how many of the chunk's candles are stored already: none, some, all but one, all)
    seen = {(n, first, m) for _, n, first, m in cases}
    for n in range(0, 6):
        for first in range(0, n + 1):
            for m in range(1, 5):
                if (n, first, m) not in seen:
                    cases.append((f"stored={n},chunk=[{first},{first + m})", n, first, m))
    for name, n, first, m in cases:
        def mk(dec):
            it = Interp(repo, stubs=W.base_stubs(), decisions=dec)
            cs = make_store(repo, it, n, t0)
            chunk = Arr2([Arr([num(t0 + (first + i) * MIN)] + [A(f"n{i}_{j}") for j in range(1, 6)]) for i in range(m)])
            return it, lambda it: it.call(it.getattr(cs, "add_multiple_1m_candles"), [chunk, "Sandbox", "BTC-USDT"], {})
        for out in explore(mk, 32):
            if out.kind != "return":
                rep.violation(rid, f"add_multiple|{name}|raises", f"add_multiple_1m_candles raises {out.value} in case {name}")
                continue
            rows = stored(out.interp)
            ts = [(int(r[0].const_value()) - t0) // MIN for r in rows]
            exp = sorted(set(range(n)) | set(range(first, first + m)))
            probs = []
            if ts != exp:
                probs.append(f"stored minutes {ts}, expected {exp}")
            else:
                for r, mnt in zip(rows, ts):
                    if first <= mnt < first + m:
                        if not all(x.same(A(f"n{mnt - first}_{j}")) for j, x in enumerate(r[1:], 1)):
                            probs.append(f"minute {mnt} does not hold the chunk's candle")
            if probs:
                rep.violation(rid, f"add_multiple|{name}", f"add_multiple_1m_candles case {name}: " + "; ".join(probs))
            rep.instance(rid, name, {"case": name, "stored_minutes": ts})
    rep.floor(rid, 60)


# ------------------------------------------------------------------ validation in research.backtest
def check_validation(repo, rep):
    rid = "C20-R3"
    rep.rule(rid, "research.backtest: the 60000 ms spacing test on the leading candles of every candle set, and its raise, "
                  "precede the call to the simulator on every path")
    fn = repo.func(RESEARCH, "_isolated_backtest")
    tests = []
    for n in ast.walk(fn):
        if not isinstance(n, ast.If):
            continue
        # the spacing comparison itself, possibly conjoined with a guard that there are at least two candles to compare
        conj = n.test.values if isinstance(n.test, ast.BoolOp) and isinstance(n.test.op, ast.And) else [n.test]
        cands = [c for c in conj if isinstance(c, ast.Compare) and len(c.ops) == 1 and any(isinstance(x, ast.Constant) and x.value == MIN for x in [c.left, c.comparators[0]])]
        others = [c for c in conj if c not in cands]
        if len(cands) != 1 or any(not (isinstance(c, ast.Compare) and norm(c.left).startswith("len(") and norm(c) in (f"{norm(c.left)} > 1", f"{norm(c.left)} >= 2")) for c in others):
            continue
        if True:
            t = cands[0]
            sides = [t.left, t.comparators[0]]
            cst = [s for s in sides if isinstance(s, ast.Constant) and s.value == MIN]
            dif = [s for s in sides if isinstance(s, ast.BinOp) and isinstance(s.op, ast.Sub)]
            if cst and dif and any(isinstance(x, ast.Raise) for b in n.body for x in ast.walk(b)):
                tests.append((n, dif[0], t.ops[0]))
    if not tests:
        rep.violation(rid, "spacing-check|missing", "_isolated_backtest does not reject candle input whose leading candles are not 60000 ms apart")
        return
    node, dif, op = tests[0]
    l, r = norm(dif.left), norm(dif.right)
    ok_form = isinstance(op, ast.NotEq) and l.endswith("[1][0]") and r.endswith("[0][0]") and l[:-6] == r[:-6]
    if not ok_form:
        rep.violation(rid, "spacing-check|form", f"spacing test is `{norm(node.test)}`, expected (second.timestamp - first.timestamp) != 60000")
    rep.instance(rid, "form", {"test": norm(node.test)})
    # the check loops over all candle sets and precedes the simulator
    cfg = Cfg(call=lambda label, n: ("call", "simulator") if SL.last(label) == "simulator" else None,
              guard=lambda t: "spacing" if t is node.test else None, loop=lambda n: "sets" if isinstance(n, ast.For) and "candles" in norm(n.iter) and "items" in norm(n.iter) else None,
              loop_unroll=1)
    cnt = 0
    for evs, ex in Tracer(repo, cfg).block(fn.body, (repo.module(RESEARCH), None), 0):
        names = [e for e in evs if e[0] in ("call", "guard", "iter")]
        if ("call", "simulator") in names:
            i_sim = names.index(("call", "simulator"))
            before = names[:i_sim]
            if ("iter", "sets") in before and ("guard", "spacing", False) not in before:
                rep.violation(rid, "spacing-check|order", "a path reaches the simulator with a candle set that did not pass the spacing test")
            if ("iter", "sets") not in before and not any(e[0] == "guard" for e in before):
                pass   # zero candle sets
            if ("guard", "spacing", True) in before:
                rep.violation(rid, "spacing-check|order", "a path reaches the simulator after a failed spacing test")
            cnt += 1
            rep.instance(rid, "path|" + " ".join(str(e[1:]) for e in names))
    loopnode = [n for n in ast.walk(fn) if isinstance(n, ast.For) and any(x is node for x in ast.walk(n))]
    if not loopnode or "candles" not in norm(loopnode[0].iter):
        rep.violation(rid, "spacing-check|all-sets", "the spacing test is not applied to every candle set of the `candles` argument")
    # the warm-up candles are input as well: they are injected into the same 1m store and every larger timeframe is built from them
    covered_warm = any(isinstance(n, ast.For) and "warmup_candles" in norm(n.iter) and any(x is t[0] for t in tests for x in ast.walk(n)) for n in ast.walk(fn))
    if not covered_warm:
        rep.violation(rid, "spacing-check|warmup", "_isolated_backtest applies the 60000 ms spacing test to the trading candles only: `warmup_candles` that are not one minute apart are "
                                                   "accepted and injected into the 1m store (every larger timeframe built from them is then mis-spaced)")
    rep.instance(rid, "warmup-candles", {"spacing_test_covers_warmup_candles": covered_warm})
    if cnt == 0:
        raise AnalysisError("_isolated_backtest: no path to simulator() found")
    rep.floor(rid, 2)


def run(repo: Repo, rep, tier: str):
    rep.exhaustive = True
    rep.assume("candle values are symbolic, timestamps concrete multiples of 60000; backtest mode")
    rep.guarded(check_fill, repo, rep, tier)
    rep.guarded(check_add_candle, repo, rep)
    rep.guarded(check_add_multiple, repo, rep)
    rep.guarded(check_validation, repo, rep)
    rep.undecided_item("spacing beyond the first two input candles (the code checks only those, as the property says)")
    rep.undecided_item("adding an older candle whose timestamp is not stored (unspecified by the property)")


CLAIM = {
    "engine": "absint+traces",
    "technique": "abstract interpretation of _fill_absent_candles over all presence patterns (symbolic candle values) and of CandlesState.add_candle / add_multiple_1m_candles on the repository's DynamicNumpyArray; trace rules for the fill loop and the spacing validation",
    "text": "Static. _fill_absent_candles is interpreted for every present/missing pattern of intervals up to 4 (thorough: 6) minutes "
            "with symbolic candle values: one candle per minute, strictly increasing timestamps, provided candles unchanged, flat "
            "zero-volume fills at the previous close / first open; a trace rule shows every loop iteration appends once and advances "
            "the clock by 60000 once, which extends the result to any length. add_candle and add_multiple_1m_candles are interpreted "
            "on /repo's own DynamicNumpyArray for the empty / newer / same / older-stored / older-unknown cases on stores of 2..26 "
            "candles (every look-back position): append vs replace-in-place vs ignore, no duplicate timestamps, order preserved. The spacing validation in research.backtest precedes the simulator for every candle set. add_candle is also interpreted on stores with missing minutes (strictly increasing, not evenly spaced). _fill_absent_candles is also interpreted on batches that run past the requested interval.",
    "note": "Trusted: interpreter semantics incl. numpy table model; pydash.find modelled as first match.",
}
