"""C06 - position events and the trade log are a faithful record of the fills."""
from __future__ import annotations

import ast
import itertools
from fractions import Fraction as F

from vlib.absint import Interp, Obj, Arr, FuncV, ClassV, explore, R, num, Unknown, NotInFragment, BoundBuiltin
from vlib.loader import Repo, AnalysisError, norm
from vlib import world as W
from vlib.traces import Tracer, Cfg, make_inliner, RAISE
from vlib import simloops as SL

STRAT = "jesse/strategies/Strategy.py"
POSITION = "jesse/models/Position.py"
FUT = "jesse/models/FuturesExchange.py"
TRADES = "jesse/store/state_completed_trades.py"
CT = "jesse/models/ClosedTrade.py"
DNA = "jesse/libs/dynamic_numpy_array/__init__.py"
SYM = "BTC-USDT"


def A(n):
    return R.atom(n)


# ------------------------------------------------------------------ R1 effect classification
def check_effect_dispatch(repo, rep):
    rid = "C06-R1"
    rep.rule(rid, "Strategy._on_updated_position: for every sign/magnitude arrangement of (size before, size after) exactly "
                  "one internal handler runs and it is the matching one: opening <=> |before| = 0 < |after|, closing <=> "
                  "|before| > 0 = |after|, else increased <=> |after| > |before|, else reduced")
    vals = [F(-2), F(-1), F(0), F(1), F(2)]
    seen = set()
    for b, a in itertools.product(vals, vals):
        if a == b:
            continue    # a fill always changes the size
        cell = ((b > 0) - (b < 0), (a > 0) - (a < 0), (abs(a) > abs(b)) - (abs(a) < abs(b)))
        if cell in seen:
            continue
        seen.add(cell)
        samples = [{"b": b * k, "a": a * k} for k in (F(1), F(3), F(1, 2))]
        if abs(b) == 0 and abs(a) > 0:
            exp = "_on_open_position"
        elif abs(b) > 0 and abs(a) == 0:
            exp = "_on_close_position"
        elif abs(a) > abs(b):
            exp = "_on_increased_position"
        else:
            exp = "_on_reduced_position"

        def selfobj(it):
            ex = Obj("Exchange", name="exchange", attrs={"type": "futures"}, open_world=True)
            pos = W.obj_of(repo, POSITION, "Position", "position", {"qty": A("a"), "previous_qty": A("b"), "exchange": ex,
                                                                    "entry_price": A("E"), "symbol": SYM})
            st = W.obj_of(repo, STRAT, "Strategy", "strategy", {"position": pos, "symbol": SYM, "_is_handling_updated_order": False})
            for h in ("_on_open_position", "_on_close_position", "_on_increased_position", "_on_reduced_position"):
                W.bind(st, h, (lambda hh: (lambda i, aa, k: i.event("handler", hh)))(h))
            W.bind(st, "_handle_executed_order_for_chart", lambda i, aa, k: None)
            it.st = st
            return st
        buy = W.enum_value(repo, "sides", "BUY")
        outs = W.run_function(repo, STRAT, "Strategy._on_updated_position",
                              lambda it: ([W.make_order(repo, "O", buy, "LIMIT", A("q"), A("p"))], {}),
                              self_obj_factory=selfobj, samples=samples)
        key = f"before={b} after={a}"
        for out in outs:
            got = [e[1] for e in out.events if e[0] == "handler"]
            if out.kind != "return" or got != [exp]:
                rep.violation(rid, f"dispatch|{exp}", f"_on_updated_position with size {b} -> {a} runs {got} (expected exactly [{exp}])", {"case": key})
            flag = out.interp.st.attrs.get("_is_handling_updated_order")
            if flag is not False:
                rep.violation(rid, "dispatch|handling-flag", f"_is_handling_updated_order left {flag!r} after the dispatch")
            rep.instance(rid, key, {"before": str(b), "after": str(a), "handler": got})
    # a flip: Position._on_executed_order delivers the SAME order twice to the same strategy object - once for the close (size
    # P -> 0), once for the opening of the opposite side (0 -> -r).  Both deliveries must be dispatched (what the first one leaves
    # behind - chart markers, flags - must not swallow the second)
    for sg in (1, -1):
        def mk(dec, sg=sg):
            it = Interp(repo, stubs=W.base_stubs(), samples=[{"P": F(2), "r": F(1), "E": F(10), "q": F(3), "p": F(11)}], nonneg={"P", "r", "E", "q", "p"}, decisions=dec)
            ex = Obj("Exchange", name="exchange", attrs={"type": "futures"}, open_world=True)
            pos = W.obj_of(repo, POSITION, "Position", "position", {"qty": num(0), "previous_qty": R.const(sg) * A("P"), "exchange": ex, "entry_price": A("E"), "symbol": SYM})
            st = W.obj_of(repo, STRAT, "Strategy", "strategy", {"position": pos, "symbol": SYM, "_is_handling_updated_order": False, "_executed_orders": []})
            for h in ("_on_open_position", "_on_close_position", "_on_increased_position", "_on_reduced_position"):
                W.bind(st, h, (lambda hh: (lambda i, aa, k: i.event("handler", hh)))(h))
            W.bind(st, "_handle_executed_order_for_chart", lambda i, aa, k: st.attrs["_executed_orders"].append({"order_id": i.getattr(aa[0], "id")}))
            side = W.enum_value(repo, "sides", "SELL" if sg > 0 else "BUY")
            o = W.make_order(repo, "O", side, "LIMIT", R.const(-sg) * A("q"), A("p"))

            def go(it):
                it.call(it.getattr(st, "_on_updated_position"), [o], {})
                pos.attrs["previous_qty"] = num(0)
                pos.attrs["qty"] = R.const(-sg) * A("r")
                it.call(it.getattr(st, "_on_updated_position"), [o], {})
            return it, go
        for out in explore(mk, 32):
            got = [e[1] for e in out.events if e[0] == "handler"]
            if out.kind != "return" or got != ["_on_close_position", "_on_open_position"]:
                rep.violation(rid, "dispatch|flip", f"a flipping order delivered twice to _on_updated_position (size {'P' if sg > 0 else '-P'} -> 0, then 0 -> {'-r' if sg > 0 else 'r'}) runs {got}, "
                                                     f"expected [_on_close_position, _on_open_position]" + (f" ({out.value})" if out.kind != "return" else ""))
            rep.instance(rid, f"flip|{'long' if sg > 0 else 'short'}", {"handlers": got})
    rep.floor(rid, 12)


# ------------------------------------------------------------------ R2 internal handler -> user hook
def check_hooks(repo, rep):
    rid = "C06-R2"
    rep.rule(rid, "each internal handler calls exactly its own user hook exactly once on every non-raising path "
                  "(on_open_position / on_close_position / on_increased_position / on_reduced_position), and "
                  "Position._on_executed_order notifies the strategy after every change of the position and before the next one (an order "
                  "that flips the position closes one trade and opens another: two notifications)")
    smod = repo.module(STRAT)
    scls = repo.cls(STRAT, "Strategy")
    hooks = {"_on_open_position": "on_open_position", "_on_close_position": "on_close_position",
             "_on_increased_position": "on_increased_position", "_on_reduced_position": "on_reduced_position"}
    allhooks = set(hooks.values())
    for internal, user in hooks.items():
        fn = repo.func(STRAT, f"Strategy.{internal}")
        cfg = Cfg(call=lambda label, node: ("call", SL.last(label)) if SL.last(label) in allhooks | {"_execute_cancel"} else None,
                  loop_unroll=1)
        for evs, ex in Tracer(repo, cfg).block(fn.body, (smod, scls), 0):
            if ex == RAISE:
                continue
            got = [e[1] for e in evs if e[0] == "call" and e[1] in allhooks]
            if got != [user]:
                rep.violation(rid, f"{internal}|hook", f"Strategy.{internal} calls user hooks {got} on a path (expected exactly [{user}])")
            rep.instance(rid, f"{internal}|{' '.join(got)}")
    # Position._on_executed_order: strategy notification exactly once, after the mutators
    pmod = repo.module(POSITION)
    pcls = repo.cls(POSITION, "Position")
    fn = repo.func(POSITION, "Position._on_executed_order")
    keep = {"_on_updated_position", "_mutating_open", "_mutating_close", "_mutating_increase", "_mutating_reduce"}
    cfg = Cfg(call=lambda label, node: ("call", SL.last(label)) if SL.last(label) in keep else None,
              guard=lambda t: "strategy" if norm(t) == "self.strategy" else ("live" if "is_livetrading" in norm(t) else None), loop_unroll=1)
    n = 0
    for evs, ex in Tracer(repo, cfg).block(fn.body, (pmod, pcls), 0):
        if ex == RAISE:
            continue
        if any(e[0] == "guard" and e[1] == "live" and e[2] for e in evs):
            continue            # the live-trading branches (position kept in step with the exchange's stream) are out of scope
        outcomes = {e[2] for e in evs if e[0] == "guard" and e[1] == "strategy"}
        if len(outcomes) > 1:
            continue            # the strategy is either attached or not: mixed answers on one path are infeasible
        nm = [e[1] for e in evs if e[0] == "call"]
        present = outcomes == {True}
        if present:
            # every change of the position is an event the strategy is told about before the next one happens: an order that flips
            # the position closes one trade and opens another - two events, two notifications
            bad = None
            for i, x in enumerate(nm):
                if x.startswith("_mutating_") and (i + 1 >= len(nm) or nm[i + 1] != "_on_updated_position"):
                    bad = f"`{x}` is not followed by the notification of the strategy"
                if x == "_on_updated_position" and (i == 0 or not nm[i - 1].startswith("_mutating_")) and any(y.startswith("_mutating_") for y in nm):
                    bad = "the strategy is notified without a change of the position before it"
            if bad:
                rep.violation(rid, "_on_executed_order|notify", f"Position._on_executed_order: {bad} on the path {nm}")
        elif "_on_updated_position" in nm:
            rep.violation(rid, "_on_executed_order|notify", f"Position._on_executed_order notifies a strategy that is not attached: {nm}")
        n += 1
        rep.instance(rid, f"_on_executed_order|{'S' if present else '-'}|{' '.join(nm)}")
    rep.floor(rid, 8)


# ------------------------------------------------------------------ R3/R4: whole cycles, symbolic
class Clock:
    def __init__(self):
        self.n = 0

    def __call__(self, it, a, k):
        return A(f"t{self.n}")


def trade_ctor(repo, counter):
    dna_mod, dna_cls = repo.module(DNA), repo.cls(DNA, "DynamicNumpyArray")
    ct_mod, ct_cls = repo.module(CT), repo.cls(CT, "ClosedTrade")

    def ctor(it: Interp, args, kw):
        counter[0] += 1
        t = Obj("ClosedTrade", ct_mod, ct_cls, name=f"trade#{counter[0]}", attrs={
            "id": None, "strategy_name": None, "symbol": None, "exchange": None, "type": None, "timeframe": None,
            "opened_at": None, "closed_at": None, "leverage": None, "orders": [],
            "buy_orders": it.instantiate(ClassV(dna_cls, dna_mod), [(num(10), num(2))], {}),
            "sell_orders": it.instantiate(ClassV(dna_cls, dna_mod), [(num(10), num(2))], {})})
        return t
    return ctor


def build_cycle_world(repo, it: Interp, clock: Clock):
    ex = W.obj_of(repo, FUT, "FuturesExchange", "exchange", {
        "name": "Sandbox", "type": "futures", "fee_rate": A("f"), "settlement_currency": "USDT",
        "assets": {"USDT": A("Wt"), "BTC": num(0)}, "temp_reduced_amount": {"BTC": num(0), "USDT": num(0)},
        "available_assets": {"BTC": num(0), "USDT": A("Wt")},
        "futures_leverage": A("lev"), "futures_leverage_mode": "cross"})
    dna_mod, dna_cls = repo.module(DNA), repo.cls(DNA, "DynamicNumpyArray")
    ex.attrs["buy_orders"] = {"BTC": it.instantiate(ClassV(dna_cls, dna_mod), [(num(10), num(2))], {})}
    ex.attrs["sell_orders"] = {"BTC": it.instantiate(ClassV(dna_cls, dna_mod), [(num(10), num(2))], {})}
    strat = Obj("Strategy", name="strategy", attrs={"leverage": A("lev"), "timeframe": "1m", "name": "S", "trades_count": num(0)}, open_world=True)
    hooks = []
    pos = W.obj_of(repo, POSITION, "Position", "position", {
        "qty": num(0), "previous_qty": num(0), "entry_price": None, "exit_price": None, "current_price": A("cp"),
        "opened_at": None, "closed_at": None, "exchange": ex, "exchange_name": "Sandbox", "symbol": SYM, "strategy": strat, "id": "pos"})
    W.bind(strat, "_on_updated_position", lambda i, a, k: i.event("strategy_hook", pos.attrs["previous_qty"], pos.attrs["qty"]))
    trades = W.obj_of(repo, TRADES, "ClosedTrades", "store.completed_trades", {"trades": [], "tempt_trades": {}})
    it.overrides[f"{W.STORE}:store"] = Obj("StoreClass", name="store", attrs={"completed_trades": trades}, open_world=True)
    it.overrides["jesse/config.py:config"] = {"env": {"exchanges": {"Sandbox": {"fee": A("f")}}}, "app": {}}
    it.stubs[f"{W.SELECTORS}:get_exchange"] = lambda i, a, k: ex
    it.stubs[f"{W.SELECTORS}:get_position"] = lambda i, a, k: pos
    it.stubs[f"{W.HELPERS}:get_config"] = lambda i, a, k: A("f")
    it.stubs[f"{W.HELPERS}:now_to_timestamp"] = clock
    it.stubs[f"{W.HELPERS}:generate_unique_id"] = (lambda c: (lambda i, a, k: c.__setitem__(0, c[0] + 1) or f"id{c[0]}"))([0])
    it.stubs[f"{CT}:ClosedTrade"] = trade_ctor(repo, [0])
    it.stubs["jesse/models/utils.py:*"] = lambda i, a, k: None
    it.w = {"ex": ex, "pos": pos, "trades": trades, "strat": strat}
    return it.w


CYCLES = {
    # name: (fills [(side, qty R, price atom, reduce_only)], expected trade type)
    "long: open, increase, partial take-profit, close": ([("buy", "q1", "p1", False), ("buy", "q2", "p2", False),
                                                           ("sell", "r1", "x1", True), ("sell", "REST", "x2", True)], "long"),
    "short: open, increase, partial reduce, close": ([("sell", "q1", "p1", False), ("sell", "q2", "p2", False),
                                                       ("buy", "r1", "x1", True), ("buy", "REST", "x2", True)], "short"),
    "long: open, close by oversize reduce-only stop": ([("buy", "q1", "p1", False), ("sell", "BIG", "x1", True)], "long"),
    "long: open, close with one market order": ([("buy", "q1", "p1", False), ("sell", "ALL1", "x1", False)], "long"),
    "long: open, partial take-profit, oversize (full-size) reduce-only stop": ([("buy", "q1", "p1", False), ("sell", "r1", "x1", True), ("sell", "ALL1", "x2", True)], "long"),
    # the mirrored cycles: the clamp of an oversize exit must not depend on the side
    "short: open, close by oversize reduce-only stop": ([("sell", "q1", "p1", False), ("buy", "BIG", "x1", True)], "short"),
    "short: open, close with one market order": ([("sell", "q1", "p1", False), ("buy", "ALL1", "x1", False)], "short"),
    "short: open, partial take-profit, oversize (full-size) reduce-only stop": ([("sell", "q1", "p1", False), ("buy", "r1", "x1", True), ("buy", "ALL1", "x2", True)], "short"),
}
SAMPLE = {"q1": F(2), "q2": F(1), "r1": F(1), "p1": F(10), "p2": F(12), "x1": F(13), "x2": F(9), "f": F(1, 100),
          "Wt": F(1000), "lev": F(2), "cp": F(11), "t0": F(0), "t1": F(60000), "t2": F(120000), "t3": F(180000), "t4": F(240000), "big": F(5)}


def _qty(name):
    if name == "REST":
        return A("q1") + A("q2") - A("r1")
    if name == "ALL1":
        return A("q1")
    if name == "BIG":
        return A("q1") + A("big")
    return A(name)


def check_cycles(repo, rep):
    rid = "C06-R3"
    rep.rule(rid, "whole position cycles interpreted end to end (Order.execute -> trade record -> futures ledger -> position "
                  "-> trade open/close): exactly one closed trade per cycle whose side, quantity, quantity-weighted entry and "
                  "exit, open/close times and order list are those of the cycle's fills, and whose net PnL (profit minus "
                  "fees) equals the wallet change - as polynomial identities in all quantities, prices and the fee")
    sides = {"buy": W.enum_value(repo, "sides", "BUY"), "sell": W.enum_value(repo, "sides", "SELL")}
    limit = W.enum_value(repo, "order_types", "LIMIT")
    active = W.enum_value(repo, "order_statuses", "ACTIVE")
    for cname, (fills, ttype) in CYCLES.items():
        clock = Clock()

        def mk(dec):
            clock.n = 0
            it = Interp(repo, stubs=W.base_stubs(), samples=[dict(SAMPLE), {k: v * 3 if k[0] in "qr" else v for k, v in SAMPLE.items()}],
                        nonneg={"q1", "q2", "r1", "p1", "p2", "x1", "x2", "f", "Wt", "lev", "cp", "big"}, decisions=dec)
            w = build_cycle_world(repo, it, clock)
            orders = []
            for i, (side, qn, pn, ro) in enumerate(fills):
                q = _qty(qn)
                orders.append(W.make_order(repo, f"F{i}", sides[side], limit, q if side == "buy" else -q, A(pn), reduce_only=ro,
                                           status=active, symbol=SYM))
            it.w["orders"] = orders

            def thunk(it):
                for i, o in enumerate(orders):
                    clock.n = i + 1
                    it.event("fill", o.name)
                    it.call(it.getattr(o, "execute"), [], {})
            return it, thunk
        for out in explore(mk, 64):
            key = cname
            if out.kind != "return":
                rep.violation(rid, f"{key}|raises", f"cycle '{cname}' raises {out.value}")
                continue
            w = out.interp.w
            it = out.interp
            closed = w["trades"].attrs["trades"]
            probs = []
            if len(closed) != 1:
                probs.append(f"{len(closed)} closed trades (expected 1)")
            else:
                t = closed[0]
                entry_side = "buy" if ttype == "long" else "sell"
                ent = [(q, p) for (s, q, p, ro) in fills if s == entry_side]
                exi = [(q, p) for (s, q, p, ro) in fills if s != entry_side]
                Q = sum((_qty(q) for q, p in ent), num(0))
                QX = sum((_qty(q) for q, p in exi), num(0))
                e_exp = sum((_qty(q) * A(p) for q, p in ent), num(0)) / Q
                x_exp = sum((_qty(q) * A(p) for q, p in exi), num(0)) / QX
                if t.attrs.get("type") != ttype:
                    probs.append(f"trade type {t.attrs.get('type')!r}")
                tq = it.getattr(t, "qty")
                te = it.getattr(t, "entry_price")
                tx = it.getattr(t, "exit_price")
                if not (isinstance(tq, R) and tq.same(Q)):
                    probs.append(f"trade qty {tq!r} != sum of entry fills {Q!r}")
                if not (isinstance(te, R) and te.same(e_exp)):
                    probs.append(f"trade entry {te!r} != quantity-weighted entry {e_exp!r}")
                if "oversize" not in cname and not (isinstance(tx, R) and tx.same(x_exp)):
                    probs.append(f"trade exit {tx!r} != quantity-weighted exit {x_exp!r}")
                if [o.name for o in t.attrs["orders"]] != [f"F{i}" for i in range(len(fills))]:
                    probs.append(f"trade order list {[o.name for o in t.attrs['orders']]}")
                oa, ca = t.attrs.get("opened_at"), t.attrs.get("closed_at")
                if not (isinstance(oa, R) and oa.same(A("t1"))):
                    probs.append(f"opened_at {oa!r} is not the time of the opening fill")
                if not (isinstance(ca, R) and ca.same(A(f"t{len(fills)}"))):
                    probs.append(f"closed_at {ca!r} is not the time of the closing fill")
                # net PnL of the trade == wallet change (only when exits do not exceed the position: reduce-only oversize closes at position size)
                dw = w["ex"].attrs["assets"]["USDT"] - A("Wt")
                pnl = it.getattr(t, "pnl")
                if "oversize" not in cname:
                    if not (isinstance(pnl, R) and pnl.same(dw)):
                        probs.append(f"trade net PnL {pnl!r} != wallet change {dw!r}")
                elif not (isinstance(pnl, R) and pnl.same(dw)):
                    rep.violation("C06-R3o", "oversize-reduce-only|trade-log",
                                  f"cycle '{cname}': the reduce-only exit is larger than the remaining position; the trade log books the whole order "
                                  f"quantity as exit (trade exit {tx!r}, net PnL {pnl!r}) although only the remaining size was closed (wallet change {dw!r})")
                fee = it.getattr(t, "fee")
                fee_exp = A("f") * Q * (e_exp + x_exp)
                if "oversize" not in cname and not (isinstance(fee, R) and fee.same(fee_exp)):
                    probs.append(f"trade fee {fee!r} != fee*qty*(entry+exit)")
            hk = [(e[1], e[2]) for e in out.events if e[0] == "strategy_hook"]
            if len(hk) != len(fills):
                probs.append(f"{len(hk)} strategy notifications for {len(fills)} fills")
            pq = w["pos"].attrs["qty"]
            if not (isinstance(pq, R) and pq.is_const() and pq.const_value() == 0):
                probs.append(f"position size after the cycle is {pq!r}")
            cur = w["trades"].attrs["tempt_trades"].get("Sandbox-BTC-USDT")
            if cur is not None and cur.attrs.get("opened_at") is not None:
                probs.append("the current-trade slot is not reset after the close")
            if probs:
                rep.violation(rid, key, f"cycle '{cname}': " + "; ".join(probs))
            rep.instance(rid, key + str(out.conds), {"cycle": cname, "closed_trades": len(closed), "notifications": [(repr(a), repr(b)) for a, b in hk]})
    rep.floor(rid, 4)


def check_flip(repo, rep):
    rid = "C06-R3f"
    rep.rule(rid, "position flip (one oversized non-reduce-only fill): the old cycle is closed and reported, the new cycle is "
                  "opened and reported, and the new trade's entry is the flipped remainder")
    sides = {"buy": W.enum_value(repo, "sides", "BUY"), "sell": W.enum_value(repo, "sides", "SELL")}
    limit = W.enum_value(repo, "order_types", "LIMIT")
    active = W.enum_value(repo, "order_statuses", "ACTIVE")
    clock = Clock()

    def mk(dec):
        clock.n = 0
        it = Interp(repo, stubs=W.base_stubs(), samples=[dict(SAMPLE)], nonneg={"q1", "big", "p1", "x1", "f", "Wt", "lev", "cp"}, decisions=dec)
        w = build_cycle_world(repo, it, clock)
        o1 = W.make_order(repo, "F0", sides["buy"], limit, A("q1"), A("p1"), status=active, symbol=SYM)
        o2 = W.make_order(repo, "F1", sides["sell"], limit, -(A("q1") + A("big")), A("x1"), status=active, symbol=SYM)

        def thunk(it):
            for i, o in enumerate((o1, o2)):
                clock.n = i + 1
                it.call(it.getattr(o, "execute"), [], {})
        return it, thunk
    for out in explore(mk, 32):
        if out.kind != "return":
            rep.violation(rid, "flip|raises", f"flip raises {out.value}")
            continue
        w, it = out.interp.w, out.interp
        hk = [(e[1], e[2]) for e in out.events if e[0] == "strategy_hook"]
        # reference: three reported changes: 0->q1 (open), q1->0 (close), 0->-big (open)
        reported = [(repr(a), repr(b)) for a, b in hk]
        if len(hk) != 3:
            rep.violation(rid, "flip|close-not-reported",
                          f"a flipping fill reports {len(hk) - 1} position change(s) to the strategy ({reported[1:]}): the close of the old "
                          f"cycle (q1 -> 0) is never reported, so on_close_position does not run for it")
        cur = w["trades"].attrs["tempt_trades"].get("Sandbox-BTC-USDT")
        if cur is not None:
            tq = it.getattr(cur, "qty")
            if not (isinstance(tq, R) and tq.same(A("big"))):
                rep.violation(rid, "flip|new-trade-entry",
                              f"after a flip the new (short) trade records entry quantity {tq!r} instead of the flipped remainder 'big': "
                              f"the whole flipping order is booked into the old trade")
            # the flipping order is the entry order of the new trade (and the exit order of the old one)
            ords = cur.attrs.get("orders") or []
            names = [getattr(o, "name", None) for o in ords]
            if "F1" not in names:
                rep.violation(rid, "flip|new-trade-order-list",
                              f"after a flip the order list of the new trade is {names}: the flipping order, which is its entry, is missing "
                              f"(the exports built from the order list show a trade without an entry order)")
        rep.instance(rid, "flip", {"reported": reported})
    rep.floor(rid, 1)


# ------------------------------------------------------------------ R5 forced close at session end
def check_terminate(repo, rep):
    rid = "C06-R5"
    rep.rule(rid, "Strategy._terminate with an open position submits exactly one reduce_position_at(position.qty, current "
                  "price, ...) (after cancelling resting orders in spot) and counts the open trade; both simulators flush "
                  "market orders after each _terminate (C02-R6)")
    for etype in ("futures", "spot"):
        for is_open in (True, False):
            def selfobj(it):
                ex = Obj("Exchange", name="exchange", attrs={"type": etype}, open_world=True)
                pos = W.obj_of(repo, POSITION, "Position", "position", {"qty": A("P") if is_open else num(0), "previous_qty": num(0),
                                                                        "exchange": ex, "entry_price": A("E"), "current_price": A("cp"), "symbol": SYM,
                                                                        "strategy": None})
                broker = Obj("Broker", name="broker", attrs={})
                W.bind(broker, "reduce_position_at", lambda i, a, k: i.event("reduce_position_at", a[0], a[1]))
                W.bind(broker, "cancel_all_orders", lambda i, a, k: i.event("cancel_all"))
                st = W.obj_of(repo, STRAT, "Strategy", "strategy", {"position": pos, "symbol": SYM, "exchange": "Sandbox", "broker": broker,
                                                                    "timeframe": "1m"})
                for h in ("before_terminate", "terminate", "_detect_and_handle_entry_and_exit_modifications", "_execute_cancel"):
                    W.bind(st, h, (lambda hh: (lambda i, a, k: i.event("strat", hh)))(h))
                st.attrs["price"] = A("cp")
                st.attrs["entry_orders"] = []
                app = Obj("AppState", name="store.app", attrs={"total_open_trades": num(0), "total_open_pl": num(0)})
                orders = Obj("OrdersState", name="store.orders", attrs={})
                W.bind(orders, "execute_pending_market_orders", lambda i, a, k: i.event("flush"))
                it.overrides[f"{W.STORE}:store"] = Obj("StoreClass", name="store", attrs={"app": app, "orders": orders}, open_world=True)
                it.stubs[f"{W.SELECTORS}:get_exchange"] = lambda i, a, k: ex
                it.app = app
                return st
            outs = W.run_function(repo, STRAT, "Strategy._terminate", lambda it: ([], {}), self_obj_factory=selfobj,
                                  samples=[{"P": F(2), "E": F(10), "cp": F(11)}], nonneg={"P", "E", "cp"})
            for out in outs:
                key = f"_terminate|{etype}|{'open' if is_open else 'closed'}"
                red = [e for e in out.events if e[0] == "reduce_position_at"]
                if out.kind != "return":
                    rep.violation(rid, key + "|raises", f"{key}: raises {out.value}")
                    continue
                if is_open:
                    ok = len(red) == 1 and isinstance(red[0][1], R) and red[0][1].same(A("P")) and isinstance(red[0][2], R) and red[0][2].same(A("cp"))
                    if not ok:
                        rep.violation(rid, key + "|forced-close", f"{key}: forced close submits {[(repr(e[1]), repr(e[2])) for e in red]} (expected one order for the whole position at the current price)")
                    cnt = out.interp.app.attrs["total_open_trades"]
                    if not (isinstance(cnt, R) and cnt.is_const() and cnt.const_value() == 1):
                        rep.violation(rid, key + "|count", f"{key}: total_open_trades becomes {cnt!r}")
                    if etype == "spot":
                        ev = [e[0] for e in out.events if e[0] in ("cancel_all", "reduce_position_at")]
                        if ev != ["cancel_all", "reduce_position_at"]:
                            rep.violation(rid, key + "|spot-cancel-first", f"{key}: resting orders are not cancelled before the forced close: {ev}")
                elif red:
                    rep.violation(rid, key + "|spurious", f"{key}: a closing order is submitted without an open position")
                rep.instance(rid, key, {"events": [e[0] if e[0] != "strat" else e[1] for e in out.events if e[0] in ("reduce_position_at", "cancel_all", "flush", "strat")]})
    rep.floor(rid, 4)


def run(repo: Repo, rep, tier: str):
    from vlib import memo
    rep.guarded(memo.check, repo, rep, "C06-R8", [("jesse/models/ClosedTrade.py", "ClosedTrade"), ("jesse/store/state_completed_trades.py", "ClosedTrades")], "trade records")
    rep.exhaustive = True
    rep.assume("backtest mode; exact arithmetic; time stamps are symbolic per fill")
    rep.guarded(check_effect_dispatch, repo, rep)
    rep.guarded(check_hooks, repo, rep)
    rep.guarded(check_cycles, repo, rep)
    rep.guarded(check_flip, repo, rep)
    rep.guarded(check_terminate, repo, rep)
    from props.c04 import check_update_qty_decimal
    rep.rule("C06-R6", "position size arithmetic uses the exact-decimal helpers consistently with the closing test (no binary float += / -)")
    rep.guarded(check_update_qty_decimal, repo, rep, "C06-R6")
    # the trade's open / close times are the clock values at its fills (Order.execute stamps store.app.time): the simulators must have
    # set the clock to the end of the fill minute before they execute an order - the fast matcher per fill, the normal one per minute
    from props.c12 import check_fast_time
    from props import sessions as S
    # the wallet side of "net PnL of the closed trades == change of the wallet": every fill - a flip included - charges the fee on what
    # it fills (shared with C03-R1: the reference margin account)
    from props.c03 import check_fills
    rep.guarded(check_fills, repo, rep, "C06-R9")
    rep.guarded(check_fast_time, repo, rep, "C06-R7")
    rep.rule("C06-R7n", "mini sessions (props/sessions.py): the normal simulator has advanced the clock to the end of a minute before it stores and "
                        "matches it, so every fill - and the trade times taken from it - carries the end of its own minute")
    rep.guarded(S.check_cover, repo, rep, "C06-R7n", clock=True)
    rep.undecided_item("cycles longer than the four enumerated shapes (the per-fill effect summaries of C03 are state independent, so longer cycles compose)")


CLAIM = {
    "engine": "absint+traces",
    "technique": "abstract interpretation of whole position cycles (Order.execute -> ClosedTrades -> FuturesExchange -> Position) with symbolic fills; polynomial identities for trade qty/entry/exit/PnL vs wallet change; trace rules for hook dispatch",
    "text": "Static. (1) Strategy._on_updated_position is interpreted for every sign/magnitude arrangement of (size before, after): "
            "exactly the matching internal handler runs; each internal handler calls exactly its user hook once on every path. "
            "(2) Whole cycles (long and short: open, increase, partial exit, close; oversize reduce-only close; market close) are "
            "interpreted end to end from /repo's Order.execute through the real ClosedTrades / ClosedTrade / DynamicNumpyArray / "
            "FuturesExchange / Position code with symbolic quantities and prices: one closed trade, its qty / weighted entry / "
            "weighted exit / order list / open-close times are those of the fills, and trade net PnL == wallet change and trade fee "
            "== fee*qty*(entry+exit) as polynomial identities. (3) _terminate force-closes an open position with one order for the "
            "whole size at the current price. Position flips are analysed separately (see known findings). Trade open / close times: the simulators set the clock to the end of the fill minute before every execution (fast matcher per fill, normal simulator per minute; R7 / R7n). The two deliveries of a flipping order to one strategy object are both dispatched (R1 flip).",
    "note": "Trusted: interpreter semantics, numpy table model, exact arithmetic; cycles are the four enumerated shapes.",
}
