"""C18 - the dynamic array behaves like a growing list of rows (index normalisation, clamping, length bookkeeping).

The methods of DynamicNumpyArray are interpreted from /repo's source with a
*symbolic logical length* n and an abstract backing array that records which
backing rows are read or written.  Index cells (None / negative / in range / past
the end, for item access and both slice bounds) are witnessed by a grid of
(n, index) points; the recorded backing access must denote exactly the rows the
plain-list model denotes.
"""
from __future__ import annotations

import itertools
from fractions import Fraction as F

from vlib.absint import Interp, Obj, Arr, Arr2, FuncV, BoundBuiltin, SliceV, explore, R, num, Unknown, NotInFragment, ExcV, _Raise
from vlib.loader import Repo, AnalysisError, norm
from vlib import world as W

DNA = "jesse/libs/dynamic_numpy_array/__init__.py"
CAP_EXTRA = 4      # backing capacity = n + CAP_EXTRA in the witnesses (unused zero rows after the logical end)


def A(n):
    return R.atom(n)


def sym_array(it: Interp):
    """abstract backing array: records reads/writes"""
    arr = Obj("ndarray", name="backing", attrs={})

    def getitem(i, a, k):
        key = a[0]
        if isinstance(key, SliceV):
            i.event("read_slice", key.start, key.stop)
            return Unknown("rows")
        i.event("read", key)
        return Unknown("row")

    def setitem(i, a, k):
        key = a[0]
        if isinstance(key, SliceV):
            i.event("write_slice", key.start, key.stop, a[1])
        else:
            i.event("write", key, a[1])
    arr.attrs["__getitem__"] = BoundBuiltin(getitem)
    arr.attrs["__setitem__"] = BoundBuiltin(setitem)
    arr.attrs["shape"] = (A("cap"), num(2))
    arr.attrs["__len__"] = BoundBuiltin(lambda i, a, k: A("cap"))
    return arr


def make_dna(repo, it: Interp, n_expr=None, drop_at=None):
    o = W.obj_of(repo, DNA, "DynamicNumpyArray", "dna", {
        "index": (n_expr if n_expr is not None else A("n")) - R.const(1), "array": sym_array(it), "bucket_size": A("bucket"),
        "shape": (A("bucket"), num(2)), "drop_at": drop_at})
    it.dna = o
    return o


def rows_of(cap, a, b):
    return list(range(cap))[slice(a, b)]


def val(it, x, s):
    if x is None:
        return None
    v = it.numeric(x, s)
    if v.denominator != 1:
        raise NotInFragment("non-integer index")
    return int(v)


IDX = list(range(-7, 8))
NS = [0, 1, 3, 5]


def check_item(repo, rep):
    rid = "C18-R1"
    rep.rule(rid, "item access: arr[i] / arr[i] = x with symbolic length n: for every cell of i (i < -n, -n <= i < 0, 0 <= i < n, i >= n; "
                  "witnessed on a grid) the backing row touched is i (or n + i) and IndexError is raised exactly outside [-n, n)")
    for method in ("__getitem__", "__setitem__"):
        samples = [{"n": F(n), "i": F(i), "bucket": F(10), "cap": F(n + CAP_EXTRA)} for n in NS for i in IDX]

        def mk(dec):
            it = Interp(repo, stubs=W.base_stubs(), samples=[dict(s) for s in samples], decisions=dec)
            d = make_dna(repo, it)
            args = [A("i")] + ([Arr([A("x0"), A("x1")])] if method == "__setitem__" else [])
            return it, lambda it: it.call(it.getattr(d, method), args, {})
        for out in explore(mk, 128):
            it = out.interp
            for s in it.samples:
                n, i = int(s["n"]), int(s["i"])
                valid = -n <= i < n
                key = f"{method}|n={n}|i={i}"
                if out.kind == "raise":
                    if valid or out.value.name != "IndexError":
                        rep.violation(rid, f"{method}|spurious-raise", f"{method}: index {i} on a length-{n} array raises {out.value.name} (a list accepts it)" if valid
                                      else f"{method}: index {i} on a length-{n} array raises {out.value.name}, expected IndexError")
                else:
                    ev = [e for e in out.events if e[0] in ("read", "write")]
                    if not valid:
                        rep.violation(rid, f"{method}|missing-raise", f"{method}: index {i} on a length-{n} array does not raise IndexError (touches backing row {ev})")
                    elif len(ev) != 1:
                        rep.violation(rid, f"{method}|access", f"{method}: index {i}, length {n}: {len(ev)} backing accesses")
                    else:
                        got = val(it, ev[0][1], s)
                        want = i if i >= 0 else n + i
                        if got != want:
                            rep.violation(rid, f"{method}|wrong-row", f"{method}: index {i} on a length-{n} array touches backing row {got}, the list model touches row {want}")
                rep.instance(rid, key, {"n": n, "i": i, "outcome": out.kind} if (n, i) in ((3, -1), (3, 2), (3, 3), (0, 0)) else None)
    rep.floor(rid, 100)


def check_slices(repo, rep):
    rid = "C18-R2"
    rep.rule(rid, "slice reads arr[s:e] with symbolic length n for every combination of None / negative / in-range / past-the-end "
                  "bounds (grid witnesses): the backing slice read denotes exactly the rows list(range(n))[s:e]; slice writes "
                  "arr[s:e] = rows (equal length, incl. arr[:] and tail overwrite arr[-k:]) write exactly those rows and never raise")
    bounds = [None] + IDX
    for skind, ekind in itertools.product(("none", "int"), repeat=2):
        samples = []
        for n in NS:
            for s in ([None] if skind == "none" else IDX):
                for e in ([None] if ekind == "none" else IDX):
                    samples.append({"n": F(n), "bucket": F(10), "cap": F(n + CAP_EXTRA), **({"s": F(s)} if s is not None else {}), **({"e": F(e)} if e is not None else {})})

        def mk(dec):
            it = Interp(repo, stubs=W.base_stubs(), samples=[dict(x) for x in samples], decisions=dec)
            d = make_dna(repo, it)
            sl = SliceV(A("s") if skind == "int" else None, A("e") if ekind == "int" else None)
            return it, lambda it: it.call(it.getattr(d, "__getitem__"), [sl], {})
        for out in explore(mk, 512):
            it = out.interp
            for smp in it.samples:
                n = int(smp["n"])
                s = int(smp["s"]) if "s" in smp else None
                e = int(smp["e"]) if "e" in smp else None
                want = list(range(n))[slice(s, e)]
                key = f"read|n={n}|[{s}:{e}]"
                if out.kind == "raise":
                    rep.violation(rid, "read-slice|raises", f"arr[{s}:{e}] on a length-{n} array raises {out.value.name}; the list model returns rows {want}")
                else:
                    ev = [x for x in out.events if x[0] == "read_slice"]
                    if len(ev) != 1:
                        rep.violation(rid, "read-slice|access", f"arr[{s}:{e}]: {len(ev)} backing slice reads")
                    else:
                        a, b = val(it, ev[0][1], smp), val(it, ev[0][2], smp)
                        got = rows_of(n + CAP_EXTRA, a, b)
                        if got != want:
                            kind = "negative-start" if (s is not None and s < 0) else ("negative-stop" if (e is not None and e < 0) else "bounds")
                            rep.violation(rid, f"read-slice|{kind}", f"arr[{s}:{e}] on a length-{n} array reads backing rows {got} (backing[{a}:{b}]); the list model returns rows {want}")
                rep.instance(rid, key, {"n": n, "slice": f"[{s}:{e}]", "rows": want} if (n, s, e) in ((3, -1, None), (3, None, None), (5, 1, -1), (3, 0, 7)) else None)
    # slice writes of equal length
    cases = []
    for n in (1, 3, 5):
        cases.append((n, None, None, n))          # arr[:] = rows
        for k in range(1, n + 1):
            cases.append((n, -k, None, k))        # tail overwrite
            cases.append((n, n - k, None, k))
            cases.append((n, 0, k, k))
            if k < n:
                cases.append((n, -k - 1, -1, k))  # negative stop
                cases.append((n, 1, 1 + k, k))
    seen = set()
    for n, s, e, k in cases:
        if (n, s, e, k) in seen:
            continue
        seen.add((n, s, e, k))
        smp = {"n": F(n), "bucket": F(10), "cap": F(n + CAP_EXTRA)}

        def mk(dec):
            it = Interp(repo, stubs=W.base_stubs(), samples=[dict(smp)], decisions=dec)
            d = make_dna(repo, it)
            item = Arr2([Arr([A(f"r{j}a"), A(f"r{j}b")]) for j in range(k)])
            sl = SliceV(num(s) if s is not None else None, num(e) if e is not None else None)
            return it, lambda it: it.call(it.getattr(d, "__setitem__"), [sl, item], {})
        want = list(range(n))[slice(s, e)]
        try:
            outs = explore(mk, 32)
        except NotInFragment as ex:
            # arithmetic on a None bound inside the method
            rep.violation(rid, "write-slice|none-bound", f"arr[{s}:{e}] = {k} rows on a length-{n} array fails inside __setitem__ ({str(ex)[:80]}); the list model writes rows {want}")
            continue
        for out in outs:
            key = f"write|n={n}|[{s}:{e}]|k={k}"
            if out.kind == "raise":
                rep.violation(rid, "write-slice|raises", f"arr[{s}:{e}] = {k} rows on a length-{n} array raises {out.value.name}; the list model writes rows {want}")
            else:
                ev = [x for x in out.events if x[0] == "write_slice"]
                if len(ev) != 1:
                    rep.violation(rid, "write-slice|access", f"arr[{s}:{e}] = rows: {len(ev)} backing slice writes")
                else:
                    a, b = val(out.interp, ev[0][1], smp), val(out.interp, ev[0][2], smp)
                    got = rows_of(n + CAP_EXTRA, a, b)
                    if got != want:
                        rep.violation(rid, "write-slice|rows", f"arr[{s}:{e}] = {k} rows on a length-{n} array writes backing rows {got}; the list model writes rows {want}")
            rep.instance(rid, key)
    rep.floor(rid, 200)


def check_length(repo, rep):
    rid = "C18-R3"
    rep.rule(rid, "length bookkeeping with symbolic length n: append -> n+1 and writes row n; append_multiple(k rows) -> n+k and "
                  "writes rows n..n+k-1; delete -> n-1; flush -> 0; __len__ = index + 1")

    def concat(it, a, k):
        parts = a[0]
        if parts and isinstance(parts[0], Obj) and parts[0].cls == "ndarray":
            it.event("grow")
            return parts[0]
        return Unknown("concat")

    def zeros(it, a, k):
        return Unknown("zeros")

    def delete(it, a, k):
        it.event("np.delete", a[1])
        return a[0]
    ext = {"numpy.concatenate": concat, "numpy.zeros": zeros, "numpy.delete": delete}
    for n in (0, 1, 8, 9, 10, 19):
        smp = {"n": F(n), "bucket": F(10), "cap": F(10 * (n // 10 + 1))}
        # append
        def mk(dec):
            it = Interp(repo, stubs=W.base_stubs(), samples=[dict(smp)], decisions=dec, ext_stubs=ext)
            d = make_dna(repo, it)
            return it, lambda it: it.call(it.getattr(d, "append"), [Arr([A("x0"), A("x1")])], {})
        for out in explore(mk, 16):
            d = out.interp.dna
            ln = out.interp.call(out.interp.getattr(d, "__len__"), [], {})
            wr = [e for e in out.events if e[0] == "write"]
            ok = out.kind == "return" and isinstance(ln, R) and ln.same(A("n") + R.const(1)) and len(wr) == 1 and wr[0][1].same(A("n"))
            arr_now = d.attrs.get("array")
            if not ok and out.kind == "return" and not (isinstance(arr_now, Obj) and arr_now.cls == "ndarray"):
                # the backing array was replaced by one this access-recording model does not follow (a new way of growing): the
                # bounded histories of R4 run the repository's class itself and decide the behaviour
                rep.undecided_item(f"C18-R3 append on a length-{n} array: the backing array is rebuilt in a way the access-recording model does not follow (decided by the R4 histories)")
                continue
            if not ok:
                rep.violation(rid, "append", f"append on a length-{n} array: length becomes {ln!r}, writes {[(repr(e[1])) for e in wr]} (expected length n+1, row n)")
            rep.instance(rid, f"append|n={n}", {"n": n, "len_after": repr(ln), "grew": any(e[0] == "grow" for e in out.events)})
        # append_multiple
        for k in (1, 3, 12):
            def mk2(dec):
                it = Interp(repo, stubs=W.base_stubs(), samples=[dict(smp)], decisions=dec, ext_stubs=ext)
                d = make_dna(repo, it)
                d.attrs["array"].attrs["__len__"] = BoundBuiltin(lambda i, a, kk: A("cap"))
                items = Arr2([Arr([A(f"m{j}a"), A(f"m{j}b")]) for j in range(k)])
                return it, lambda it: it.call(it.getattr(d, "append_multiple"), [items], {})
            for out in explore(mk2, 16):
                d = out.interp.dna
                ln = out.interp.call(out.interp.getattr(d, "__len__"), [], {})
                wr = [e for e in out.events if e[0] == "write_slice"]
                ok = out.kind == "return" and isinstance(ln, R) and ln.same(A("n") + R.const(k)) and len(wr) == 1 and \
                    isinstance(wr[0][1], R) and wr[0][1].same(A("n")) and wr[0][2].same(A("n") + R.const(k))
                arr_now = d.attrs.get("array")
                if not ok and out.kind == "return" and not (isinstance(arr_now, Obj) and arr_now.cls == "ndarray"):
                    rep.undecided_item(f"C18-R3 append_multiple on a length-{n} array: the backing array is rebuilt in a way the access-recording model does not follow (decided by the R4 histories)")
                    continue
                if not ok:
                    rep.violation(rid, "append_multiple", f"append_multiple({k} rows) on a length-{n} array: length {ln!r}, writes {[(repr(e[1]), repr(e[2])) for e in wr]} (expected n+{k}, rows [n:n+{k}])")
                rep.instance(rid, f"append_multiple|n={n}|k={k}")
        # delete / flush
        if n > 0:
            def mk3(dec):
                it = Interp(repo, stubs=W.base_stubs(), samples=[dict(smp)], decisions=dec, ext_stubs=ext)
                d = make_dna(repo, it)
                return it, lambda it: it.call(it.getattr(d, "delete"), [num(0)], {"axis": num(0)})
            for out in explore(mk3, 16):
                ln = out.interp.call(out.interp.getattr(out.interp.dna, "__len__"), [], {})
                if out.kind != "return" or not (isinstance(ln, R) and ln.same(A("n") - R.const(1))):
                    rep.violation(rid, "delete", f"delete on a length-{n} array: length becomes {ln!r}")
                if sum(1 for e in out.events if e[0] == "np.delete") != 1:
                    rep.violation(rid, "delete|rows", "delete does not remove exactly one backing row")
                rep.instance(rid, f"delete|n={n}")

        def mk4(dec):
            it = Interp(repo, stubs=W.base_stubs(), samples=[dict(smp)], decisions=dec, ext_stubs=ext)
            d = make_dna(repo, it)
            return it, lambda it: it.call(it.getattr(d, "flush"), [], {})
        for out in explore(mk4, 16):
            ln = out.interp.call(out.interp.getattr(out.interp.dna, "__len__"), [], {})
            if out.kind != "return" or not (isinstance(ln, R) and ln.is_const() and ln.const_value() == 0):
                rep.violation(rid, "flush", f"flush leaves length {ln!r}")
            if out.interp.dna.attrs["array"].__class__ is Obj and getattr(out.interp.dna.attrs["array"], "cls", "") == "ndarray":
                rep.violation(rid, "flush|backing", "flush keeps the old backing array")
            rep.instance(rid, f"flush|n={n}")
    rep.floor(rid, 30)


def _model_apply(model, op, drop_at, counter):
    """reference: a plain list of rows; drop-oldest keeps the most recent rows when the length reaches a multiple of drop_at"""
    def maybe_drop():
        if drop_at is not None and len(model) != 0 and len(model) % drop_at == 0:
            del model[:int(drop_at / 2)]
    if op == "a":
        counter[0] += 1
        model.append(counter[0])
        maybe_drop()
    elif op == "al":
        model.append(model[-1])   # the row READ from the array (a view of its own backing store) is appended: forward fill
        maybe_drop()
    elif op == "m0":
        pass                      # extend([]) is a no-op
    elif op.startswith("m"):
        k = int(op[1:])
        for _ in range(k):
            counter[0] += 1
            model.append(counter[0])
        maybe_drop()
    elif op == "d0":
        del model[0]
    elif op in ("dl", "dn1"):
        del model[-1]
    elif op == "dn2":
        del model[-2]
    elif op == "f":
        model.clear()


def _history_worker(args):
    root, bucket, drop_at, seqs = args
    repo = Repo(root)
    out = []
    for seq in seqs:
        res = _run_history(repo, bucket, drop_at, seq)
        if res:
            out.append((seq, res))
    return out, len(seqs)


def _run_history(repo, bucket, drop_at, seq):
    from vlib.absint import ClassV
    dmod, dcls = repo.module(DNA), repo.cls(DNA, "DynamicNumpyArray")
    it = Interp(repo, stubs=W.base_stubs())
    try:
        d = it.instantiate(ClassV(dcls, dmod), [(num(bucket), num(2))], {"drop_at": num(drop_at) if drop_at else None})
    except _Raise as e:
        return f"constructor raises {e.exc.name}"
    model, counter = [], [0]
    row = lambda k: Arr([A(f"r{k}a"), A(f"r{k}b")])
    for step, op in enumerate(seq):
        valid = not ((op in ("d0", "dl", "dn1", "al") and not model) or (op == "dn2" and len(model) < 2))
        if not valid:
            return None          # not a valid list operation: history ends
        before = counter[0]
        try:
            if op == "a":
                it.call(it.getattr(d, "append"), [row(before + 1)], {})
            elif op == "al":
                it.call(it.getattr(d, "append"), [it.call(it.getattr(d, "__getitem__"), [num(-1)], {})], {})
            elif op.startswith("m"):
                k = int(op[1:])
                it.call(it.getattr(d, "append_multiple"), [Arr2([row(before + 1 + j) for j in range(k)])], {})
            elif op == "d0":
                it.call(it.getattr(d, "delete"), [num(0)], {"axis": num(0)})
            elif op == "dl":
                it.call(it.getattr(d, "delete"), [num(len(model) - 1)], {"axis": num(0)})
            elif op in ("dn1", "dn2"):
                it.call(it.getattr(d, "delete"), [num(-int(op[2:]))], {"axis": num(0)})
            elif op == "f":
                it.call(it.getattr(d, "flush"), [], {})
        except _Raise as e:
            return f"step {step + 1} ({op}) raises {e.exc.name} although the operation is valid on a list of length {len(model)}"
        except NotInFragment as e:
            return None
        _model_apply(model, op, drop_at, counter)
        try:
            ln = it.call(it.getattr(d, "__len__"), [], {})
            if not (isinstance(ln, R) and ln.is_const() and ln.const_value() == len(model)):
                return f"after step {step + 1} ({op}): len() is {ln!r}, the list model has {len(model)} rows"
            rows = it.call(it.getattr(d, "__getitem__"), [SliceV(None, None)], {})
            got = []
            for r in rows.rows:
                a0 = r.items[0]
                nm = None
                for k in range(1, counter[0] + 1):
                    if isinstance(a0, R) and a0.same(A(f"r{k}a")):
                        nm = k
                got.append(nm)
            if got != model:
                return f"after step {step + 1} ({op}): rows are {got}, the list model has {model}"
            if model:
                last = it.call(it.getattr(d, "__getitem__"), [num(-1)], {})
                if not last.items[0].same(A(f"r{model[-1]}a")):
                    return f"after step {step + 1} ({op}): arr[-1] is not the newest row"
        except _Raise as e:
            return f"after step {step + 1} ({op}): reading raises {e.exc.name}"
    return None


def check_histories(repo, rep, tier):
    import os
    from concurrent.futures import ProcessPoolExecutor
    rid = "C18-R4"
    rep.rule(rid, "bounded operation histories on the repository's class with concrete small buckets and symbolic row values: every "
                  "history of append / append(arr[-1]) (a view of the array's own last row) / append_multiple(0,2,3 rows) / delete(first) / delete(last) / delete(-1) / delete(-2) / flush up to length L over bucket sizes 2 and 3, "
                  "with and without drop-oldest: no operation valid on the list model raises, and after every step length, all rows and "
                  "arr[-1] equal the list model (drop-oldest: the list truncated to its most recent rows)")
    L = 4 if tier == "quick" else 6
    ops = ["a", "al", "m0", "m2", "m3", "d0", "dl", "dn1", "dn2", "f"]
    jobs = []
    for bucket, drop_at in ((2, None), (3, None), (2, 4), (3, 6), (3, 4)):
        seqs = []
        for n in range(1, L + 1):
            for seq in itertools.product(ops, repeat=n):
                if seq[0] in ("d0", "dl", "dn1", "dn2", "f", "al"):
                    continue
                seqs.append(seq)
        chunk = max(1, len(seqs) // 12)
        for i in range(0, len(seqs), chunk):
            jobs.append((repo.root, bucket, drop_at, seqs[i:i + chunk]))
    total = 0
    worst = {}
    with ProcessPoolExecutor(max_workers=min(16, os.cpu_count() or 1)) as ex:
        for (bad, n), job in zip(ex.map(_history_worker, jobs), jobs):
            total += n
            for seq, msg in bad:
                kind = "raises" if "raises" in msg else ("drop-oldest" if job[2] else "content")
                key = f"history|{kind}|drop_at={'yes' if job[2] else 'no'}"
                cur = worst.get(key)
                if cur is None or len(seq) < len(cur[0]):
                    worst[key] = (seq, msg, job[1], job[2])
    for key, (seq, msg, bucket, drop_at) in sorted(worst.items()):
        rep.violation(rid, key, f"bucket size {bucket}, drop_at {drop_at}, history {' '.join(seq)}: {msg}", {"history": list(seq), "bucket": bucket, "drop_at": drop_at})
    rep.instance(rid, f"histories up to length {L}", {"histories": total, "buckets": [2, 3], "drop_at": [None, 4, 6]}, n=total)
    rep.floor(rid, 500)


def check_no_inplace_reshape(repo, rep):
    """reads hand out VIEWS of the backing array (arr[i], arr[i:j], get_last_item): numpy refuses to resize an array in place while a view
    of it is alive (ndarray.resize raises ValueError, `a.shape = ..` fails for non-contiguous results) - growth must build a new array"""
    import ast as _ast
    rid = "C18-R6"
    rep.rule(rid, "no method of DynamicNumpyArray changes the shape of the backing array in place (ndarray.resize, assignment to .shape, "
                  "refcheck / setflags tricks): a row or slice read earlier is a live view, and an append that has to grow would raise "
                  "where a list never does")
    cls = repo.cls(DNA, "DynamicNumpyArray")
    n = 0
    for f in cls.body:
        if not isinstance(f, _ast.FunctionDef):
            continue
        n += 1
        me = f.args.args[0].arg if f.args.args else "self"
        for node in _ast.walk(f):
            if isinstance(node, _ast.Call) and isinstance(node.func, _ast.Attribute) and node.func.attr in ("resize", "setflags") :
                b = node.func.value
                if isinstance(b, _ast.Attribute) and isinstance(b.value, _ast.Name) and b.value.id == me:
                    rep.violation(rid, f"{f.name}|{node.func.attr}", f"DynamicNumpyArray.{f.name}: `{norm(node)[:80]}` reshapes the backing array in place - it raises while a row or slice "
                                                                      f"handed out earlier is alive (valid on the list model)")
            if isinstance(node, _ast.Assign):
                for t in node.targets:
                    if isinstance(t, _ast.Attribute) and t.attr == "shape" and isinstance(t.value, _ast.Attribute) and isinstance(t.value.value, _ast.Name) and t.value.value.id == me:
                        rep.violation(rid, f"{f.name}|shape", f"DynamicNumpyArray.{f.name}: `{norm(node)[:80]}` reshapes the backing array in place")
        rep.instance(rid, f.name)
    rep.floor(rid, 8)


def run(repo: Repo, rep, tier: str):
    rep.guarded(check_no_inplace_reshape, repo, rep)
    from vlib import memo
    rep.guarded(memo.check, repo, rep, "C18-R5", [(DNA, "DynamicNumpyArray")], "backing array, index, capacity")
    rep.exhaustive = True
    rep.assume("backing capacity exceeds the logical length (capacity invariant across arbitrary append/delete histories is not decided)")
    rep.assume("index cells are witnessed on the grid n in {0,1,3,5}, bounds in [-7, 7]; beyond the grid behaviour is the clamped/raising cell already witnessed")
    rep.guarded(check_item, repo, rep)
    rep.guarded(check_slices, repo, rep)
    rep.guarded(check_length, repo, rep)
    rep.guarded(check_histories, repo, rep, tier)
    rep.undecided_item("capacity invariant (index < len(backing)) after every interleaving of append / append_multiple / delete with bucket growth")
    rep.undecided_item("drop_at (drop-oldest) option: shifted contents are values of the backing store")
    rep.undecided_item("returned row values (reads are decided as the set of backing rows denoted)")


CLAIM = {
    "engine": "absint",
    "technique": "abstract interpretation of DynamicNumpyArray's methods with symbolic logical length and an access-recording backing array; index cells witnessed on a grid and compared with the list model's row sets",
    "text": "Static. __getitem__/__setitem__ (item and slice forms), append, append_multiple, delete, flush and __len__ are interpreted from "
            "/repo's source with a symbolic length n and a backing array that only records which rows are touched. For every cell of "
            "the index / slice bounds (None, negative, in range, past the end) the touched backing rows must be exactly the rows the "
            "plain list model denotes, IndexError exactly outside [-n, n), and no operation valid on a list may raise; length "
            "bookkeeping is n+1 / n+k / n-1 / 0 symbolically. Bounded histories (length <= 4, thorough 6) of append / bulk append of 0, 2, "
            "3 rows / delete(first, last, -1, -2) / flush on the repository's class with bucket sizes 2 and 3, with and without "
            "drop-oldest, are executed abstractly and compared with the list model after every step. Not decided: longer histories, returned values. Histories include appending a view of the array's own last row. No in-place reshape of the backing array (R6); memo / derived-field invalidation completeness (R5).",
    "note": "Trusted: interpreter semantics; numpy slice semantics of the backing array modelled by Python list slicing.",
}
